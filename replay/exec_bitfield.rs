//! executable contracts for src/bitfield/{fixed,dynamic}.rs (child module of `crate::bitfield`)
#![allow(dead_code, missing_docs, unused_imports, clippy::all)]
use super::dynamic::DynamicBitfield;
use super::fixed::FixedBitfield;
use crate::common::{BitfieldUpdate, Store, StoreInfo, StoreInfoType};
use crate::verif_exec::{guarded, Contract, Rng};
use futures::future::Either;

fn bytes_bit(data: &[u8], k: usize) -> bool { (data[k / 8] >> (k % 8)) & 1 == 1 }
fn file_bit(data: &[u8], k: usize) -> bool { 4 * (k / 32) + 4 <= data.len() && bytes_bit(data, k) }

fn hex(d: &[u8]) -> String { d.iter().map(|b| format!("{:02x}", b)).collect() }
fn unhex(s: &str) -> Vec<u8> { (0..s.len() / 2).map(|i| u8::from_str_radix(&s[2 * i..2 * i + 2], 16).unwrap()).collect() }

// ---- FixedBitfield::from_data: bit k of the page == bit k of data[data_index..] (whole words only)
fn check_from_data(data_index: usize, data: &[u8]) -> Option<String> {
    let r = guarded(|| FixedBitfield::from_data(data_index, data));
    match r {
        Err(p) => Some(format!("panic: {}", p)),
        Ok(bf) => {
            for k in 0..32768usize {
                let want = data_index + 4 * (k / 32) + 4 <= data.len() && bytes_bit(data, 8 * data_index + k);
                if bf.get(k as u32) != want {
                    return Some(format!("bit {} of page is {} but the file says {}", k, bf.get(k as u32), want));
                }
            }
            None
        }
    }
}
fn search_from_data(rng: &mut Rng, budget: usize) -> Option<String> {
    for it in 0..budget {
        let pages = 1 + rng.below(3) as usize;
        let mut len = pages * 4096;
        if rng.chance(1, 2) { len -= 4 * rng.below(1024) as usize; }
        let mut data = vec![0u8; len];
        let n = 1 + rng.below(40);
        for _ in 0..n { let i = rng.below(len as u64) as usize; data[i] = rng.next() as u8 | 1; }
        if it == 0 && len > 4096 { data[4096] = 1; }
        let data_index = 4096 * rng.below(pages as u64) as usize;
        if let Some(m) = check_from_data(data_index, &data) {
            return Some(format!("{{\"data_index\":{},\"data_hex_len\":{},\"nonzero\":{:?},\"why\":\"{}\"}}|{}|{}", data_index, len,
                data.iter().enumerate().filter(|(_, b)| **b != 0).map(|(i, b)| (i, *b)).take(8).collect::<Vec<_>>(), m, data_index, hex_sparse(&data)));
        }
    }
    None
}
// sparse run-length encoding "len:a-b=val,..." (bytes a..=b have value val, everything else 0)
fn hex_sparse(d: &[u8]) -> String {
    let mut s = format!("{}:", d.len());
    let mut i = 0;
    while i < d.len() {
        if d[i] != 0 {
            let mut j = i;
            while j + 1 < d.len() && d[j + 1] == d[i] { j += 1; }
            s.push_str(&format!("{}-{}={},", i, j, d[i]));
            i = j + 1;
        } else { i += 1; }
    }
    s
}
fn un_sparse(s: &str) -> Vec<u8> {
    let (l, rest) = s.split_once(':').unwrap();
    let mut d = vec![0u8; l.parse().unwrap()];
    for kv in rest.split(',') {
        if let Some((r, v)) = kv.split_once('=') {
            let (a, b) = r.split_once('-').unwrap();
            for i in a.parse::<usize>().unwrap()..=b.parse::<usize>().unwrap() { d[i] = v.parse().unwrap(); }
        }
    }
    d
}
fn rerun_from_data(input: &str) -> Option<String> {
    let parts: Vec<&str> = input.split('|').collect();
    check_from_data(parts[1].parse().unwrap(), &un_sparse(parts[2]))
}

// ---- DynamicBitfield::open: get(i) == bit i of the bitfield file, for every i (also beyond the file)
fn check_open(data: &[u8]) -> Option<String> {
    let r = guarded(|| DynamicBitfield::open(Some(StoreInfo::new_content(Store::Bitfield, 0, data))));
    match r {
        Err(p) => Some(format!("panic: {}", p)),
        Ok(Either::Left(_)) => Some("open returned an instruction for content".to_string()),
        Ok(Either::Right(bf)) => {
            let nbits = data.len() * 8;
            let mut probes: Vec<u64> = (0..nbits as u64).collect();
            for extra in [nbits as u64, nbits as u64 + 1, 32768, 32768 + 8500, 65536, 65536 + 8191, 3 * 32768 + 5, 1 << 40] { probes.push(extra); }
            for i in probes {
                let want = (i as usize) < nbits && file_bit(data, i as usize);
                let got = match guarded(|| bf.get(i)) { Ok(g) => g, Err(p) => return Some(format!("get({}) panicked: {}", i, p)) };
                if got != want { return Some(format!("get({}) is {} but the file says {}", i, got, want)); }
            }
            None
        }
    }
}
fn search_open(rng: &mut Rng, budget: usize) -> Option<String> {
    for it in 0..budget.min(60) {
        let pages = 1 + rng.below(3) as usize;
        let mut len = pages * 4096;
        if rng.chance(1, 3) { len -= 4 * rng.below(1024) as usize; }
        if it == 1 { len = 0; }
        let mut data = vec![0u8; len];
        if len > 0 {
            let n = 1 + rng.below(40);
            for _ in 0..n { let i = rng.below(len as u64) as usize; data[i] = rng.next() as u8 | 1; }
            if it == 0 { for b in data.iter_mut().take(1125) { *b = 0xff; } }   // 9000 blocks held
        }
        if let Some(m) = check_open(&data) {
            return Some(format!("{{\"file_len\":{},\"why\":\"{}\"}}|{}", len, m, hex_sparse(&data)));
        }
    }
    None
}
fn rerun_open(input: &str) -> Option<String> {
    let parts: Vec<&str> = input.split('|').collect();
    check_open(&un_sparse(parts[1]))
}

// ---- set_range / flush / reopen round trip on the dynamic bitfield against a bit-set model
fn check_ranges(ops: &[(u64, u64, bool)]) -> Option<String> {
    let r = guarded(|| {
        let mut bf = match DynamicBitfield::open(Some(StoreInfo::new_content(Store::Bitfield, 0, &[]))) {
            Either::Right(b) => b, Either::Left(_) => return Some("open".to_string()) };
        let mut model = std::collections::BTreeSet::new();
        let mut file: Vec<u8> = Vec::new();
        for (n, (start, len, val)) in ops.iter().enumerate() {
            bf.update(&BitfieldUpdate { drop: !*val, start: *start, length: *len });
            for i in *start..*start + *len { if *val { model.insert(i); } else { model.remove(&i); } }
            let mut probes: Vec<u64> = model.iter().cloned().collect();
            for (s, l, _) in ops.iter() { for d in [0u64, 1, 2] { probes.push(s.saturating_sub(d)); probes.push(s + l + d); probes.push(s + l - 1.min(*l)); } }
            for i in probes { if bf.get(i) != model.contains(&i) { return Some(format!("after op {} get({}) = {} model {}", n, i, bf.get(i), model.contains(&i))); } }
            // flush and check the file image equals the model
            for info in bf.flush().iter() {
                if info.store != Store::Bitfield || info.info_type != StoreInfoType::Content || info.miss { return Some("flush: wrong kind of store info".to_string()); }
                let d = info.data.as_ref().unwrap();
                let end = info.index as usize + d.len();
                if file.len() < end { file.resize(end, 0); }
                file[info.index as usize..end].copy_from_slice(d);
            }
            for i in model.iter() { if !( (*i as usize) < file.len() * 8 && bytes_bit(&file, *i as usize)) { return Some(format!("after flush {} bit {} missing in the file image", n, i)); } }
            let ones: usize = file.iter().map(|b| b.count_ones() as usize).sum();
            if ones != model.len() { return Some(format!("after flush {} file has {} bits set, model {}", n, ones, model.len())); }
        }
        None
    });
    match r { Ok(x) => x, Err(p) => Some(format!("panic: {}", p)) }
}
fn search_ranges(rng: &mut Rng, budget: usize) -> Option<String> {
    let edges = [0u64, 1, 31, 32, 33, 8191, 8192, 32767, 32768, 32769, 65535, 65536, 65537, 98304];
    for _ in 0..budget.min(80) {
        let n = 1 + rng.below(5) as usize;
        let mut ops = Vec::new();
        for _ in 0..n {
            let start = if rng.chance(2, 3) { rng.pick(&edges).saturating_sub(rng.below(3)) } else { rng.below(100000) };
            let len = if rng.chance(1, 2) { 1 + rng.below(70) } else { 1 + rng.below(40000) };
            ops.push((start, len, rng.chance(2, 3)));
        }
        if let Some(m) = check_ranges(&ops) {
            let enc: Vec<String> = ops.iter().map(|(s, l, v)| format!("{},{},{}", s, l, *v as u8)).collect();
            return Some(format!("{{\"ops(start,len,set)\":{:?},\"why\":\"{}\"}}|{}", ops, m, enc.join(";")));
        }
    }
    None
}
fn rerun_ranges(input: &str) -> Option<String> {
    let parts: Vec<&str> = input.split('|').collect();
    let ops: Vec<(u64, u64, bool)> = parts[1].split(';').map(|t| { let f: Vec<&str> = t.split(',').collect(); (f[0].parse().unwrap(), f[1].parse().unwrap(), f[2] == "1") }).collect();
    check_ranges(&ops)
}

// ---- index_of / last_index_of on both bitfields against a brute-force scan of get()
fn check_searches(ops: &[(u64, u64, bool)], probes: &[u64]) -> Option<String> {
    let r = guarded(|| {
        let mut bf = match DynamicBitfield::open(Some(StoreInfo::new_content(Store::Bitfield, 0, &[]))) {
            Either::Right(b) => b, Either::Left(_) => return Some("open".to_string()) };
        let mut hi = 0u64;
        for (start, len, val) in ops.iter() { bf.update(&BitfieldUpdate { drop: !*val, start: *start, length: *len }); hi = hi.max(start + len + 40); }
        for p in probes.iter().cloned() {
            // held blocks only (the callers search for `true`): first held block at or after p, last held block at or before p
            let want_up = (p..hi + 32768 * 2).find(|i| bf.get(*i));
            let got_up = bf.index_of(true, p);
            if got_up != want_up { return Some(format!("DynamicBitfield::index_of(true, {p}) = {:?}, a scan of get() gives {:?}", got_up, want_up)); }
            let want_down = (0..=p).rev().find(|i| bf.get(*i));
            let got_down = bf.last_index_of(true, p);
            if got_down != want_down { return Some(format!("DynamicBitfield::last_index_of(true, {p}) = {:?}, a scan of get() gives {:?}", got_down, want_down)); }
        }
        // one fixed page, both values
        let mut fb = FixedBitfield::new();
        for (start, len, val) in ops.iter() { let s = (*start % 32768) as u32; let l = (*len).min(32768 - s as u64) as u32; fb.set_range(s, l, *val); }
        for p in probes.iter().map(|p| (*p % 32768) as u32) {
            for v in [true, false] {
                let want_up = (p..32768).find(|i| fb.get(*i) == v);
                if fb.index_of(v, p) != want_up { return Some(format!("FixedBitfield::index_of({v}, {p}) = {:?}, a scan gives {:?}", fb.index_of(v, p), want_up)); }
                let want_down = (0..=p).rev().find(|i| fb.get(*i) == v);
                if fb.last_index_of(v, p) != want_down { return Some(format!("FixedBitfield::last_index_of({v}, {p}) = {:?}, a scan gives {:?}", fb.last_index_of(v, p), want_down)); }
            }
        }
        None
    });
    match r { Ok(x) => x, Err(p) => Some(format!("panic: {}", p)) }
}
fn search_searches(rng: &mut Rng, budget: usize) -> Option<String> {
    let edges = [0u64, 1, 20, 31, 32, 33, 37, 63, 64, 65, 69, 8191, 8192, 32767, 32768, 32769, 65535, 65536];
    let mut cases: Vec<(Vec<(u64, u64, bool)>, Vec<u64>)> = vec![
        (vec![(0, 100, true), (32, 32, false), (20, 17, false)], vec![0, 19, 20, 36, 37, 63, 64, 99, 100]),
        (vec![(0, 70000, true), (32760, 20, false), (65530, 10, false)], vec![0, 32759, 32760, 32779, 32780, 65529, 65540, 69999, 70000]),
    ];
    for _ in 0..budget.min(60) {
        let n = 1 + rng.below(5) as usize;
        let mut ops = Vec::new();
        for _ in 0..n { let start = if rng.chance(2, 3) { rng.pick(&edges).saturating_sub(rng.below(3)) } else { rng.below(70000) }; let len = if rng.chance(1, 2) { 1 + rng.below(70) } else { 1 + rng.below(40000) }; ops.push((start, len, rng.chance(2, 3))); }
        let probes: Vec<u64> = (0..12).map(|_| if rng.chance(1, 2) { rng.pick(&edges) + rng.below(6) } else { rng.below(80000) }).collect();
        cases.push((ops, probes));
    }
    for (ops, probes) in cases {
        if let Some(m) = check_searches(&ops, &probes) {
            let enc: Vec<String> = ops.iter().map(|(s, l, v)| format!("{},{},{}", s, l, *v as u8)).collect();
            let pe: Vec<String> = probes.iter().map(|p| p.to_string()).collect();
            return Some(format!("{{\"ops(start,len,set)\":{:?},\"probes\":{:?},\"why\":\"{}\"}}|{}|{}", ops, probes, m, enc.join(";"), pe.join(",")));
        }
    }
    None
}
fn rerun_searches(input: &str) -> Option<String> {
    let parts: Vec<&str> = input.split('|').collect();
    let ops: Vec<(u64, u64, bool)> = parts[1].split(';').map(|t| { let f: Vec<&str> = t.split(',').collect(); (f[0].parse().unwrap(), f[1].parse().unwrap(), f[2] == "1") }).collect();
    let probes: Vec<u64> = parts[2].split(',').map(|x| x.parse().unwrap()).collect();
    check_searches(&ops, &probes)
}

pub fn contracts() -> Vec<Contract> {
    vec![
        Contract { name: "bitfield.searches", covers: &["FixedBitfield::index_of", "FixedBitfield::last_index_of", "DynamicBitfield::index_of", "DynamicBitfield::last_index_of"], search: search_searches, rerun: rerun_searches },
        Contract { name: "bitfield.from_data", covers: &["FixedBitfield::from_data"], search: search_from_data, rerun: rerun_from_data },
        Contract { name: "bitfield.open", covers: &["DynamicBitfield::open", "FixedBitfield::from_data"], search: search_open, rerun: rerun_open },
        Contract { name: "bitfield.ranges", covers: &["DynamicBitfield::set_range", "DynamicBitfield::update", "DynamicBitfield::get", "DynamicBitfield::flush",
            "FixedBitfield::set_range", "FixedBitfield::get", "FixedBitfield::to_bytes", "FixedBitfield::new", "DynamicBitfield::set", "FixedBitfield::set"],
            search: search_ranges, rerun: rerun_ranges },
    ]
}
