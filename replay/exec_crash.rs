//! executable contracts for crash recovery (C02), torn writes (C07) and storage faults (C10): public API over the
//! journalling shared in-memory backend.  Module `crate::verif_exec_crash`.
#![allow(dead_code, missing_docs, unused_imports, clippy::all)]
use crate::verif_exec::{block_on, create_core, guarded, open_core, Contract, Op, Rng, SharedDisk};
use crate::verif_exec_e2e::{dec, enc, Step};

type Model = (Vec<Option<Vec<u8>>>, u64);
fn block_bytes(index: usize, size: usize) -> Vec<u8> { (0..size).map(|k| (index * 31 + k * 7 + 1) as u8).collect() }

/// observations of a core compared with a model; None = equal
fn same(core: &mut crate::Hypercore, m: &Model) -> Option<String> {
    let info = core.info();
    if info.length != m.0.len() as u64 || info.byte_length != m.1 { return Some(format!("length/byte_length {}/{} vs model {}/{}", info.length, info.byte_length, m.0.len(), m.1)); }
    let contig = m.0.iter().position(|b| b.is_none()).unwrap_or(m.0.len()) as u64;
    if info.contiguous_length != contig { return Some(format!("contiguous_length {} vs first missing {}", info.contiguous_length, contig)); }
    for i in 0..m.0.len() as u64 + 2 {
        let want = m.0.get(i as usize).cloned().flatten();
        if core.has(i) != want.is_some() { return Some(format!("has({i}) = {} vs model {}", core.has(i), want.is_some())); }
        match block_on(core.get(i)) { Ok(g) => if g != want { return Some(format!("get({i}) differs from the model")); }, Err(e) => return Some(format!("get({i}) failed: {e}")) }
    }
    None
}
fn apply_model(m: &mut Model, st: &Step) {
    match st {
        Step::Append(sizes) => for s in sizes { let b = block_bytes(m.0.len(), *s); m.1 += b.len() as u64; m.0.push(Some(b)); },
        Step::Clear(a, b) => for i in *a..(*b).min(m.0.len() as u64) { m.0[i as usize] = None; },
        Step::Reopen | Step::ReadOnly => {}
    }
}
fn run_step(core: &mut crate::Hypercore, m: &Model, st: &Step) -> Result<(), String> {
    match st {
        Step::Append(sizes) => { let blocks: Vec<Vec<u8>> = sizes.iter().enumerate().map(|(k, s)| block_bytes(m.0.len() + k, *s)).collect();
            let refs: Vec<&[u8]> = blocks.iter().map(|b| b.as_slice()).collect(); block_on(core.append_batch(&refs)).map(|_| ()).map_err(|e| e.to_string()) }
        Step::Clear(a, b) => block_on(core.clear(*a, *b)).map_err(|e| e.to_string()),
        Step::Reopen | Step::ReadOnly => Ok(()),
    }
}

/// C02 (+C07 when `torn`): run the history once, recording the journal and the op index at every call boundary; then for every
/// journal prefix (and, for writes, torn byte prefixes of the next op) rebuild the files, reopen and compare with before/after.
fn crash_check(steps: &[Step], torn: bool) -> Option<String> { crash_check_ro(steps, torn, false) }
/// `read_only_last`: after the history, call make_read_only() (it changes no observation of the log) and crash inside it too
fn crash_check_ro(steps: &[Step], torn: bool, read_only_last: bool) -> Option<String> {
    let r = guarded(|| -> Option<String> {
        let disk = SharedDisk::new();
        let mut core = match create_core(&disk) { Ok(c) => c, Err(e) => return Some(format!("create: {e}")) };
        let mut model: Model = (vec![], 0);
        let mut bounds: Vec<(usize, Model)> = vec![(disk.journal().len(), model.clone())];   // journal length after each call, model after it
        for st in steps {
            if let Step::Reopen = st { drop(core); core = match open_core(&disk) { Ok(c) => c, Err(e) => return Some(format!("reopen: {e}")) }; }
            else { if let Err(e) = run_step(&mut core, &model, st) { return Some(format!("history step failed without any fault: {e}")); } apply_model(&mut model, st); }
            bounds.push((disk.journal().len(), model.clone()));
        }
        if read_only_last {
            if let Err(e) = block_on(core.make_read_only()) { return Some(format!("make_read_only failed without any fault: {e}")); }
            bounds.push((disk.journal().len(), model.clone()));
        }
        let journal = disk.journal();
        let first = bounds[0].0;
        for k in first..=journal.len() {
            // states allowed at this crash point: model before and after the call in progress
            let idx = bounds.iter().position(|(n, _)| *n >= k).unwrap();
            let after = bounds[idx].1.clone();
            let before = if bounds[idx].0 == k { after.clone() } else { bounds[idx - 1].1.clone() };
            let mut cuts: Vec<Option<usize>> = vec![None];
            if torn && k < journal.len() { if let Op::Write(_, _, data) = &journal[k] {
                let n = data.len();
                let mut c: Vec<usize> = if n <= 64 { (1..n).collect() } else { vec![1, 4, 7, 8, 9, n / 2, 511, 512, 513, n - 1] };
                c.retain(|x| *x > 0 && *x < n); c.sort(); c.dedup();
                for x in c { cuts.push(Some(x)); }
            } }
            for cut in cuts {
                let mut files: [Vec<u8>; 4] = Default::default();
                for op in &journal[..k] { SharedDisk::apply(&mut files, op); }
                if let Some(c) = cut { if let Op::Write(s, off, data) = &journal[k] { SharedDisk::apply(&mut files, &Op::Write(*s, *off, data[..c].to_vec())); } }
                let d2 = SharedDisk::from_files(files);
                let mut rc = match open_core(&d2) { Ok(c) => c, Err(e) => return Some(format!("crash after {k} of {} storage operations{}: reopen failed: {e}", journal.len(), cut.map(|c| format!(" (+{c} torn bytes)")).unwrap_or_default())) };
                let a = same(&mut rc, &before);
                let b = if a.is_some() { same(&mut rc, &after) } else { None };
                if let (Some(ma), Some(mb)) = (&a, &b) {
                    return Some(format!("crash after {k} of {} storage operations{}: recovered state is neither before ({ma}) nor after ({mb})", journal.len(), cut.map(|c| format!(" (+{c} torn bytes)")).unwrap_or_default()));
                }
                // the recovered core stays usable
                let mut m2 = if a.is_none() { before.clone() } else { after.clone() };
                let st = Step::Append(vec![2]);
                match run_step(&mut rc, &m2, &st) {
                    Ok(()) => apply_model(&mut m2, &st),
                    Err(e) if read_only_last && !rc.info().writeable => { let _ = e; }   // recovered on the read-only side of make_read_only
                    Err(e) => return Some(format!("crash after {k}: append on the recovered core failed: {e}")),
                }
                drop(rc);
                let mut rc2 = match open_core(&d2) { Ok(c) => c, Err(e) => return Some(format!("crash after {k}: second reopen failed: {e}")) };
                if let Some(m) = same(&mut rc2, &m2) { return Some(format!("crash after {k}: after one more append and reopen: {m}")); }
                if read_only_last {
                    // C12: whatever the interrupted call left behind, once make_read_only RETURNS no file holds the secret key
                    let was = rc2.info().writeable;
                    match block_on(rc2.make_read_only()) { Ok(r) if r == was => {}, Ok(r) => return Some(format!("crash after {k}: make_read_only on the recovered core (writable: {was}) returned {r}")),
                        Err(e) => return Some(format!("crash after {k}: make_read_only on the recovered core failed: {e}")) }
                    let secret = crate::verif_exec::fixed_key().secret.as_ref().unwrap().to_bytes();
                    let names = ["tree", "data", "bitfield", "oplog"];
                    for (n, f) in d2.files().iter().enumerate() { if f.windows(32).any(|w| w == &secret[..]) {
                        return Some(format!("crash after {k} of {} storage operations{}: the core recovered (writable: {was}), make_read_only returned, and the {} file still contains the secret key", journal.len(), cut.map(|c| format!(" (+{c} torn bytes)")).unwrap_or_default(), names[n])); } }
                    drop(rc2);
                    let mut rc3 = match open_core(&d2) { Ok(c) => c, Err(e) => return Some(format!("crash after {k}: reopen after the second make_read_only failed: {e}")) };
                    if rc3.info().writeable { return Some(format!("crash after {k}: writable after make_read_only returned")); }
                    if let Some(m) = same(&mut rc3, &m2) { return Some(format!("crash after {k}: after make_read_only on the recovered core: {m}")); }
                }
            }
        }
        None
    });
    match r { Ok(x) => x, Err(p) => Some(format!("panic: {p}")) }
}
fn gen(rng: &mut Rng, n: usize) -> Vec<Step> {
    let mut steps = Vec::new(); let mut len = 0u64;
    for _ in 0..(1 + rng.below(n as u64)) {
        match rng.below(10) {
            0..=5 => { let k = 1 + rng.below(3) as usize; let sizes: Vec<usize> = (0..k).map(|_| rng.pick(&[0usize, 1, 3, 20])).collect(); len += k as u64; steps.push(Step::Append(sizes)); }
            6..=7 if len > 0 => { let a = rng.below(len); steps.push(Step::Clear(a, a + 1 + rng.below(len - a + 1))); }
            _ => steps.push(Step::Reopen),
        }
    }
    steps
}
fn search_crash(rng: &mut Rng, budget: usize) -> Option<String> {
    let fixed = ["a1;a1;a1,1;r;a1;c1,3;a1;a1;a1;a1", "a3;a3;c0,1;r;a1", "a1;a1;a1;a1;a1;a1", "a2,0;c0,1;a1;r;a1;a1;a1;a1;c2,5"];
    for f in fixed { let st = dec(f); if let Some(m) = crash_check(&st, false) { return Some(format!("{{\"history\":\"{}\",\"why\":\"{}\"}}|{}", f, m, f)); } }
    for _ in 0..budget.min(60) { let st = gen(rng, 8); if let Some(m) = crash_check(&st, false) { let e = enc(&st); return Some(format!("{{\"history\":\"{}\",\"why\":\"{}\"}}|{}", e, m, e)); } }
    None
}
fn search_torn(rng: &mut Rng, budget: usize) -> Option<String> {
    let fixed = ["a1;a1;a1,1;r;a1;c1,3;a1", "a1;a1;a1;a1;a1;a1"];
    for f in fixed { let st = dec(f); if let Some(m) = crash_check(&st, true) { return Some(format!("{{\"history\":\"{}\",\"why\":\"{}\"}}|{}", f, m, f)); } }
    for _ in 0..budget.min(12) { let st = gen(rng, 6); if let Some(m) = crash_check(&st, true) { let e = enc(&st); return Some(format!("{{\"history\":\"{}\",\"why\":\"{}\"}}|{}", e, m, e)); } }
    // torn writes inside make_read_only (two full 4096-byte header slots)
    for f in ["a1;a1;a1", "a1;a1"] { let st = dec(f); if let Some(m) = crash_check_ro(&st, true, true) { return Some(format!("{{\"history\":\"{};make_read_only\",\"why\":\"{}\"}}|RO:{}", f, m, f)); } }
    None
}
fn search_crash_ro(rng: &mut Rng, budget: usize) -> Option<String> {
    let fixed = ["a1;a1;a1", "a1", "a1;a1", "a2,3;a1;c0,1;a1", "a1;a1;a1;a1;a1;a1;a1"];
    for f in fixed { let st = dec(f); if let Some(m) = crash_check_ro(&st, false, true) { return Some(format!("{{\"history\":\"{};make_read_only\",\"why\":\"{}\"}}|{}", f, m, f)); } }
    for _ in 0..budget.min(40) { let st = gen(rng, 6); if let Some(m) = crash_check_ro(&st, false, true) { let e = enc(&st); return Some(format!("{{\"history\":\"{};make_read_only\",\"why\":\"{}\"}}|{}", e, m, e)); } }
    None
}
fn rerun_crash_ro(input: &str) -> Option<String> { crash_check_ro(&dec(input.rsplit('|').next().unwrap()), false, true) }
fn rerun_crash(input: &str) -> Option<String> { crash_check(&dec(input.rsplit('|').next().unwrap()), false) }
fn rerun_torn(input: &str) -> Option<String> { let t = input.rsplit('|').next().unwrap(); if let Some(h) = t.strip_prefix("RO:") { crash_check_ro(&dec(h), true, true) } else { crash_check(&dec(t), true) } }

/// C10: inject one I/O error at storage call k of the last step of the history
fn fault_check(steps: &[Step], with_get: bool) -> Option<String> {
    let r = guarded(|| -> Option<String> {
        // dry run to count the backend calls of the last step
        let run_prefix = |disk: &SharedDisk| -> Result<(crate::Hypercore, Model), String> {
            let mut core = create_core(disk).map_err(|e| e.to_string())?;
            let mut model: Model = (vec![], 0);
            for st in &steps[..steps.len() - 1] {
                if let Step::Reopen = st { drop(core); core = open_core(disk).map_err(|e| e.to_string())?; } else { run_step(&mut core, &model, st)?; apply_model(&mut model, st); }
            }
            Ok((core, model))
        };
        let last = &steps[steps.len() - 1];
        let d0 = SharedDisk::new();
        let (mut c0, m0) = match run_prefix(&d0) { Ok(x) => x, Err(e) => return Some(format!("setup: {e}")) };
        let start = d0.0.lock().unwrap().op_count;
        if with_get { let _ = block_on(c0.get(0)); } else if let Step::Reopen = last { drop(c0); let _ = open_core(&d0); } else { let _ = run_step(&mut c0, &m0, last); }
        let total = d0.0.lock().unwrap().op_count - start;
        // a reopen is tried both ways: open(true) and the key-pair builder on existing storage (which must not start afresh
        // because a read or length query failed)
        for mode in 0..(if matches!(last, Step::Reopen) && !with_get { 2 } else { 1 }) {
        for k in 0..total {
            let disk = SharedDisk::new();
            let (mut core, model) = match run_prefix(&disk) { Ok(x) => x, Err(e) => return Some(format!("setup: {e}")) };
            let base = disk.0.lock().unwrap().op_count;
            let jlen = disk.journal().len();
            disk.0.lock().unwrap().fail_at = Some(base + k);
            let mut after = model.clone();
            let res: Result<(), String> = if with_get { block_on(core.get(0)).map(|_| ()).map_err(|e| e.to_string()) }
                else if let Step::Reopen = last { drop(core); match (if mode == 0 { open_core(&disk) } else { create_core(&disk) }) { Ok(c) => { core = c; Ok(()) }, Err(e) => { core = match { disk.0.lock().unwrap().fail_at = None; open_core(&disk) } { Ok(c) => c, Err(e2) => return Some(format!("fault at call {k} of reopen, then fault-free reopen failed: {e2}")) }; Err(e.to_string()) } } }
                else { apply_model(&mut after, last); run_step(&mut core, &model, last) };
            let failed = disk.0.lock().unwrap().failed;
            if !failed { continue; }   // the call did not reach operation k
            if res.is_ok() { return Some(format!("storage call {k} of the last step failed but the step returned Ok")); }
            // nothing may be issued after the failing operation
            let issued_after = disk.0.lock().unwrap().op_count - (base + k + 1);
            if issued_after > 0 && !matches!(last, Step::Reopen) { return Some(format!("{issued_after} storage call(s) were issued after the failing call {k}")); }
            disk.0.lock().unwrap().fail_at = None;
            drop(core);
            let mut rc = match open_core(&disk) { Ok(c) => c, Err(e) => return Some(format!("fault at call {k}: reopen failed: {e}")) };
            let a = same(&mut rc, &model); let b = if a.is_some() { same(&mut rc, &after) } else { None };
            if let (Some(ma), Some(mb)) = (&a, &b) { return Some(format!("fault at call {k} ({} ops journalled before): recovered state is neither before ({ma}) nor after ({mb})", jlen)); }
        }
        }
        None
    });
    match r { Ok(x) => x, Err(p) => Some(format!("panic: {p}")) }
}
fn search_fault(rng: &mut Rng, budget: usize) -> Option<String> {
    let fixed = ["a1", "a1;a1;a1,1", "a1;a1;a1;c0,2", "a1;a1;r", "a1;a1;a1;a1;a1", "a2;r;a1"];
    for f in fixed { let st = dec(f); for g in [false, true] { if let Some(m) = fault_check(&st, g) { return Some(format!("{{\"history\":\"{}\",\"fault_in\":\"{}\",\"why\":\"{}\"}}|{}|{}", f, if g { "get(0) after the history" } else { "last step" }, m, g as u8, f)); } } }
    for _ in 0..budget.min(40) { let st = gen(rng, 6); let g = rng.chance(1, 4); if let Some(m) = fault_check(&st, g) { let e = enc(&st); return Some(format!("{{\"history\":\"{}\",\"fault_in\":\"{}\",\"why\":\"{}\"}}|{}|{}", e, if g { "get(0)" } else { "last step" }, m, g as u8, e)); } }
    None
}
fn rerun_fault(input: &str) -> Option<String> { let p: Vec<&str> = input.split('|').collect(); fault_check(&dec(p[p.len() - 1]), p[p.len() - 2] == "1") }

pub fn contracts() -> Vec<Contract> {
    vec![
        Contract { name: "e2e.crash_prefixes", covers: &["Hypercore::append_batch", "Hypercore::clear", "Hypercore::flush_bitfield_and_tree_and_oplog", "Hypercore::new", "Oplog::open", "Oplog::flush", "Oplog::insert_header",
            "Oplog::append_entries", "Oplog::get_next_header_oplog_slot_and_bit_value", "MerkleTree::flush", "MerkleTree::commit", "DynamicBitfield::flush", "Hypercore::should_flush_bitfield_and_tree_and_oplog"],
            search: search_crash, rerun: rerun_crash },
        Contract { name: "e2e.crash_read_only", covers: &["Hypercore::make_read_only", "Hypercore::flush_bitfield_and_tree_and_oplog", "Oplog::flush", "Oplog::insert_header", "Oplog::open"],
            search: search_crash_ro, rerun: rerun_crash_ro },
        Contract { name: "e2e.torn_writes", covers: &["Oplog::validate_leader", "Oplog::open", "DynamicBitfield::open", "FixedBitfield::from_data", "MerkleTree::open", "Hypercore::new", "fn node_from_bytes"], search: search_torn, rerun: rerun_torn },
        Contract { name: "e2e.fault_injection", covers: &["Storage::flush_infos", "Storage::read_infos_to_vec", "Hypercore::append_batch", "Hypercore::clear", "Hypercore::get", "Hypercore::flush_bitfield_and_tree_and_oplog", "Hypercore::new", "Hypercore::byte_range"],
            search: search_fault, rerun: rerun_fault },
    ]
}
