//! executable contracts for proof creation / verification (C09 no panic, C03 honest proofs accepted, C04 altered proofs refused).
//! Module `crate::verif_exec_proofs` (public API only).
#![allow(dead_code, missing_docs, unused_imports, clippy::all)]
use crate::verif_exec::{block_on, create_core, fixed_key, guarded, storage_on, Contract, Rng, SharedDisk};
use crate::{DataBlock, DataHash, DataSeek, DataUpgrade, Hypercore, HypercoreBuilder, Node, PartialKeypair, Proof, RequestBlock, RequestSeek, RequestUpgrade};

fn writer(n: usize) -> Result<Hypercore, String> {
    let disk = SharedDisk::new();
    let mut core = create_core(&disk).map_err(|e| e.to_string())?;
    for i in 0..n { let b: Vec<u8> = (0..(i % 7)).map(|k| (i + k) as u8).collect(); block_on(core.append(&b)).map_err(|e| e.to_string())?; }
    Ok(core)
}
fn replica() -> Result<Hypercore, String> {
    let disk = SharedDisk::new();
    let st = storage_on(&disk).map_err(|e| e.to_string())?;
    let kp = fixed_key();
    block_on(HypercoreBuilder::new(st).key_pair(PartialKeypair { public: kp.public, secret: None }).build()).map_err(|e| e.to_string())
}

/// run f with a watchdog; Err(msg) on panic or timeout
fn watch<T: Send + 'static>(f: impl FnOnce() -> T + Send + 'static) -> Result<T, String> {
    let (tx, rx) = std::sync::mpsc::channel();
    std::thread::spawn(move || { let r = guarded(f); let _ = tx.send(r); });
    match rx.recv_timeout(std::time::Duration::from_secs(10)) { Ok(r) => r.map_err(|p| format!("panic: {p}")), Err(_) => Err("no result within 10 s (non-termination)".to_string()) }
}

// ---------------- C09: create_proof on arbitrary requests ----------------
fn req_check(n: usize, b: Option<(u64, u64)>, h: Option<(u64, u64)>, s: Option<u64>, u: Option<(u64, u64)>) -> Option<String> {
    let r = watch(move || {
        let mut w = match writer(n) { Ok(w) => w, Err(e) => return Some(format!("setup: {e}")) };
        let _ = block_on(w.create_proof(b.map(|x| RequestBlock { index: x.0, nodes: x.1 }), h.map(|x| RequestBlock { index: x.0, nodes: x.1 }),
            s.map(|x| RequestSeek { bytes: x }), u.map(|x| RequestUpgrade { start: x.0, length: x.1 })));
        // the core must still be usable
        if w.info().length != n as u64 { return Some("length changed by create_proof".to_string()); }
        if n > 0 { if let Err(e) = block_on(w.get(0)) { return Some(format!("core unusable afterwards: {e}")); } }
        None
    });
    match r { Ok(x) => x, Err(m) => Some(m) }
}
fn pick_val(rng: &mut Rng, n: u64) -> u64 {
    let c = [0u64, 1, 2, n.saturating_sub(1), n, n + 1, 2 * n, 2 * n + 1, 3 * n, 1 << 20, (1 << 40) - 1];
    if rng.chance(3, 4) { rng.pick(&c) } else { rng.below(3 * n + 4) }
}
fn search_requests(rng: &mut Rng, budget: usize) -> Option<String> {
    let fixed: Vec<(usize, Option<(u64, u64)>, Option<(u64, u64)>, Option<u64>, Option<(u64, u64)>)> = vec![
        (10, Some((9, 0)), None, None, Some((0, 8))), (10, Some((8, 0)), None, None, Some((0, 8))), (0, None, None, None, Some((0, 0))),
        (10, Some((4, 2)), None, None, None), (10, None, Some((5, 1)), Some(7), None)];
    for f in fixed.iter().cloned() { if let Some(m) = req_check(f.0, f.1, f.2, f.3, f.4) { return Some(format!("{{\"writer_blocks\":{},\"block\":{:?},\"hash\":{:?},\"seek\":{:?},\"upgrade\":{:?},\"why\":\"{}\"}}|{}", f.0, f.1, f.2, f.3, f.4, m, ser_req(&f))); } }
    for _ in 0..budget {
        let n = rng.pick(&[0usize, 1, 2, 3, 5, 8, 10, 17]);
        let nn = n as u64;
        let f = (n, if rng.chance(2, 3) { Some((pick_val(rng, nn), pick_val(rng, 6))) } else { None }, if rng.chance(1, 4) { Some((pick_val(rng, 2 * nn), pick_val(rng, 6))) } else { None },
            if rng.chance(1, 3) { Some(pick_val(rng, 4 * nn)) } else { None }, if rng.chance(1, 2) { Some((pick_val(rng, nn), pick_val(rng, nn))) } else { None });
        if let Some(m) = req_check(f.0, f.1, f.2, f.3, f.4) { return Some(format!("{{\"writer_blocks\":{},\"block\":{:?},\"hash\":{:?},\"seek\":{:?},\"upgrade\":{:?},\"why\":\"{}\"}}|{}", f.0, f.1, f.2, f.3, f.4, m, ser_req(&f))); }
    }
    None
}
fn ser_req(f: &(usize, Option<(u64, u64)>, Option<(u64, u64)>, Option<u64>, Option<(u64, u64)>)) -> String {
    let p = |x: &Option<(u64, u64)>| x.map(|v| format!("{}:{}", v.0, v.1)).unwrap_or("-".into());
    format!("{};{};{};{};{}", f.0, p(&f.1), p(&f.2), f.3.map(|v| v.to_string()).unwrap_or("-".into()), p(&f.4))
}
fn rerun_req(input: &str) -> Option<String> {
    let t = input.rsplit('|').next().unwrap(); let f: Vec<&str> = t.split(';').collect();
    let p = |x: &str| if x == "-" { None } else { let (a, b) = x.split_once(':').unwrap(); Some((a.parse().unwrap(), b.parse().unwrap())) };
    req_check(f[0].parse().unwrap(), p(f[1]), p(f[2]), if f[3] == "-" { None } else { Some(f[3].parse().unwrap()) }, p(f[4]))
}


// ---------------- C09: bounded-exhaustive request tuples on small writers ----------------
type Req = (usize, Option<(u64, u64)>, Option<(u64, u64)>, Option<u64>, Option<(u64, u64)>);
/// all tuples for a writer of n blocks: block xor hash (index 0..=n+1 resp. 0..=2n+1, nodes 0..=2) or neither, seek absent or 0..=bytes+1,
/// upgrade absent or (start 0..=n, length 0..=n+1). One writer per n, shared by all calls (create_proof must leave it usable).
fn exhaustive_for(n: usize, stride: usize, phase: usize) -> Option<String> {
    let cur: std::sync::Arc<std::sync::Mutex<Option<Req>>> = Default::default();
    let cur2 = cur.clone();
    let (tx, rx) = std::sync::mpsc::channel();
    std::thread::spawn(move || {
        let r = guarded(move || -> Option<String> {
            let mut w = match writer(n) { Ok(w) => w, Err(e) => return Some(format!("setup: {e}")) };
            let nn = n as u64;
            let total = w.info().byte_length;
            let mut idx: Vec<(Option<(u64, u64)>, Option<(u64, u64)>)> = vec![(None, None)];
            for i in 0..=nn + 1 { for k in 0..=2 { idx.push((Some((i, k)), None)); } }
            for i in 0..=2 * nn + 1 { for k in 0..=2 { idx.push((None, Some((i, k)))); } }
            let mut seeks: Vec<Option<u64>> = vec![None];
            for b in 0..=total + 1 { seeks.push(Some(b)); }
            let mut ups: Vec<Option<(u64, u64)>> = vec![None];
            for s in 0..=nn { for l in 0..=nn + 1 { ups.push(Some((s, l))); } }
            let mut c = 0usize;
            for (b, h) in idx.iter() { for s in seeks.iter() { for u in ups.iter() {
                c += 1;
                if c % stride != phase { continue; }
                *cur2.lock().unwrap() = Some((n, *b, *h, *s, *u));
                let _ = block_on(w.create_proof(b.map(|x| RequestBlock { index: x.0, nodes: x.1 }), h.map(|x| RequestBlock { index: x.0, nodes: x.1 }),
                    s.map(|x| RequestSeek { bytes: x }), u.map(|x| RequestUpgrade { start: x.0, length: x.1 })));
                if w.info().length != nn { return Some("length changed by create_proof".to_string()); }
            } } }
            if n > 0 { if let Err(e) = block_on(w.get(0)) { return Some(format!("core unusable afterwards: {e}")); } }
            None
        });
        let _ = tx.send(r);
    });
    let why = match rx.recv_timeout(std::time::Duration::from_secs(600)) { Ok(Ok(None)) => return None, Ok(Ok(Some(m))) => m, Ok(Err(p)) => format!("panic: {p}"), Err(_) => "no result within 600 s (non-termination)".to_string() };
    let f = cur.lock().unwrap().clone().unwrap_or((n, None, None, None, None));
    Some(format!("{{\"writer_blocks\":{},\"block\":{:?},\"hash\":{:?},\"seek\":{:?},\"upgrade\":{:?},\"why\":\"{}\"}}|{}", f.0, f.1, f.2, f.3, f.4, why, ser_req(&f)))
}
fn search_exhaustive(rng: &mut Rng, budget: usize) -> Option<String> {
    // budget scales the scope: quick-size budgets sample every 16th tuple of n <= 5, the thorough tier runs every tuple of n <= 7
    let (maxn, stride) = if budget >= 400 { (7usize, 1usize) } else if budget >= 100 { (6, 4) } else { (5, 16) };
    let phase = (rng.below(stride as u64)) as usize;
    for n in 0..=maxn { if let Some(m) = exhaustive_for(n, stride, phase) { return Some(m); } }
    None
}

// ---------------- C09: verify_and_apply_proof on structurally arbitrary proofs ----------------
fn node(i: u64, len: u64) -> Node { Node::new(i, vec![(i % 251) as u8 + 1; 32], len) }
#[derive(Debug, Clone)]
pub struct PSpec { replica_blocks: usize, fork: u64, block: Option<(u64, usize, Vec<u64>)>, hash: Option<(u64, Vec<u64>)>, seek: Option<(u64, Vec<u64>)>,
    upgrade: Option<(u64, u64, Vec<u64>, Vec<u64>, usize)> }
fn mk(p: &PSpec) -> Proof {
    Proof { fork: p.fork,
        block: p.block.as_ref().map(|b| DataBlock { index: b.0, value: vec![7u8; b.1], nodes: b.2.iter().map(|i| node(*i, 1)).collect() }),
        hash: p.hash.as_ref().map(|h| DataHash { index: h.0, nodes: h.1.iter().map(|i| node(*i, 1)).collect() }),
        seek: p.seek.as_ref().map(|s| DataSeek { bytes: s.0, nodes: s.1.iter().map(|i| node(*i, 1)).collect() }),
        upgrade: p.upgrade.as_ref().map(|u| DataUpgrade { start: u.0, length: u.1, nodes: u.2.iter().map(|i| node(*i, 1)).collect(),
            additional_nodes: u.3.iter().map(|i| node(*i, 1)).collect(), signature: vec![0u8; u.4] }) }
}
/// honest replication of the first k blocks so that the replica is in a reachable state
fn replicate(w: &mut Hypercore, r: &mut Hypercore, upto: u64) -> Result<(), String> {
    for i in 0..upto {
        let nodes = block_on(r.missing_nodes(i)).map_err(|e| e.to_string())?;
        let rl = r.info().length; let wl = w.info().length;
        let up = if rl < wl { Some(RequestUpgrade { start: rl, length: wl - rl }) } else { None };
        let proof = block_on(w.create_proof(Some(RequestBlock { index: i, nodes }), None, None, up)).map_err(|e| e.to_string())?.ok_or("no proof")?;
        if !block_on(r.verify_and_apply_proof(&proof)).map_err(|e| e.to_string())? { return Err("honest proof refused".into()); }
    }
    Ok(())
}
fn proof_check(p: &PSpec) -> Option<String> {
    let p = p.clone();
    let r = watch(move || {
        let mut rep = match replica() { Ok(r) => r, Err(e) => return Some(format!("setup: {e}")) };
        if p.replica_blocks > 0 {
            let mut w = match writer(p.replica_blocks) { Ok(w) => w, Err(e) => return Some(format!("setup: {e}")) };
            if let Err(e) = replicate(&mut w, &mut rep, p.replica_blocks as u64) { return Some(format!("honest replication failed: {e}")); }
        }
        let before = (rep.info().length, rep.info().byte_length);
        let res = block_on(rep.verify_and_apply_proof(&mk(&p)));
        // every proof built here carries made-up hashes / signature: it must be refused (Ok(false) or Err) and leave the replica unchanged
        // (a proof that carries neither a block nor an upgrade nor any node claims nothing: accepting it is a no-op)
        let claims = p.block.is_some() || p.upgrade.is_some() || p.hash.as_ref().map(|h| !h.1.is_empty()).unwrap_or(false)
            || p.seek.as_ref().map(|s| !s.1.is_empty()).unwrap_or(false);
        if let Ok(true) = res { if claims { return Some("a proof with made-up hashes and signature was accepted".to_string()); } }
        if (rep.info().length, rep.info().byte_length) != before { return Some("refused proof changed the replica".to_string()); }
        None
    });
    match r { Ok(x) => x, Err(m) => Some(m) }
}
fn sibling_chain(leaf: u64, n: usize) -> Vec<u64> {
    // the node indices verify_tree expects: siblings on the path from `leaf` upwards
    let mut v = Vec::new(); let mut it = flat_tree::Iterator::new(leaf);
    for _ in 0..n { v.push(it.sibling()); it.parent(); }
    v
}
fn search_proofs(rng: &mut Rng, budget: usize) -> Option<String> {
    let mut fixed = vec![
        PSpec { replica_blocks: 0, fork: 0, block: None, hash: None, seek: None, upgrade: Some((0, 0, vec![], vec![], 64)) },
        PSpec { replica_blocks: 0, fork: 0, block: Some((2, 3, vec![])), hash: None, seek: None, upgrade: Some((0, 3, vec![1, 4], vec![], 64)) },
        PSpec { replica_blocks: 3, fork: 0, block: Some((1, 1, sibling_chain(2, 2))), hash: None, seek: None, upgrade: None },
    ];
    // node indices stay below 2^40 (the property's bound on numeric fields): at most 38 levels above a leaf
    for depth in [20usize, 30, 37, 38] { fixed.push(PSpec { replica_blocks: 0, fork: 0, block: Some((0, 1, sibling_chain(0, depth))), hash: None, seek: None, upgrade: None }); }
    for p in fixed.iter() { if let Some(m) = proof_check(p) { return Some(format!("{{\"proof\":\"{:?}\",\"why\":\"{}\"}}|{}", p, m, ser_p(p))); } }
    for _ in 0..budget {
        let rb = rng.pick(&[0usize, 1, 2, 3, 5, 8]);
        let n = rb as u64;
        let list = |rng: &mut Rng| -> Vec<u64> { let k = rng.below(5) as usize; (0..k).map(|_| pick_val(rng, 2 * n + 2)).collect() };
        let p = PSpec { replica_blocks: rb, fork: if rng.chance(9, 10) { 0 } else { 1 },
            block: if rng.chance(1, 2) { let i = pick_val(rng, n); let chain = if rng.chance(1, 2) { sibling_chain(2 * i.min(1 << 30), rng.below(6) as usize) } else { list(rng) }; Some((i, rng.below(4) as usize, chain)) } else { None },
            hash: if rng.chance(1, 4) { Some((pick_val(rng, 2 * n), list(rng))) } else { None },
            seek: if rng.chance(1, 4) { Some((pick_val(rng, 4 * n), list(rng))) } else { None },
            upgrade: if rng.chance(1, 2) { Some((pick_val(rng, n), pick_val(rng, n + 2), list(rng), list(rng), rng.pick(&[0usize, 63, 64, 64, 65]))) } else { None } };
        if let Some(m) = proof_check(&p) { return Some(format!("{{\"proof\":\"{:?}\",\"why\":\"{}\"}}|{}", p, m, ser_p(&p))); }
    }
    None
}
fn ser_l(v: &Vec<u64>) -> String { v.iter().map(|x| x.to_string()).collect::<Vec<_>>().join(",") }
fn ser_p(p: &PSpec) -> String {
    format!("{};{};{};{};{};{}", p.replica_blocks, p.fork,
        p.block.as_ref().map(|b| format!("{}:{}:{}", b.0, b.1, ser_l(&b.2))).unwrap_or("-".into()),
        p.hash.as_ref().map(|b| format!("{}:{}", b.0, ser_l(&b.1))).unwrap_or("-".into()),
        p.seek.as_ref().map(|b| format!("{}:{}", b.0, ser_l(&b.1))).unwrap_or("-".into()),
        p.upgrade.as_ref().map(|u| format!("{}:{}:{}:{}:{}", u.0, u.1, ser_l(&u.2), ser_l(&u.3), u.4)).unwrap_or("-".into()))
}
fn de_l(s: &str) -> Vec<u64> { s.split(',').filter(|x| !x.is_empty()).map(|x| x.parse().unwrap()).collect() }
fn rerun_proof(input: &str) -> Option<String> {
    let t = input.rsplit('|').next().unwrap(); let f: Vec<&str> = t.split(';').collect();
    let p = PSpec { replica_blocks: f[0].parse().unwrap(), fork: f[1].parse().unwrap(),
        block: if f[2] == "-" { None } else { let x: Vec<&str> = f[2].split(':').collect(); Some((x[0].parse().unwrap(), x[1].parse().unwrap(), de_l(x[2]))) },
        hash: if f[3] == "-" { None } else { let x: Vec<&str> = f[3].split(':').collect(); Some((x[0].parse().unwrap(), de_l(x[1]))) },
        seek: if f[4] == "-" { None } else { let x: Vec<&str> = f[4].split(':').collect(); Some((x[0].parse().unwrap(), de_l(x[1]))) },
        upgrade: if f[5] == "-" { None } else { let x: Vec<&str> = f[5].split(':').collect(); Some((x[0].parse().unwrap(), x[1].parse().unwrap(), de_l(x[2]), de_l(x[3]), x[4].parse().unwrap())) } };
    proof_check(&p)
}

// ---------------- C03: honest replication converges ----------------
fn honest_check(n: usize, order: &[u64]) -> Option<String> {
    let order = order.to_vec();
    let r = watch(move || {
        let mut w = match writer(n) { Ok(w) => w, Err(e) => return Some(format!("setup: {e}")) };
        let rdisk = SharedDisk::new();
        let mut rep = match storage_on(&rdisk).map_err(|e| e.to_string()).and_then(|st| block_on(HypercoreBuilder::new(st).key_pair(PartialKeypair { public: fixed_key().public, secret: None }).build()).map_err(|e| e.to_string())) { Ok(r) => r, Err(e) => return Some(format!("setup: {e}")) };
        for (step, i) in order.iter().cloned().enumerate() {
            // C03 "across replica close/reopen": half way through, the replica is dropped and reopened from its storage
            if step > 0 && step == order.len() / 2 {
                drop(rep);
                rep = match storage_on(&rdisk).map_err(|e| e.to_string()).and_then(|st| block_on(HypercoreBuilder::new(st).open(true).build()).map_err(|e| e.to_string())) { Ok(r) => r, Err(e) => return Some(format!("reopening the replica after {step} requests: {e}")) };
                for k in order[..step].iter().cloned() { let got = block_on(rep.get(k)).ok().flatten(); let want = block_on(w.get(k)).ok().flatten(); if got != want { return Some(format!("after reopening the replica: block {k} differs from the writer's (or cannot be read)")); } }
            }
            let nodes = match block_on(rep.missing_nodes(i)) { Ok(x) => x, Err(e) => return Some(format!("missing_nodes({i}): {e}")) };
            let rl = rep.info().length; let wl = w.info().length;
            let up = if rl < wl { Some(RequestUpgrade { start: rl, length: wl - rl }) } else { None };
            // every other request also seeks to a byte: the writer may refuse the combination (then the request is repeated
            // without the seek), but a proof it does create must be accepted
            let wb = w.info().byte_length;
            let seek = if (i + n as u64) % 2 == 0 && wb > 0 { Some(RequestSeek { bytes: (i * 5 + 3) % wb }) } else { None };
            let mut proof = None;
            if seek.is_some() { if let Ok(Some(p)) = block_on(w.create_proof(Some(RequestBlock { index: i, nodes }), None, seek.clone(), up.clone())) { proof = Some((p, true)); } }
            let (proof, with_seek) = match proof { Some(x) => x, None => match block_on(w.create_proof(Some(RequestBlock { index: i, nodes }), None, None, up)) { Ok(Some(p)) => (p, false), Ok(None) => return Some(format!("no proof for held block {i}")), Err(e) => return Some(format!("create_proof({i}): {e}")) } };
            let what = if with_seek { format!("block {i} + seek {}", seek.as_ref().unwrap().bytes) } else { format!("block {i}") };
            match block_on(rep.verify_and_apply_proof(&proof)) { Ok(true) => {}, Ok(false) => return Some(format!("honest proof for {what} refused")), Err(e) => return Some(format!("honest proof for {what} rejected: {e}")) }
            let got = block_on(rep.get(i)).ok().flatten(); let want = block_on(w.get(i)).ok().flatten();
            if got != want { return Some(format!("replica block {i} differs from the writer's")); }
        }
        if !order.is_empty() && (rep.info().length, rep.info().byte_length) != (w.info().length, w.info().byte_length) { return Some(format!("replica reports {:?}, writer {:?}", rep.info(), w.info())); }
        None
    });
    match r { Ok(x) => x, Err(m) => Some(m) }
}
fn search_honest(rng: &mut Rng, budget: usize) -> Option<String> {
    for it in 0..budget.min(40) {
        let n = if it < 12 { it + 1 } else { 1 + rng.below(24) as usize };
        let mut order: Vec<u64> = (0..n as u64).collect();
        for k in (1..order.len()).rev() { let j = rng.below(k as u64 + 1) as usize; order.swap(k, j); }
        if rng.chance(1, 3) { order.truncate(1 + rng.below(n as u64) as usize); }
        if let Some(m) = honest_check(n, &order) { return Some(format!("{{\"writer_blocks\":{},\"request_order\":{:?},\"why\":\"{}\"}}|{};{}", n, order, m, n, ser_l(&order))); }
    }
    None
}
fn rerun_honest(input: &str) -> Option<String> { let t = input.rsplit('|').next().unwrap(); let (a, b) = t.split_once(';').unwrap(); honest_check(a.parse().unwrap(), &de_l(b)) }

// ---------------- C08: the contiguous length of a replica, also across a full 32768-block bitfield page ----------------
/// writer of `n` one-byte blocks (one batch); the replica fetches `order`; after every step the reported contiguous length must
/// be the smallest index that is not held, and has() must agree with what was fetched
fn contiguous_check(n: usize, order: &[u64]) -> Option<String> {
    let order = order.to_vec();
    let r = guarded(move || {  // no 10 s watchdog: the full-page cases take longer; the per-contract wall-clock limit applies
        let disk = SharedDisk::new();
        let mut w = match create_core(&disk) { Ok(c) => c, Err(e) => return Some(format!("setup: {e}")) };
        let blocks: Vec<Vec<u8>> = (0..n).map(|i| vec![i as u8]).collect();
        let refs: Vec<&[u8]> = blocks.iter().map(|b| b.as_slice()).collect();
        if let Err(e) = block_on(w.append_batch(&refs)) { return Some(format!("setup append_batch: {e}")); }
        let mut rep = match replica() { Ok(r) => r, Err(e) => return Some(format!("setup: {e}")) };
        let mut held = vec![false; n + 2];
        let mut first_missing = 0usize;
        for (step, i) in order.iter().cloned().enumerate() {
            let nodes = match block_on(rep.missing_nodes(i)) { Ok(x) => x, Err(e) => return Some(format!("missing_nodes({i}): {e}")) };
            let rl = rep.info().length; let wl = w.info().length;
            let up = if rl < wl { Some(RequestUpgrade { start: rl, length: wl - rl }) } else { None };
            let proof = match block_on(w.create_proof(Some(RequestBlock { index: i, nodes }), None, None, up)) { Ok(Some(p)) => p, Ok(None) => return Some(format!("no proof for held block {i}")), Err(e) => return Some(format!("create_proof({i}): {e}")) };
            match block_on(rep.verify_and_apply_proof(&proof)) { Ok(true) => {}, other => return Some(format!("honest proof for block {i} not applied: {:?}", other.map_err(|e| e.to_string()))) }
            held[i as usize] = true;
            while first_missing < n && held[first_missing] { first_missing += 1; }
            let c = rep.info().contiguous_length;
            if c != first_missing as u64 { return Some(format!("after fetching {} blocks (last {i}): contiguous_length {c}, but the smallest index not held is {first_missing}", step + 1)); }
            if !rep.has(i) || rep.has(n as u64) || rep.has(n as u64 + 32768) { return Some(format!("after fetching block {i}: has() is not exact")); }
        }
        None
    });
    match r { Ok(x) => x, Err(m) => Some(format!("panic: {m}")) }
}
fn contiguous_order(n: usize, kind: u64) -> Vec<u64> {
    match kind { 0 => (0..n as u64).rev().collect(),                          // descending: the last fetch closes the whole range
        1 => (0..n as u64).collect(),
        _ => { let mut v: Vec<u64> = (0..n as u64).filter(|i| i % 2 == 1).collect(); v.extend((0..n as u64).filter(|i| i % 2 == 0)); v } }
}
fn search_contiguous(rng: &mut Rng, budget: usize) -> Option<String> {
    let mut cases: Vec<(usize, u64)> = vec![(5, 0), (9, 2), (32768, 0), (32770, 0)];
    for _ in 0..budget.min(20) { cases.push((1 + rng.below(40) as usize, rng.below(3))); }
    for (n, kind) in cases { if let Some(m) = contiguous_check(n, &contiguous_order(n, kind)) { return Some(format!("{{\"writer_blocks\":{},\"order\":\"{}\",\"why\":\"{}\"}}|{};{}", n, ["descending", "ascending", "odd then even"][kind as usize], m, n, kind)); } }
    None
}
fn rerun_contiguous(input: &str) -> Option<String> { let t = input.rsplit('|').next().unwrap(); let (a, b) = t.split_once(';').unwrap(); let n: usize = a.parse().unwrap(); contiguous_check(n, &contiguous_order(n, b.parse().unwrap())) }

// ---------------- C04: single-field alterations of honest proofs ----------------
/// observations of a replica (info, has/get of every block below `upto`)
fn observe(c: &mut Hypercore, upto: u64) -> String {
    let i = c.info();
    let mut s = format!("{}/{}/{}/{};", i.length, i.byte_length, i.contiguous_length, i.fork);
    for k in 0..upto + 2 { s.push_str(&format!("{}:{:?};", c.has(k), block_on(c.get(k)).ok().flatten())); }
    s
}
/// alteration `a` of an honest proof (None when it does not apply to this proof)
fn alter(p: &Proof, a: usize) -> Option<(Proof, &'static str, bool)> {
    // (altered proof, description, must_be_refused)
    let mut q = p.clone();
    match a {
        0 => { let b = q.block.as_mut()?; if b.value.is_empty() { b.value.push(1); } else { b.value[0] ^= 1; } Some((q, "bit flip / extra byte in the block value", true)) }
        1 => { let b = q.block.as_mut()?; let n = b.nodes.get_mut(0)?; let mut h = n.hash.clone(); h[5] ^= 0x10; *n = Node::new(n.index, h, n.length); Some((q, "bit flip in a sibling hash of the block section", true)) }
        2 => { let u = q.upgrade.as_mut()?; let n = u.nodes.get_mut(0)?; let mut h = n.hash.clone(); h[0] ^= 1; *n = Node::new(n.index, h, n.length); Some((q, "bit flip in an upgrade node hash", true)) }
        3 => { let u = q.upgrade.as_mut()?; if u.signature.is_empty() { return None; } u.signature[7] ^= 4; Some((q, "bit flip in the signature", true)) }
        4 => { let u = q.upgrade.as_mut()?; u.length += 1; Some((q, "upgrade length + 1", true)) }
        5 => { let u = q.upgrade.as_mut()?; if u.length < 2 { return None; } u.length -= 1; Some((q, "upgrade length - 1", true)) }
        6 => { q.fork += 1; Some((q, "fork + 1", true)) }
        7 => { let b = q.block.as_mut()?; b.index += 1; Some((q, "block index + 1", true)) }
        8 => { let u = q.upgrade.as_mut()?; let n = u.nodes.get_mut(0)?; *n = Node::new(n.index, n.hash.clone(), n.length + 1); Some((q, "upgrade node size + 1", true)) }
        9 => { let b = q.block.as_mut()?; let n = b.nodes.get_mut(0)?; *n = Node::new(n.index, n.hash.clone(), n.length + 1); Some((q, "block sibling size + 1", true)) }
        10 => { let u = q.upgrade.as_mut()?; if u.nodes.is_empty() { return None; } u.nodes.remove(0); Some((q, "upgrade node dropped", true)) }
        11 => { let b = q.block.as_mut()?; if b.nodes.is_empty() { return None; } b.nodes.remove(0); Some((q, "block sibling dropped", true)) }
        12 => { let u = q.upgrade.as_mut()?; if u.nodes.len() < 2 { return None; } u.nodes.swap(0, 1); Some((q, "upgrade nodes swapped", true)) }
        13 => { let u = q.upgrade.as_mut()?; u.start += 1; Some((q, "upgrade start + 1", false)) }
        14 => { let u = q.upgrade.as_mut()?; let n = u.nodes.first()?.clone(); u.nodes.insert(0, n); Some((q, "upgrade node duplicated", false)) }
        15 => { q.upgrade.as_ref()?; q.upgrade = None; Some((q, "upgrade section removed", false)) }
        16 => { let u = q.upgrade.as_mut()?; let other = crate::generate_signing_key(); let _ = other; u.signature = vec![9u8; 64]; Some((q, "signature replaced", true)) }
        // node inserts (C04 lists them): an invented leaf right after the signed length would become a new root unless the
        // signature covers the additional nodes too
        17 => { let u = q.upgrade.as_mut()?; let idx = 2 * (u.start + u.length); u.additional_nodes.push(Node::new(idx, vec![0x5a; 32], 1000)); Some((q, "node inserted at the end of additional_nodes", true)) }
        18 => { let u = q.upgrade.as_mut()?; let idx = 2 * (u.start + u.length); u.additional_nodes.insert(0, Node::new(idx, vec![0x5b; 32], 7)); Some((q, "node inserted at the front of additional_nodes", true)) }
        19 => { let b = q.block.as_mut()?; let idx = b.nodes.last().map(|n| n.index + 2).unwrap_or(1); b.nodes.push(Node::new(idx, vec![0x5c; 32], 3)); Some((q, "node appended to the block section", false)) }
        _ => None,
    }
}
fn altered_check(n: usize, have: u64, target: u64, a: usize) -> Option<String> {
    let r = watch(move || {
        let mut w = match writer(n) { Ok(w) => w, Err(e) => return Some(format!("setup: {e}")) };
        let mut rep = match replica() { Ok(r) => r, Err(e) => return Some(format!("setup: {e}")) };
        if let Err(e) = replicate(&mut w, &mut rep, have) { return Some(format!("setup replication: {e}")); }
        let nodes = match block_on(rep.missing_nodes(target)) { Ok(x) => x, Err(e) => return Some(format!("missing_nodes: {e}")) };
        let rl = rep.info().length; let wl = w.info().length;
        let up = if rl < wl { Some(RequestUpgrade { start: rl, length: wl - rl }) } else { None };
        let honest = match block_on(w.create_proof(Some(RequestBlock { index: target, nodes }), None, None, up)) { Ok(Some(p)) => p, _ => return None };
        let (bad, what, must_refuse) = match alter(&honest, a) { Some(x) => x, None => return None };
        let before = observe(&mut rep, n as u64);
        let res = block_on(rep.verify_and_apply_proof(&bad));
        let accepted = matches!(res, Ok(true));
        if must_refuse && accepted { return Some(format!("altered proof accepted: {what}")); }
        if !accepted {
            let after = observe(&mut rep, n as u64);
            if before != after { return Some(format!("refused proof ({what}) changed the replica: {before} -> {after}")); }
        }
        // whatever happened: every held block equals the writer's, and honest replication still completes
        for k in 0..n as u64 { if rep.has(k) { let g = block_on(rep.get(k)).ok().flatten(); let t = block_on(w.get(k)).ok().flatten(); if g != t { return Some(format!("after {what}: held block {k} differs from the writer's")); } } }
        if rep.info().length > w.info().length { return Some(format!("after {what}: replica length {} exceeds the writer's {}", rep.info().length, w.info().length)); }
        for k in 0..n as u64 {
            if rep.has(k) { continue; }
            let nodes = match block_on(rep.missing_nodes(k)) { Ok(x) => x, Err(e) => return Some(format!("after {what}: missing_nodes({k}): {e}")) };
            let rl = rep.info().length; let wl = w.info().length;
            let up = if rl < wl { Some(RequestUpgrade { start: rl, length: wl - rl }) } else { None };
            let p = match block_on(w.create_proof(Some(RequestBlock { index: k, nodes }), None, None, up)) { Ok(Some(p)) => p, Ok(None) => continue, Err(e) => return Some(format!("after {what}: honest create_proof({k}): {e}")) };
            match block_on(rep.verify_and_apply_proof(&p)) { Ok(true) => {}, other => return Some(format!("after {what}: honest proof for block {k} no longer accepted: {:?}", other.map_err(|e| e.to_string()))) }
        }
        None
    });
    match r { Ok(x) => x, Err(m) => Some(m) }
}
fn search_altered(rng: &mut Rng, budget: usize) -> Option<String> {
    let mut cases: Vec<(usize, u64, u64)> = vec![(1, 0, 0), (2, 0, 1), (3, 1, 2), (5, 2, 4), (8, 3, 6), (8, 8, 3), (10, 4, 9), (13, 5, 12)];
    for _ in 0..budget.min(30) { let n = 1 + rng.below(20) as usize; let have = rng.below(n as u64 + 1); let t = rng.below(n as u64); cases.push((n, have.min(n as u64), t)); }
    for (n, have, t) in cases { for a in 0..20 { if let Some(m) = altered_check(n, have, t, a) { return Some(format!("{{\"writer_blocks\":{},\"replica_has_first\":{},\"block\":{},\"alteration\":{},\"why\":\"{}\"}}|{};{};{};{}", n, have, t, a, m, n, have, t, a)); } } }
    None
}
fn rerun_altered(input: &str) -> Option<String> { let f: Vec<u64> = input.rsplit('|').next().unwrap().split(';').map(|x| x.parse().unwrap()).collect(); altered_check(f[0] as usize, f[1], f[2], f[3] as usize) }

pub fn contracts() -> Vec<Contract> {
    vec![
        Contract { name: "proofs.requests_no_panic", covers: &["MerkleTree::create_valueless_proof", "Hypercore::create_proof", "Hypercore::create_valueless_proof", "fn nodes_to_root", "MerkleTree::upgrade_proof",
            "MerkleTree::block_and_seek_proof", "MerkleTree::seek_proof", "MerkleTree::additional_upgrade_proof", "MerkleTree::seek_from_head", "MerkleTree::seek_untrusted_tree", "MerkleTree::seek_trusted_tree", "fn normalize_indexed"],
            search: search_requests, rerun: rerun_req },
        Contract { name: "proofs.requests_exhaustive_small", covers: &["MerkleTree::create_valueless_proof", "Hypercore::create_proof", "Hypercore::create_valueless_proof", "fn nodes_to_root", "MerkleTree::upgrade_proof",
            "MerkleTree::block_and_seek_proof", "MerkleTree::seek_proof", "MerkleTree::additional_upgrade_proof", "MerkleTree::seek_from_head", "MerkleTree::seek_untrusted_tree", "MerkleTree::seek_trusted_tree", "fn normalize_indexed"],
            search: search_exhaustive, rerun: rerun_req },
        Contract { name: "proofs.arbitrary_proofs_refused", covers: &["MerkleTree::verify_proof", "fn verify_tree", "fn verify_upgrade", "NodeQueue::shift", "NodeQueue::new", "Hypercore::verify_and_apply_proof", "Hypercore::verify_proof",
            "MerkleTreeChangeset::append_root", "MerkleTreeChangeset::verify_and_set_signature", "MerkleTree::byte_offset_in_changeset", "fn normalize_data"],
            search: search_proofs, rerun: rerun_proof },
        Contract { name: "proofs.honest_replication", covers: &["MerkleTree::missing_nodes", "MerkleTree::create_valueless_proof", "MerkleTree::verify_proof", "fn verify_tree", "fn verify_upgrade", "MerkleTree::byte_offset_in_changeset",
            "MerkleTree::commit", "MerkleTreeChangeset::append_root", "MerkleTreeChangeset::append", "MerkleTreeChangeset::hash_and_sign",
            "Oplog::update_header_with_changeset", "Oplog::append_changeset", "MerkleTree::seek_proof", "MerkleTree::block_and_seek_proof", "Hypercore::verify_and_apply_proof"],
            search: search_honest, rerun: rerun_honest },
        Contract { name: "e2e.replica_contiguous", covers: &["fn update_contiguous_length", "DynamicBitfield::index_of", "DynamicBitfield::set", "DynamicBitfield::get", "Hypercore::verify_and_apply_proof"],
            search: search_contiguous, rerun: rerun_contiguous },
        Contract { name: "proofs.altered_proofs_refused", covers: &["MerkleTree::verify_proof", "fn verify_tree", "fn verify_upgrade", "NodeQueue::shift", "Hypercore::verify_and_apply_proof", "Hypercore::verify_proof",
            "MerkleTreeChangeset::verify_and_set_signature", "MerkleTreeChangeset::signable", "fn signable_tree", "Hash::parent", "Hash::data", "Hash::tree", "fn block_node", "fn parent_node", "MerkleTree::commit"],
            search: search_altered, rerun: rerun_altered },
    ]
}
