//! executable contract of Oplog::open / validate_leader on synthetic JS-layout oplogs (child module of `crate::oplog`)
#![allow(dead_code, missing_docs, unused_imports, clippy::all)]
use super::*;
use crate::common::{BitfieldUpdate, Store, StoreInfo};
use crate::verif_exec::{fixed_key, guarded, Contract, Rng};
use futures::future::Either;

// ---- independent reference encoder of the JS layout (written from the format description, not from the crate) ----
fn varint(v: u64, out: &mut Vec<u8>) {
    if v < 0xfd { out.push(v as u8) } else if v <= 0xffff { out.push(0xfd); out.extend_from_slice(&(v as u16).to_le_bytes()) }
    else if v <= 0xffff_ffff { out.push(0xfe); out.extend_from_slice(&(v as u32).to_le_bytes()) } else { out.push(0xff); out.extend_from_slice(&v.to_le_bytes()) }
}
fn crc32(data: &[u8]) -> u32 {
    let mut crc = 0xffff_ffffu32;
    for b in data { crc ^= *b as u32; for _ in 0..8 { crc = if crc & 1 != 0 { (crc >> 1) ^ 0xedb8_8320 } else { crc >> 1 }; } }
    !crc
}
fn frame(payload: &[u8], partial: bool, hbit: bool) -> Vec<u8> {
    let word: u32 = ((payload.len() as u32) << 2) | if partial { 2 } else { 0 } | if hbit { 1 } else { 0 };
    let mut body = word.to_le_bytes().to_vec(); body.extend_from_slice(payload);
    let mut out = crc32(&body).to_le_bytes().to_vec(); out.extend_from_slice(&body); out
}
/// entry that sets or drops a bitfield range (flags = 8)
fn ref_entry(drop: bool, start: u64, len: u64) -> Vec<u8> { let mut o = vec![8u8, drop as u8]; varint(start, &mut o); varint(len, &mut o); o }
fn ref_header(contig: u64) -> Vec<u8> {
    let kp = fixed_key();
    let pk = kp.public.to_bytes();
    let mut o = vec![1u8, 6u8]; o.extend_from_slice(&pk);
    o.extend_from_slice(&[0, 0, 1, 0]);
    o.extend_from_slice(&[0x41, 0x44, 0xEE, 0xA5, 0x31, 0xE4, 0x83, 0xD5, 0x4E, 0x0C, 0x14, 0xF4, 0xCA, 0x68, 0xE0, 0x64, 0x4F, 0x35, 0x53, 0x43, 0xFF, 0x6F, 0xCB, 0x0F, 0x00, 0x52, 0x00, 0xE1, 0x2C, 0xD7, 0x47, 0xCB]);
    o.extend_from_slice(&pk);
    o.push(32); o.extend_from_slice(&pk); o.push(0);     // key pair without secret
    o.push(0);                                            // user data
    o.extend_from_slice(&[0, 0, 0, 0]);                   // tree: fork 0, length 0, no root hash, no signature
    o.push(0); varint(contig, &mut o);                    // hints
    o
}

#[derive(Debug, Clone)]
pub struct Img { slot1: Option<(bool, u64)>, slot2: Option<(bool, u64)>, corrupt1: bool, corrupt2: bool,
    entries: Vec<(bool, bool, u64)> /* (partial, same header bit as current, start) */, torn_tail: usize }

fn cur_bits(i: &Img) -> Option<[bool; 2]> {
    let v1 = if i.corrupt1 { None } else { i.slot1 }; let v2 = if i.corrupt2 { None } else { i.slot2 };
    match (v1, v2) { (Some(a), Some(b)) => Some([a.0, b.0]), (Some(a), None) => Some([a.0, a.0]), (None, Some(b)) => Some([!b.0, b.0]), (None, None) => None }
}
fn build(i: &Img) -> Vec<u8> {
    let mut f = vec![0u8; 8192];
    for (k, s, c) in [(0usize, &i.slot1, i.corrupt1), (4096usize, &i.slot2, i.corrupt2)] {
        if let Some((bit, contig)) = s {
            let fr = frame(&ref_header(*contig), false, *bit);
            f[k..k + fr.len()].copy_from_slice(&fr);
            if c { f[k + 1] ^= 0x40; }     // what a torn rewrite of this slot leaves: checksum does not match
        }
    }
    let hb = cur_bits(i).map(|b| b[0] != b[1]).unwrap_or(false);
    for (partial, same, start) in &i.entries { f.extend_from_slice(&frame(&ref_entry(false, *start, 1), *partial, if *same { hb } else { !hb })); }
    if i.torn_tail > 0 { let fr = frame(&ref_entry(true, 7, 1), false, hb); f.extend_from_slice(&fr[..i.torn_tail.min(fr.len() - 1)]); }
    f
}
fn enc(i: &Img) -> String {
    format!("{:?}/{:?}/{}/{}/{}/{}", i.slot1.map(|s| (s.0 as u8, s.1)), i.slot2.map(|s| (s.0 as u8, s.1)), i.corrupt1 as u8, i.corrupt2 as u8,
        i.entries.iter().map(|e| format!("{}{}{}", e.0 as u8, e.1 as u8, e.2)).collect::<Vec<_>>().join(","), i.torn_tail)
}

/// expected outcome per the JS open rules
fn check(i: &Img) -> Option<String> {
    let file = build(i);
    let bits = cur_bits(i);
    let (tx, rx) = std::sync::mpsc::channel();
    let f2 = file.clone();
    std::thread::spawn(move || {
        let r = guarded(|| Oplog::open(&None, Some(StoreInfo::new_content(Store::Oplog, 0, &f2))));
        let _ = tx.send(r.map(|x| x.map(|e| match e {
            Either::Right(o) => Some((o.oplog.header_bits, o.oplog.entries_length, o.oplog.entries_byte_length,
                o.header.hints.contiguous_length, o.entries.map(|es| es.iter().map(|e| e.bitfield.as_ref().map(|b| b.start)).collect::<Vec<_>>()))),
            Either::Left(_) => None }).map_err(|e| format!("{e}"))));
    });
    let got = match rx.recv_timeout(std::time::Duration::from_secs(10)) {
        Err(_) => return Some("Oplog::open did not return within 10 s (non-termination)".to_string()),
        Ok(Err(p)) => return Some(format!("panic: {p}")),
        Ok(Ok(x)) => x,
    };
    let Some(bits) = bits else {
        return match got { Err(_) => None, Ok(_) => Some("open succeeded although no header slot is valid and no key pair was given".to_string()) };
    };
    let got = match got { Err(e) => return Some(format!("open failed although a header slot is valid: {e}")), Ok(None) => return Some("instruction".into()), Ok(Some(g)) => g };
    if got.0 != bits { return Some(format!("header bits {:?}, JS rules give {:?}", got.0, bits)); }
    let live = { let v1 = !i.corrupt1 && i.slot1.is_some(); let v2 = !i.corrupt2 && i.slot2.is_some();
        if v1 && v2 { if bits[0] == bits[1] { i.slot1 } else { i.slot2 } } else if v1 { i.slot1 } else { i.slot2 } }.unwrap();
    if got.3 != live.1 { return Some(format!("header taken from the wrong slot: contiguous_length {} expected {}", got.3, live.1)); }
    // accepted entries: leading run carrying the current bit, minus trailing partial ones
    let mut acc: Vec<&(bool, bool, u64)> = i.entries.iter().take_while(|e| e.1).collect();
    while acc.last().map(|e| e.0).unwrap_or(false) { acc.pop(); }
    let want: Vec<Option<u64>> = acc.iter().map(|e| Some(e.2)).collect();
    let got_entries = got.4.clone().unwrap_or_default();
    if got_entries != want { return Some(format!("entries (bitfield starts) {:?}, JS rules give {:?}", got_entries, want)); }
    let want_bytes: u64 = acc.iter().map(|e| frame(&ref_entry(false, e.2, 1), false, false).len() as u64).sum();
    if got.1 != acc.len() as u64 || got.2 != want_bytes {
        return Some(format!("entries_length/entries_byte_length = {}/{} but {} entries occupying {} bytes were accepted (the next entry would overwrite them)", got.1, got.2, acc.len(), want_bytes));
    }
    None
}
fn gen(rng: &mut Rng) -> Img {
    let s1 = if rng.chance(5, 6) { Some((rng.chance(1, 2), rng.below(5))) } else { None };
    let s2 = if rng.chance(3, 4) { Some((rng.chance(1, 2), 10 + rng.below(5))) } else { None };
    let n = rng.below(5) as usize;
    Img { slot1: s1, slot2: s2, corrupt1: s1.is_some() && rng.chance(1, 5), corrupt2: s2.is_some() && rng.chance(1, 5),
        entries: (0..n).map(|k| (rng.chance(1, 3), rng.chance(5, 6), k as u64)).collect(), torn_tail: if rng.chance(1, 3) { 1 + rng.below(14) as usize } else { 0 } }
}
fn search(rng: &mut Rng, budget: usize) -> Option<String> {
    let fixed = vec![
        Img { slot1: Some((true, 1)), slot2: Some((true, 11)), corrupt1: false, corrupt2: true, entries: vec![], torn_tail: 0 },          // torn non-live slot
        Img { slot1: Some((false, 1)), slot2: None, corrupt1: false, corrupt2: false, entries: vec![(false, true, 0), (true, true, 1)], torn_tail: 0 },   // trailing partial
        Img { slot1: Some((false, 1)), slot2: None, corrupt1: false, corrupt2: false, entries: vec![(false, true, 0), (false, true, 1)], torn_tail: 0 },  // two entries: byte length
        Img { slot1: Some((false, 1)), slot2: Some((true, 12)), corrupt1: false, corrupt2: false, entries: vec![(false, false, 0)], torn_tail: 0 },      // stale entry
        Img { slot1: Some((false, 1)), slot2: None, corrupt1: false, corrupt2: false, entries: vec![(false, true, 0)], torn_tail: 9 },                  // torn entry
    ];
    for i in fixed.iter() { if let Some(m) = check(i) { return Some(format!("{{\"oplog_image\":\"{}\",\"why\":\"{}\"}}|{}", enc(i), m, ser(i))); } }
    for _ in 0..budget { let i = gen(rng); if let Some(m) = check(&i) { return Some(format!("{{\"oplog_image\":\"{}\",\"why\":\"{}\"}}|{}", enc(&i), m, ser(&i))); } }
    None
}
fn ser(i: &Img) -> String {
    let s = |x: &Option<(bool, u64)>| x.map(|v| format!("{}:{}", v.0 as u8, v.1)).unwrap_or("-".into());
    format!("{};{};{};{};{};{}", s(&i.slot1), s(&i.slot2), i.corrupt1 as u8, i.corrupt2 as u8,
        i.entries.iter().map(|e| format!("{}:{}:{}", e.0 as u8, e.1 as u8, e.2)).collect::<Vec<_>>().join(","), i.torn_tail)
}
fn de(t: &str) -> Img {
    let f: Vec<&str> = t.split(';').collect();
    let s = |x: &str| if x == "-" { None } else { let (a, b) = x.split_once(':').unwrap(); Some((a == "1", b.parse().unwrap())) };
    Img { slot1: s(f[0]), slot2: s(f[1]), corrupt1: f[2] == "1", corrupt2: f[3] == "1",
        entries: f[4].split(',').filter(|x| !x.is_empty()).map(|e| { let p: Vec<&str> = e.split(':').collect(); (p[0] == "1", p[1] == "1", p[2].parse().unwrap()) }).collect(),
        torn_tail: f[5].parse().unwrap() }
}
fn rerun(input: &str) -> Option<String> { let parts: Vec<&str> = input.split('|').collect(); check(&de(parts[parts.len() - 1])) }

pub fn contracts() -> Vec<Contract> {
    vec![Contract { name: "oplog.open_js_layout", covers: &["Oplog::open", "Oplog::validate_leader", "Entry::decode", "Header::decode", "BitfieldUpdate::decode"], search, rerun }]
}
