//! end-to-end executable contract: public API against the append-only list model (C01/C08),
//! on a shared in-memory backend with drop-and-reopen steps.  Module `crate::verif_exec_e2e`.
#![allow(dead_code, missing_docs, unused_imports, clippy::all)]
use crate::verif_exec::{block_on, create_core, guarded, open_core, Contract, Rng, SharedDisk};

#[derive(Debug, Clone)]
pub enum Step { Append(Vec<usize>), Clear(u64, u64), Reopen, ReadOnly }

fn block_bytes(index: usize, size: usize) -> Vec<u8> { (0..size).map(|k| (index * 31 + k * 7 + 1) as u8).collect() }

pub fn enc(steps: &[Step]) -> String {
    steps.iter().map(|s| match s {
        Step::Append(sizes) => {
            if sizes.len() > 8 && sizes.iter().all(|x| *x == sizes[0]) { format!("a{}x{}", sizes.len(), sizes[0]) }
            else { format!("a{}", sizes.iter().map(|x| x.to_string()).collect::<Vec<_>>().join(",")) }
        }
        Step::Clear(a, b) => format!("c{},{}", a, b),
        Step::Reopen => "r".to_string(),
        Step::ReadOnly => "m".to_string(),
    }).collect::<Vec<_>>().join(";")
}
pub fn dec(s: &str) -> Vec<Step> {
    s.split(';').filter(|t| !t.is_empty()).map(|t| {
        let (k, rest) = t.split_at(1);
        match k {
            "a" => {
                if let Some((n, sz)) = rest.split_once('x') { Step::Append(vec![sz.parse().unwrap(); n.parse().unwrap()]) }
                else { Step::Append(rest.split(',').filter(|x| !x.is_empty()).map(|x| x.parse().unwrap()).collect()) }
            }
            "c" => { let f: Vec<&str> = rest.split(',').collect(); Step::Clear(f[0].parse().unwrap(), f[1].parse().unwrap()) }
            "m" => Step::ReadOnly,
            _ => Step::Reopen,
        }
    }).collect()
}

/// run the steps on the real crate, compare every observation with the model
pub fn check(steps: &[Step], probe_all: bool) -> Option<String> {
    let r = guarded(|| -> Option<String> {
        let disk = SharedDisk::new();
        let mut core = match create_core(&disk) { Ok(c) => c, Err(e) => return Some(format!("create failed: {e}")) };
        let mut model: Vec<Option<Vec<u8>>> = Vec::new();
        let mut total: u64 = 0;
        let mut read_only = false;
        for (n, st) in steps.iter().enumerate() {
            match st {
                Step::Append(sizes) => {
                    let blocks: Vec<Vec<u8>> = sizes.iter().enumerate().map(|(k, s)| block_bytes(model.len() + k, *s)).collect();
                    let refs: Vec<&[u8]> = blocks.iter().map(|b| b.as_slice()).collect();
                    match block_on(core.append_batch(&refs)) {
                        Err(crate::HypercoreError::NotWritable) if read_only => {}   // after make_read_only appends are refused and change nothing
                        Err(e) => return Some(format!("step {n}: append failed: {e}")),
                        Ok(_) if read_only => return Some(format!("step {n}: append accepted by a core made read-only")),
                        Ok(out) => {
                            for b in blocks { total += b.len() as u64; model.push(Some(b)); }
                            if out.length != model.len() as u64 || out.byte_length != total {
                                return Some(format!("step {n}: append outcome {:?}, model length {} byte_length {}", out, model.len(), total));
                            }
                        }
                    }
                }
                Step::Clear(a, b) => {
                    if let Err(e) = block_on(core.clear(*a, *b)) { return Some(format!("step {n}: clear({a},{b}) failed: {e}")); }
                    for i in *a..(*b).min(model.len() as u64) { model[i as usize] = None; }
                }
                Step::Reopen => {
                    drop(core);
                    core = match open_core(&disk) { Ok(c) => c, Err(e) => return Some(format!("step {n}: reopen failed: {e}")) };
                }
                Step::ReadOnly => {
                    match block_on(core.make_read_only()) { Ok(changed) => { if changed == read_only { return Some(format!("step {n}: make_read_only returned {changed}")); } read_only = true; }
                        Err(e) => return Some(format!("step {n}: make_read_only failed: {e}")) }
                }
            }
            // observations
            let info = core.info();
            let contig = model.iter().position(|b| b.is_none()).unwrap_or(model.len()) as u64;
            if info.length != model.len() as u64 || info.byte_length != total {
                return Some(format!("step {n}: info {:?}, model length {} byte_length {}", info, model.len(), total));
            }
            if info.contiguous_length != contig {
                return Some(format!("step {n}: contiguous_length {} but first missing block is {}", info.contiguous_length, contig));
            }
            let len = model.len() as u64;
            let mut probes: Vec<u64> = if probe_all || len <= 64 { (0..len).collect() } else {
                let mut v: Vec<u64> = (0..len).step_by((len / 48).max(1) as usize).collect(); v.push(len - 1); v };
            for e in [len, len + 1, 2 * len, 32768, 32768 + 8500, 65536 + 3] { probes.push(e); }
            for i in probes {
                let want = (i as usize) < model.len() && model[i as usize].is_some();
                if core.has(i) != want { return Some(format!("step {n}: has({i}) = {} but model says {}", core.has(i), want)); }
                if (i as usize) < model.len() || i < len + 2 {
                    match block_on(core.get(i)) {
                        Err(e) => return Some(format!("step {n}: get({i}) failed: {e}")),
                        Ok(got) => {
                            let want = if (i as usize) < model.len() { model[i as usize].clone() } else { None };
                            if got != want { return Some(format!("step {n}: get({i}) = {:?} but model says {:?}", got.map(|v| v.len()), want.map(|v| v.len()))); }
                        }
                    }
                }
            }
        }
        None
    });
    match r { Ok(x) => x, Err(p) => Some(format!("panic: {}", p)) }
}

fn gen(rng: &mut Rng, max_steps: usize, big: bool) -> Vec<Step> {
    let n = 1 + rng.below(max_steps as u64) as usize;
    let mut steps = Vec::new();
    let mut len: u64 = 0;
    let mut ro = false;
    for _ in 0..n {
        match rng.below(10) {
            0..=4 => {
                let k = if big && rng.chance(1, 4) { 9000 + rng.below(30000) as usize } else { rng.below(5) as usize };
                let sizes: Vec<usize> = (0..k).map(|_| if big { 1 } else { rng.pick(&[0usize, 1, 2, 3, 17, 300]) }).collect();
                if !ro { len += k as u64; }
                steps.push(Step::Append(sizes));
            }
            5..=6 if len > 0 => {
                let a = rng.below(len);
                let b = a + 1 + rng.below(len - a + 2);
                steps.push(Step::Clear(a, b));
            }
            7 if !big && rng.chance(1, 3) => { ro = true; steps.push(Step::ReadOnly) }
            _ => steps.push(Step::Reopen),
        }
    }
    steps
}

fn search_small(rng: &mut Rng, budget: usize) -> Option<String> {
    // fixed histories first (the ones recorded in DESIGN §5), then random ones
    let fixed = ["a3;a3;c0,1;r", "a1;a1;a1;a1;a1;r;a1;r", "a1,1,1,1,1;c1,2;r", "a2;r;a2;r;a2;r", "a0;a0,0;r;a1", "a1,1,1;c0,3;r;a1;r", "a5;a5;a0;a0;c1,2;c3,4;a1;r", "a5;a5;a0;a5;c3,4;c1,2;c3,4;r;a2", "a3;a0;c0,1;c1,2;c0,2;a0;c2,3", "a1,1,1,1;m;c1,2;r", "a1,2;m;c0,1;a1;r;c1,2;r", "a1,1,1;a1;m;r;c2,3;r"];
    for f in fixed { let st = dec(f); if let Some(m) = check(&st, true) { return Some(format!("{{\"history\":\"{}\",\"why\":\"{}\"}}|{}", f, m, f)); } }
    for _ in 0..budget {
        let st = gen(rng, 9, false);
        if let Some(m) = check(&st, true) { let e = enc(&st); return Some(format!("{{\"history\":\"{}\",\"why\":\"{}\"}}|{}", e, m, e)); }
    }
    None
}
fn search_big(rng: &mut Rng, budget: usize) -> Option<String> {
    let fixed: Vec<String> = vec!["a9000x1;r".to_string(), "a70000x1;c100,40000;r".to_string(), "a40000x1;r;a1;c32760,32775;r".to_string()];
    for f in fixed.iter() { let st = dec(f); if let Some(m) = check(&st, false) { return Some(format!("{{\"history\":\"{}\",\"why\":\"{}\"}}|{}", short(f), m, f)); } }
    for _ in 0..budget.min(6) {
        let st = gen(rng, 5, true);
        if let Some(m) = check(&st, false) { let e = enc(&st); return Some(format!("{{\"history\":\"{}\",\"why\":\"{}\"}}|{}", short(&e), m, e)); }
    }
    None
}
fn short(s: &str) -> String { if s.len() > 120 { format!("{}...({} chars)", &s[..100], s.len()) } else { s.to_string() } }
fn rerun(input: &str) -> Option<String> {
    let parts: Vec<&str> = input.split('|').collect();
    check(&dec(parts[parts.len() - 1]), false)
}

pub fn contracts() -> Vec<Contract> {
    vec![
        Contract { name: "e2e.list_model", covers: &["Oplog::flush", "Hypercore::make_read_only", "MerkleTree::truncate", "MerkleTree::open", "Hypercore::append_batch", "Hypercore::clear", "Hypercore::get", "Hypercore::has", "Hypercore::info",
            "Hypercore::new", "Oplog::open", "Entry::decode", "update_contiguous_length", "Oplog::append_entries", "Oplog::flush"],
            search: search_small, rerun },
        Contract { name: "e2e.list_model_pages", covers: &["DynamicBitfield::open", "FixedBitfield::from_data", "DynamicBitfield::flush"], search: search_big, rerun },
    ]
}
