//! Native replay: executable contracts run against the REAL code.
//!
//! This file is compiled as module `crate::verif_exec` of a scratch copy of /repo/src (the copy
//! is made on every run from /repo's working tree; a line `pub mod verif_exec;` is appended to
//! lib.rs and child modules are appended to the files whose private items are exercised).
//! Nothing here is part of /repo.
#![allow(dead_code, missing_docs, unused_imports, clippy::all, unreachable_pub, missing_debug_implementations)]

use std::future::Future;
use std::pin::Pin;
use std::sync::{Arc, Mutex};

pub use random_access_storage::{RandomAccess, RandomAccessError};

/// xorshift64* -- deterministic, seeded from VERIF_SEED
#[derive(Debug, Clone)]
pub struct Rng(pub u64);
impl Rng {
    pub fn new(seed: u64) -> Self { Rng(seed.wrapping_mul(0x9E3779B97F4A7C15) | 1) }
    pub fn next(&mut self) -> u64 {
        let mut x = self.0;
        x ^= x >> 12; x ^= x << 25; x ^= x >> 27;
        self.0 = x;
        x.wrapping_mul(0x2545F4914F6CDD1D)
    }
    pub fn below(&mut self, n: u64) -> u64 { if n == 0 { 0 } else { self.next() % n } }
    pub fn pick<T: Copy>(&mut self, xs: &[T]) -> T { xs[self.below(xs.len() as u64) as usize] }
    pub fn bytes(&mut self, n: usize) -> Vec<u8> { (0..n).map(|_| self.next() as u8).collect() }
    pub fn chance(&mut self, num: u64, den: u64) -> bool { self.below(den) < num }
}

/// One executable contract: searches for an input on which the real function violates the
/// postcondition; returns a description of the failing input (JSON text) or None.
pub struct Contract {
    pub name: &'static str,
    /// functions (item specs of the overlay) this contract exercises
    pub covers: &'static [&'static str],
    pub search: fn(&mut Rng, usize) -> Option<String>,
    /// re-run one recorded input; Some(msg) = still failing
    pub rerun: fn(&str) -> Option<String>,
}

pub fn registry() -> Vec<Contract> {
    let mut v = Vec::new();
    v.extend(crate::bitfield::verif_exec::contracts());
    v.extend(crate::oplog::verif_exec::contracts());
    v.extend(crate::verif_exec_e2e::contracts());
    v.extend(crate::verif_exec_proofs::contracts());
    v.extend(crate::verif_exec_crash::contracts());
    v.extend(crate::verif_exec_misc::contracts());
    v.extend(crate::verif_exec_merkle::contracts());
    v.extend(crate::verif_exec_deps::contracts());
    v
}

/// entry point used by src/bin/verif_replay.rs
pub fn main_entry(args: Vec<String>) -> i32 {
    let reg = registry();
    match args.get(0).map(|s| s.as_str()) {
        Some("list") => {
            for c in &reg { println!("{}\t{}", c.name, c.covers.join(",")); }
            0
        }
        Some("search") => {
            // search <seed> <budget> <name|fn:item spec|all>...
            let seed: u64 = args[1].parse().unwrap_or(0);
            let budget: usize = args[2].parse().unwrap_or(200);
            let sel: Vec<&String> = args[3..].iter().collect();
            let mut found = 0;
            let mut hung = false;
            for c in &reg {
                let hit = sel.iter().any(|s| s.as_str() == "all" || s.as_str() == c.name
                    || c.covers.iter().any(|f| s.as_str() == format!("fn:{}", f)));
                if !hit { continue; }
                // every contract runs on its own thread under a wall-clock limit: code under test that loops forever
                // (C09, C03 D3-style hangs) must end the search with a FAIL, not block it
                let limit = contract_wall_limit(budget);
                let search = c.search;
                let name = c.name;
                let (tx, rx) = std::sync::mpsc::channel();
                std::thread::Builder::new().stack_size(64 << 20).spawn(move || {
                    let mut rng = Rng::new(seed ^ fxhash(name));
                    let res = std::panic::catch_unwind(std::panic::AssertUnwindSafe(|| (search)(&mut rng, budget)));
                    let _ = tx.send(match res {
                        Ok(None) => None,
                        Ok(Some(s)) => Some(s),
                        Err(_) => Some("{\"panic\":\"contract search panicked outside a guarded call\"}".to_string()),
                    });
                }).expect("spawn");
                let out = match rx.recv_timeout(std::time::Duration::from_secs(limit)) {
                    Ok(o) => o,
                    Err(_) => { hung = true; Some(format!("{{\"hang\":\"the contract did not finish within {} s: the code under test loops forever or dead-locks on one of its inputs\"}}", limit)) }
                };
                match out {
                    None => println!("RESULT\t{}\tpass", c.name),
                    Some(s) => { found += 1; println!("RESULT\t{}\tFAIL\t{}", c.name, s.replace('\n', " ")); }
                }
                if hung { break; }   // the stuck thread keeps a core busy: stop here, the process exits below
            }
            use std::io::Write;
            let _ = std::io::stdout().flush();
            if hung { std::process::exit(1); }
            if found > 0 { 1 } else { 0 }
        }
        Some("rerun") => {
            let name = &args[1];
            let input = &args[2];
            for c in &reg {
                if c.name == name {
                    let rerun = c.rerun;
                    let inp = input.clone();
                    let (tx, rx) = std::sync::mpsc::channel();
                    std::thread::Builder::new().stack_size(64 << 20).spawn(move || {
                        let res = std::panic::catch_unwind(std::panic::AssertUnwindSafe(|| (rerun)(&inp)));
                        let _ = tx.send(res.map_err(|_| ()));
                    }).expect("spawn");
                    let code = match rx.recv_timeout(std::time::Duration::from_secs(contract_wall_limit(0))) {
                        Ok(Ok(None)) => { println!("RESULT\t{}\tpass", c.name); 0 }
                        Ok(Ok(Some(m))) => { println!("RESULT\t{}\tFAIL\t{}", c.name, m.replace('\n', " ")); 1 }
                        Ok(Err(())) => { println!("RESULT\t{}\tFAIL\tpanic during rerun", c.name); 1 }
                        Err(_) => { println!("RESULT\t{}\tFAIL\thang: no result within the wall-clock limit", c.name); 1 }
                    };
                    use std::io::Write;
                    let _ = std::io::stdout().flush();
                    std::process::exit(code);
                }
            }
            eprintln!("unknown contract {}", name);
            2
        }
        _ => { eprintln!("usage: verif_replay list | search <seed> <budget> <sel>.. | rerun <name> <input>"); 2 }
    }
}

/// wall-clock limit of one contract search (seconds): generous for the case counts used by the tiers, VERIF_CONTRACT_WALL overrides
fn contract_wall_limit(budget: usize) -> u64 {
    if let Ok(v) = std::env::var("VERIF_CONTRACT_WALL") { if let Ok(n) = v.parse::<u64>() { return n; } }
    if budget <= 400 { 300 } else { 1500 }
}

fn fxhash(s: &str) -> u64 {
    let mut h: u64 = 0xcbf29ce484222325;
    for b in s.bytes() { h ^= b as u64; h = h.wrapping_mul(0x100000001b3); }
    h
}

/// run a closure, converting a panic into Err(message)
pub fn guarded<T>(f: impl FnOnce() -> T) -> Result<T, String> {
    let prev = std::panic::take_hook();
    std::panic::set_hook(Box::new(|_| {}));
    let r = std::panic::catch_unwind(std::panic::AssertUnwindSafe(f));
    std::panic::set_hook(prev);
    r.map_err(|e| {
        if let Some(s) = e.downcast_ref::<&str>() { s.to_string() }
        else if let Some(s) = e.downcast_ref::<String>() { s.clone() }
        else { "panic".to_string() }
    })
}

pub fn block_on<F: Future>(f: F) -> F::Output { futures::executor::block_on(f) }

// ------------------------------------------------------------------------------------------
// Shared in-memory backend: several Storage instances over the same bytes (drop + reopen),
// with an operation journal and optional fault injection.
// ------------------------------------------------------------------------------------------
#[derive(Debug, Clone, PartialEq)]
pub enum Op { Write(usize, u64, Vec<u8>), Del(usize, u64, u64), Truncate(usize, u64) }

#[derive(Debug, Default)]
pub struct Disk {
    pub files: [Vec<u8>; 4],          // tree, data, bitfield, oplog
    pub journal: Vec<Op>,
    pub op_count: u64,                // every call incl. reads
    pub fail_at: Option<u64>,         // fail the op with this ordinal
    pub failed: bool,
}

#[derive(Debug, Clone)]
pub struct SharedDisk(pub Arc<Mutex<Disk>>);

impl SharedDisk {
    pub fn new() -> Self { SharedDisk(Arc::new(Mutex::new(Disk::default()))) }
    pub fn from_files(files: [Vec<u8>; 4]) -> Self {
        let mut d = Disk::default();
        d.files = files;
        SharedDisk(Arc::new(Mutex::new(d)))
    }
    pub fn files(&self) -> [Vec<u8>; 4] { self.0.lock().unwrap().files.clone() }
    pub fn journal(&self) -> Vec<Op> { self.0.lock().unwrap().journal.clone() }
    pub fn clear_journal(&self) { self.0.lock().unwrap().journal.clear(); }
    pub fn apply(files: &mut [Vec<u8>; 4], op: &Op) {
        match op {
            Op::Write(s, off, data) => {
                let f = &mut files[*s];
                let end = *off as usize + data.len();
                if f.len() < end { f.resize(end, 0); }
                f[*off as usize..end].copy_from_slice(data);
            }
            Op::Del(s, off, len) => {
                let f = &mut files[*s];
                let flen = f.len() as u64;
                if *off >= flen { return; }
                if off + len >= flen { f.truncate(*off as usize); }
                else { for b in &mut f[*off as usize..(*off + *len) as usize] { *b = 0; } }
            }
            Op::Truncate(s, len) => { files[*s].resize(*len as usize, 0); }
        }
    }
}

#[derive(Debug)]
pub struct MemFile { pub disk: SharedDisk, pub which: usize }

type Fut<'a, T> = Pin<Box<dyn Future<Output = Result<T, RandomAccessError>> + Send + 'a>>;

fn io_err() -> RandomAccessError {
    RandomAccessError::IO { return_code: None, context: Some("injected".to_string()),
        source: std::io::Error::new(std::io::ErrorKind::Other, "injected fault") }
}

impl MemFile {
    fn tick(&self) -> Result<(), RandomAccessError> {
        let mut d = self.disk.0.lock().unwrap();
        let n = d.op_count;
        d.op_count += 1;
        if d.fail_at == Some(n) { d.failed = true; return Err(io_err()); }
        Ok(())
    }
}

impl RandomAccess for MemFile {
    fn write<'l0, 'l1, 'at>(&'l0 mut self, offset: u64, data: &'l1 [u8]) -> Fut<'at, ()>
    where 'l0: 'at, 'l1: 'at, Self: 'at {
        Box::pin(async move {
            self.tick()?;
            let mut d = self.disk.0.lock().unwrap();
            let op = Op::Write(self.which, offset, data.to_vec());
            SharedDisk::apply(&mut d.files, &op);
            d.journal.push(op);
            Ok(())
        })
    }
    fn read<'l0, 'at>(&'l0 mut self, offset: u64, length: u64) -> Fut<'at, Vec<u8>>
    where 'l0: 'at, Self: 'at {
        Box::pin(async move {
            self.tick()?;
            let d = self.disk.0.lock().unwrap();
            let f = &d.files[self.which];
            if offset.checked_add(length).map(|e| e > f.len() as u64).unwrap_or(true) {
                return Err(RandomAccessError::OutOfBounds { offset, end: offset.checked_add(length), length: f.len() as u64 });
            }
            Ok(f[offset as usize..(offset + length) as usize].to_vec())
        })
    }
    fn del<'l0, 'at>(&'l0 mut self, offset: u64, length: u64) -> Fut<'at, ()>
    where 'l0: 'at, Self: 'at {
        Box::pin(async move {
            self.tick()?;
            let mut d = self.disk.0.lock().unwrap();
            // as random-access-memory / random-access-disk: a delete that starts beyond the end is refused, a zero-length one is a no-op
            let flen = d.files[self.which].len() as u64;
            if offset > flen { return Err(RandomAccessError::OutOfBounds { offset, end: None, length: flen }); }
            if length == 0 { return Ok(()); }
            let op = Op::Del(self.which, offset, length);
            SharedDisk::apply(&mut d.files, &op);
            d.journal.push(op);
            Ok(())
        })
    }
    fn truncate<'l0, 'at>(&'l0 mut self, length: u64) -> Fut<'at, ()>
    where 'l0: 'at, Self: 'at {
        Box::pin(async move {
            self.tick()?;
            let mut d = self.disk.0.lock().unwrap();
            let op = Op::Truncate(self.which, length);
            SharedDisk::apply(&mut d.files, &op);
            d.journal.push(op);
            Ok(())
        })
    }
    fn len<'l0, 'at>(&'l0 mut self) -> Fut<'at, u64> where 'l0: 'at, Self: 'at {
        Box::pin(async move { self.tick()?; Ok(self.disk.0.lock().unwrap().files[self.which].len() as u64) })
    }
    fn is_empty<'l0, 'at>(&'l0 mut self) -> Fut<'at, bool> where 'l0: 'at, Self: 'at {
        Box::pin(async move { self.tick()?; Ok(self.disk.0.lock().unwrap().files[self.which].is_empty()) })
    }
    fn sync_all<'l0, 'at>(&'l0 mut self) -> Fut<'at, ()> where 'l0: 'at, Self: 'at {
        Box::pin(async move { Ok(()) })
    }
}

pub fn store_idx(s: &crate::Store) -> usize {
    match s { crate::Store::Tree => 0, crate::Store::Data => 1, crate::Store::Bitfield => 2, crate::Store::Oplog => 3 }
}

pub fn storage_on(disk: &SharedDisk) -> Result<crate::Storage, crate::HypercoreError> {
    let disk = disk.clone();
    block_on(crate::Storage::open(
        move |store: crate::Store| {
            let f = MemFile { disk: disk.clone(), which: store_idx(&store) };
            Box::pin(async move { Ok(Box::new(f) as Box<dyn crate::StorageTraits + Send>) })
        },
        false,
    ))
}

pub fn fixed_key() -> crate::PartialKeypair {
    let sk = crate::SigningKey::from_bytes(&[7u8; 32]);
    crate::PartialKeypair { public: sk.verifying_key(), secret: Some(sk) }
}

pub fn create_core(disk: &SharedDisk) -> Result<crate::Hypercore, crate::HypercoreError> {
    let st = storage_on(disk)?;
    block_on(crate::HypercoreBuilder::new(st).key_pair(fixed_key()).build())
}

pub fn open_core(disk: &SharedDisk) -> Result<crate::Hypercore, crate::HypercoreError> {
    let st = storage_on(disk)?;
    block_on(crate::HypercoreBuilder::new(st).open(true).build())
}
