//! bounded validation of the ASSUMED contracts of dependencies that the proofs rest on (not a property check: it guards the
//! trusted base).  `dep.flat_tree_model`: every clause of shim/flat_tree.rs (the (depth, offset) model of flat_tree::Iterator,
//! full_root / next_tree alignment, full_roots = mountain range, spans, parent, depth) against the real crate.
//! Module `crate::verif_exec_deps`.
#![allow(dead_code, missing_docs, unused_imports, clippy::all)]
use crate::verif_exec::{guarded, Contract, Rng};

fn dof(x: u64) -> (u32, u64) { let d = (!x).trailing_zeros(); (d, if d >= 63 { 0 } else { x >> (d + 1) }) }
fn nidx(d: u32, o: u64) -> u128 { (o as u128) * (1u128 << (d + 1)) + (1u128 << d) - 1 }
fn chk(c: bool, what: &str, x: u64) -> Result<(), String> { if c { Ok(()) } else { Err(format!("{what} at index {x}")) } }

fn check_index(x: u64) -> Result<(), String> {
    let (d, o) = dof(x);
    if d > 60 { return Ok(()); }
    let f = 1u64 << (d + 1);
    chk(nidx(d, o) == x as u128, "node_index(depth, offset) != index", x)?;
    chk(flat_tree::depth(x) == d as u64, "depth", x)?;
    let it = flat_tree::Iterator::new(x);
    chk(it.index() == x && it.factor() == f && it.offset() == o, "Iterator::new (index, factor, offset)", x)?;
    chk(it.is_left() == (o % 2 == 0) && it.is_right() == (o % 2 == 1), "is_left/is_right", x)?;
    if x < (1u64 << 60) {
        let mut s = flat_tree::Iterator::new(x); let r = s.sibling();
        let want = if o % 2 == 0 { x + f } else { x - f };
        chk(r == want && s.index() == want && s.factor() == f && s.offset() == (o ^ 1), "sibling", x)?;
        let mut p = flat_tree::Iterator::new(x); let r = p.parent();
        let want = if o % 2 == 0 { x + f / 2 } else { x - f / 2 };
        chk(r == want && p.index() == want && p.factor() == 2 * f && p.offset() == o / 2, "parent (iterator)", x)?;
        chk(flat_tree::parent(x) == want, "flat_tree::parent", x)?;
        let mut l = flat_tree::Iterator::new(x); let r = l.left_child();
        if d == 0 { chk(r == x && l.index() == x && l.factor() == f && l.offset() == o, "left_child of a leaf", x)?; }
        else { chk(r == x - f / 4 && l.index() == x - f / 4 && l.factor() == f / 2 && l.offset() == 2 * o, "left_child", x)?; }
        let mut rc = flat_tree::Iterator::new(x); let r = rc.right_child();
        if d == 0 { chk(r == x && rc.index() == x, "right_child of a leaf", x)?; }
        else { chk(r == x + f / 4 && rc.index() == x + f / 4 && rc.factor() == f / 2 && rc.offset() == 2 * o + 1, "right_child", x)?; }
        let mut nt = flat_tree::Iterator::new(x); let r = nt.next_tree();
        chk(r == x + (1u64 << d) + 1 && nt.index() == r && nt.factor() == 2 && nt.offset() == r / 2, "next_tree", x)?;
        // contains == strictly inside (index - 2^d, index + 2^d)
        let half = 1i128 << d;
        for y in [0u64, x.saturating_sub(f), x.saturating_sub(f / 2), x.saturating_sub(f / 2).saturating_add(1), x.saturating_sub(1), x, x + 1, x + f / 2 - 1, x + f / 2, x + f / 2 + 1, x + f] {
            let want = (x as i128 - half) < y as i128 && (y as i128) < (x as i128 + half);
            chk(it.contains(y) == want, "contains", x)?;
        }
        // spans
        let ls = flat_tree::left_span(x); let rs = flat_tree::right_span(x);
        chk(ls <= x && ls % 2 == 0 && (x % 2 != 0 || ls == x), "left_span", x)?;
        chk(x <= rs && (rs as u128) < 2 * x as u128 + 2 && (x % 2 != 0 || rs == x), "right_span", x)?;
        chk(ls as u128 == (o as u128) * (1u128 << (d + 1)) && rs as u128 == (o as u128 + 1) * (1u128 << (d + 1)) - 2, "span ends", x)?;
    }
    Ok(())
}
fn check_full_roots(to: u64) -> Result<(), String> {
    // walking the full roots below `to` (to even): the contract of full_root / next_tree used by upgrade_proof and verify_upgrade
    let mut it = flat_tree::Iterator::new(0);
    let mut l = 0u64; let mut roots_walk: Vec<u64> = vec![];
    loop {
        let before = (it.index(), it.factor(), it.offset());
        let r = it.full_root(to);
        chk(r == (to > l && l % 2 == 0), "full_root result", to)?;
        if !r { chk((it.index(), it.factor(), it.offset()) == before, "full_root(false) moved the iterator", to)?; break; }
        let (d, o) = dof(it.index());
        chk(it.factor() == 1u64 << (d + 1) && it.offset() == o, "full_root left a non-node iterator state", to)?;
        chk(it.index() == l + (1u64 << d) - 1, "full_root index", to)?;
        chk(l + (1u64 << (d + 1)) <= to && to < l + (1u64 << (d + 2)), "full_root size bounds", to)?;
        roots_walk.push(it.index());
        l = it.next_tree();
        chk(l == roots_walk[roots_walk.len() - 1] + (1u64 << d) + 1, "next_tree after full_root", to)?;
    }
    let mut fr = vec![]; flat_tree::full_roots(to, &mut fr);
    chk(fr == roots_walk, "full_roots != roots found by walking", to)?;
    chk(fr.len() <= 64, "full_roots length", to)?;
    // mountain range: root k = root of the aligned full tree that starts where roots 0..k end; ends at `to`
    let mut start = 0u64;
    for idx in &fr { let (d, _) = dof(*idx); chk(*idx < to, "root below to", to)?; chk(*idx == start + (1u64 << d) - 1 && start % (1u64 << (d + 2)) == 0, "idx_mr clause", to)?; start += 1u64 << (d + 1); }
    chk(start == to, "idx_mr end", to)
}
fn search_ft(rng: &mut Rng, budget: usize) -> Option<String> {
    let r = guarded(|| -> Option<String> {
        for x in 0..8192u64 { if let Err(e) = check_index(x) { return Some(e); } }
        for sh in 13..60u32 { for delta in [0u64, 1, 2, 3] { for base in [(1u64 << sh) - 2, 1u64 << sh, (1u64 << sh) + (1u64 << (sh - 1))] { if let Err(e) = check_index(base + delta) { return Some(e); } } } }
        for _ in 0..budget * 50 { let x = rng.below(1u64 << 59); if let Err(e) = check_index(x) { return Some(e); } }
        for n in 0..2000u64 { if let Err(e) = check_full_roots(2 * n) { return Some(e); } }
        for _ in 0..budget { let n = rng.below(1u64 << 40); if let Err(e) = check_full_roots(2 * n) { return Some(e); } }
        None
    });
    match r { Ok(None) => None, Ok(Some(e)) => Some(format!("{{\"why\":\"assumed flat-tree contract does not hold: {e}\"}}|{e}")), Err(p) => Some(format!("{{\"why\":\"panic: {p}\"}}|panic")) }
}
fn rerun_ft(_input: &str) -> Option<String> { let mut r = Rng::new(1); search_ft(&mut r, 10) }

pub fn contracts() -> Vec<Contract> {
    vec![Contract { name: "dep.flat_tree_model", covers: &[], search: search_ft, rerun: rerun_ft }]
}
