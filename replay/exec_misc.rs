//! executable contracts: wire codecs vs an independent reference encoder (C11), secret key hygiene (C12), events (C13).
//! Module `crate::verif_exec_misc`.
#![allow(dead_code, missing_docs, unused_imports, clippy::all)]
use crate::verif_exec::{block_on, create_core, fixed_key, guarded, open_core, storage_on, Contract, Rng, SharedDisk};
use crate::{DataBlock, DataHash, DataSeek, DataUpgrade, Hypercore, HypercoreBuilder, Node, PartialKeypair, RequestBlock, RequestSeek, RequestUpgrade};
use compact_encoding::CompactEncoding;

// ---------------- C11 ----------------
fn varint(v: u64, o: &mut Vec<u8>) {
    if v < 0xfd { o.push(v as u8) } else if v <= 0xffff { o.push(0xfd); o.extend_from_slice(&(v as u16).to_le_bytes()) }
    else if v <= 0xffff_ffff { o.push(0xfe); o.extend_from_slice(&(v as u32).to_le_bytes()) } else { o.push(0xff); o.extend_from_slice(&v.to_le_bytes()) }
}
fn bytes(b: &[u8], o: &mut Vec<u8>) { varint(b.len() as u64, o); o.extend_from_slice(b); }
fn rnode(n: &(u64, u64, u8), o: &mut Vec<u8>) { varint(n.0, o); varint(n.1, o); o.extend_from_slice(&[n.2; 32]); }
fn rnodes(ns: &[(u64, u64, u8)], o: &mut Vec<u8>) { varint(ns.len() as u64, o); for n in ns { rnode(n, o); } }
fn mk_nodes(ns: &[(u64, u64, u8)]) -> Vec<Node> { ns.iter().map(|n| Node::new(n.0, vec![n.2; 32], n.1)).collect() }
fn check_one<T: CompactEncoding + PartialEq + std::fmt::Debug>(what: &str, v: &T, want: &[u8]) -> Option<String> {
    let r = guarded(|| -> Option<String> {
        let size = match v.encoded_size() { Ok(s) => s, Err(e) => return Some(format!("{what}: encoded_size failed: {e}")) };
        if size != want.len() { return Some(format!("{what}: encoded_size {} but the spec encoding has {} bytes", size, want.len())); }
        let mut buf = vec![0xAAu8; size + 3];
        let rest_len = match v.encode(&mut buf) { Ok(rest) => rest.len(), Err(e) => return Some(format!("{what}: encode failed: {e}")) };
        if rest_len != 3 || &buf[..size] != want || buf[size..] != [0xAA; 3] { return Some(format!("{what}: encoded bytes differ from the spec (or the rest was touched)")); }
        let mut exact = vec![0u8; size];
        if v.encode(&mut exact).is_err() { return Some(format!("{what}: encode into a buffer of exactly encoded_size bytes failed")); }
        let mut with_tail = want.to_vec(); with_tail.extend_from_slice(&[9, 8, 7]);
        match T::decode(&with_tail) { Ok((d, rest)) => { if &d != v { return Some(format!("{what}: decode(encode(x)) != x")); } if rest != [9, 8, 7] { return Some(format!("{what}: decode left {} bytes, expected the 3 trailing ones", rest.len())); } }
            Err(e) => return Some(format!("{what}: decode of the spec bytes failed: {e}")) }
        for cut in 0..want.len() { if T::decode(&want[..cut]).is_ok() { return Some(format!("{what}: decoding the strict prefix of length {cut} succeeded")); } }
        None
    });
    match r { Ok(x) => x, Err(p) => Some(format!("{what}: panic: {p}")) }
}
const INTS: [u64; 14] = [0, 1, 252, 253, 65535, 65536, 0xffff_ffff, 0x1_0000_0000, (1 << 40) - 1, u64::MAX - 1, 7, u64::MAX, (1 << 63) - 1, (1 << 62) - 1];
fn wire_case(a: u64, b: u64, vlen: usize, ns: &[(u64, u64, u8)], ns2: &[(u64, u64, u8)], slen: usize) -> Option<String> {
    match guarded(|| wire_case_inner(a, b, vlen, ns, ns2, slen)) { Ok(r) => r, Err(p) => Some(format!("panic: {p}")) }
}
fn wire_case_inner(a: u64, b: u64, vlen: usize, ns: &[(u64, u64, u8)], ns2: &[(u64, u64, u8)], slen: usize) -> Option<String> {
    let value: Vec<u8> = (0..vlen).map(|i| i as u8).collect();
    let sig: Vec<u8> = (0..slen).map(|i| (i * 3) as u8).collect();
    let mut o = vec![]; varint(a, &mut o); varint(b, &mut o);
    if let Some(m) = check_one("RequestBlock", &RequestBlock { index: a, nodes: b }, &o) { return Some(m); }
    if let Some(m) = check_one("RequestUpgrade", &RequestUpgrade { start: a, length: b }, &o) { return Some(m); }
    let mut o = vec![]; varint(a, &mut o);
    if let Some(m) = check_one("RequestSeek", &RequestSeek { bytes: a }, &o) { return Some(m); }
    if !ns.is_empty() { let mut o = vec![]; rnode(&ns[0], &mut o); if let Some(m) = check_one("Node", &Node::new(ns[0].0, vec![ns[0].2; 32], ns[0].1), &o) { return Some(m); } }
    let mut o = vec![]; varint(a, &mut o); bytes(&value, &mut o); rnodes(ns, &mut o);
    if let Some(m) = check_one("DataBlock", &DataBlock { index: a, value: value.clone(), nodes: mk_nodes(ns) }, &o) { return Some(m); }
    let mut o = vec![]; varint(a, &mut o); rnodes(ns, &mut o);
    if let Some(m) = check_one("DataHash", &DataHash { index: a, nodes: mk_nodes(ns) }, &o) { return Some(m); }
    if let Some(m) = check_one("DataSeek", &DataSeek { bytes: a, nodes: mk_nodes(ns) }, &o) { return Some(m); }
    let mut o = vec![]; varint(a, &mut o); varint(b, &mut o); rnodes(ns, &mut o); rnodes(ns2, &mut o); bytes(&sig, &mut o);
    check_one("DataUpgrade", &DataUpgrade { start: a, length: b, nodes: mk_nodes(ns), additional_nodes: mk_nodes(ns2), signature: sig }, &o)
}
fn search_wire(rng: &mut Rng, budget: usize) -> Option<String> {
    let mut cases: Vec<(u64, u64, usize, usize, usize, usize)> = vec![(0, 0, 0, 0, 0, 0), (253, 65536, 253, 1, 2, 64), (5, 6, 300, 8, 0, 1), (u64::MAX - 1, 252, 252, 0, 3, 0), (u64::MAX, u64::MAX, 1, 14, 3, 0)];
    for _ in 0..budget { cases.push((rng.pick(&INTS), rng.pick(&INTS), rng.pick(&[0usize, 1, 7, 252, 253, 254, 300]), rng.below(15) as usize, rng.below(4) as usize, rng.pick(&[0usize, 1, 64, 253]))); }
    for c in cases {
        // node 0 of the list carries an all-zero hash (a legal value: it must round-trip like any other)
        let ns: Vec<(u64, u64, u8)> = (0..c.3).map(|i| (INTS[(i + c.0 as usize % 5) % INTS.len()], INTS[(i * 3 + 1) % INTS.len()], i as u8)).collect();
        let ns2: Vec<(u64, u64, u8)> = (0..c.4).map(|i| (INTS[(i + 2) % INTS.len()], 9, 0x80 + i as u8)).collect();
        if let Some(m) = wire_case(c.0, c.1, c.2, &ns, &ns2, c.5) { return Some(format!("{{\"ints\":[{},{}],\"value_len\":{},\"nodes\":{},\"additional_nodes\":{},\"signature_len\":{},\"why\":\"{}\"}}|{};{};{};{};{};{}", c.0, c.1, c.2, c.3, c.4, c.5, m, c.0, c.1, c.2, c.3, c.4, c.5)); }
    }
    None
}
fn rerun_wire(input: &str) -> Option<String> {
    let f: Vec<u64> = input.rsplit('|').next().unwrap().split(';').map(|x| x.parse().unwrap()).collect();
    let ns: Vec<(u64, u64, u8)> = (0..f[3] as usize).map(|i| (INTS[(i + f[0] as usize % 5) % INTS.len()], INTS[(i * 3 + 1) % INTS.len()], i as u8)).collect();
    let ns2: Vec<(u64, u64, u8)> = (0..f[4] as usize).map(|i| (INTS[(i + 2) % INTS.len()], 9, 0x80 + i as u8)).collect();
    wire_case(f[0], f[1], f[2] as usize, &ns, &ns2, f[5] as usize)
}

// ---------------- C12 ----------------
fn find(h: &[u8], n: &[u8]) -> bool { h.windows(n.len()).any(|w| w == n) }
fn hygiene_check(appends: usize, clear: bool, reopen_before: bool) -> Option<String> {
    let r = guarded(|| -> Option<String> {
        let disk = SharedDisk::new();
        let kp = fixed_key();
        let secret = kp.secret.as_ref().unwrap().to_bytes();
        let mut core = match create_core(&disk) { Ok(c) => c, Err(e) => return Some(format!("create: {e}")) };
        for i in 0..appends { if let Err(e) = block_on(core.append(&[i as u8, 1, 2])) { return Some(format!("append: {e}")); } }
        if clear && appends > 1 { if let Err(e) = block_on(core.clear(0, 1)) { return Some(format!("clear: {e}")); } }
        if reopen_before { drop(core); core = match open_core(&disk) { Ok(c) => c, Err(e) => return Some(format!("reopen: {e}")) }; }
        if !core.info().writeable { return Some("core lost its secret key before make_read_only".to_string()); }
        let files_before = disk.files();
        if appends > 0 && !files_before.iter().any(|f| find(f, &secret)) { return Some("test self-check: secret not on disk before make_read_only".to_string()); }
        match block_on(core.make_read_only()) { Ok(true) => {}, Ok(false) => return Some("make_read_only returned false on a writable core".to_string()), Err(e) => return Some(format!("make_read_only: {e}")) }
        let names = ["tree", "data", "bitfield", "oplog"];
        for (n, f) in disk.files().iter().enumerate() { if find(f, &secret) { return Some(format!("the {} file still contains the secret key after make_read_only ({} appends before{})", names[n], appends, if reopen_before { ", reopened" } else { "" })); } }
        let before_j = disk.journal().len();
        match block_on(core.append(b"x")) { Err(crate::HypercoreError::NotWritable) => {}, other => return Some(format!("append on a read-only core returned {:?}", other.map(|o| o.length))) }
        if disk.journal().len() != before_j { return Some("a refused append wrote to storage".to_string()); }
        match block_on(core.make_read_only()) { Ok(false) => {}, other => return Some(format!("second make_read_only returned {:?}", other)) }
        let len = core.info().length;
        drop(core);
        let mut rc = match open_core(&disk) { Ok(c) => c, Err(e) => return Some(format!("reopen after make_read_only: {e}")) };
        if rc.info().writeable { return Some("reopened core is writable after make_read_only".to_string()); }
        if rc.info().length != len || len != appends as u64 { return Some(format!("length {} after reopen, expected {}", rc.info().length, appends)); }
        for i in 0..appends as u64 { let want = if clear && appends > 1 && i == 0 { None } else { Some(vec![i as u8, 1, 2]) };
            match block_on(rc.get(i)) { Ok(g) => if g != want { return Some(format!("block {i} differs after make_read_only + reopen")); }, Err(e) => return Some(format!("get({i}): {e}")) } }
        if rc.key_pair().public != kp.public { return Some("public key not recovered".to_string()); }
        // open + key pair is rejected
        let st = match storage_on(&disk) { Ok(s) => s, Err(e) => return Some(e.to_string()) };
        match block_on(HypercoreBuilder::new(st).key_pair(fixed_key()).open(true).build()) { Err(crate::HypercoreError::BadArgument { .. }) => {}, Ok(_) => return Some("open(true) with a key pair was accepted".to_string()), Err(e) => return Some(format!("open(true)+key pair: unexpected error {e}")) }
        None
    });
    match r { Ok(x) => x, Err(p) => Some(format!("panic: {p}")) }
}
fn search_hygiene(_rng: &mut Rng, _budget: usize) -> Option<String> {
    for appends in 0..10usize { for clear in [false, true] { for reopen in [false, true] {
        if let Some(m) = hygiene_check(appends, clear, reopen) { return Some(format!("{{\"appends_before\":{},\"clear\":{},\"reopen_before\":{},\"why\":\"{}\"}}|{};{};{}", appends, clear, reopen, m, appends, clear as u8, reopen as u8)); }
    } } }
    None
}
fn rerun_hygiene(input: &str) -> Option<String> { let f: Vec<usize> = input.rsplit('|').next().unwrap().split(';').map(|x| x.parse().unwrap()).collect(); hygiene_check(f[0], f[1] == 1, f[2] == 1) }

// ---------------- C13 ----------------
use crate::replication::events::Event;
fn drain(rx: &mut async_broadcast::Receiver<Event>) -> Vec<String> {
    let mut v = vec![];
    while let Ok(e) = rx.try_recv() { v.push(match e { Event::Get(g) => format!("Get({})", g.index), Event::DataUpgrade(_) => "Upgrade".to_string(), Event::Have(h) => format!("Have({},{},{})", h.start, h.length, h.drop) }); }
    v
}
fn events_check(script: &[u8]) -> Option<String> {
    let r = guarded(|| -> Option<String> {
        let dw = SharedDisk::new(); let dr = SharedDisk::new();
        let mut w = match create_core(&dw) { Ok(c) => c, Err(e) => return Some(e.to_string()) };
        let st = match storage_on(&dr) { Ok(s) => s, Err(e) => return Some(e.to_string()) };
        let mut rep = match block_on(HypercoreBuilder::new(st).key_pair(PartialKeypair { public: fixed_key().public, secret: None }).build()) { Ok(c) => c, Err(e) => return Some(e.to_string()) };
        let mut wlen = 0u64; let mut next_fetch = 0u64;
        // some histories start with operations that nobody listens to: they must not affect later subscribers
        for k in 0..script.first().map(|x| (x / 8) % 3).unwrap_or(0) { let _ = block_on(w.append(&[k])); wlen += 1; let _ = block_on(w.get(wlen + 5)); let _ = block_on(rep.get(3)); }
        let mut rx1 = w.event_subscribe(); let mut rx2 = w.event_subscribe(); let mut rr = rep.event_subscribe();
        for (n, op) in script.iter().enumerate() {
            let mut want_w: Vec<String> = vec![]; let mut want_r: Vec<String> = vec![];
            match op % 8 {
                0 => { let _ = block_on(w.append(&[*op])); want_w = vec!["Upgrade".into(), format!("Have({},1,false)", wlen)]; wlen += 1; }
                1 => { let k = 2 + (*op as u64 / 8) % 3; let blocks: Vec<Vec<u8>> = (0..k).map(|i| vec![i as u8; (i % 2) as usize]).collect(); let refs: Vec<&[u8]> = blocks.iter().map(|b| b.as_slice()).collect();
                       let _ = block_on(w.append_batch(&refs)); want_w = vec!["Upgrade".into(), format!("Have({},{},false)", wlen, k)]; wlen += k; }
                2 => { let e: Vec<&[u8]> = vec![]; let _ = block_on(w.append_batch(&e)); }
                3 => { if wlen > 0 { let _ = block_on(w.clear(0, 1)); } let _ = w.has(0); let _ = w.info();
                       // the second subscriber leaves and a new one attaches: it sees everything from now on
                       rx2 = w.event_subscribe(); }
                4 => { let i = wlen + (*op as u64 / 8); let _ = block_on(w.get(i)); want_w = vec![format!("Get({})", i)]; }
                5 => { if wlen > 1 { let _ = block_on(w.get(wlen - 1)); }   // held block: no event
                       if *op >= 128 {   // everybody leaves, something happens unobserved, two new subscribers attach
                           drop(rx1); drop(rx2); let _ = block_on(w.append(&[9, 9])); wlen += 1; let _ = block_on(w.get(wlen + 9));
                           rx1 = w.event_subscribe(); rx2 = w.event_subscribe(); } }
                6 => { if next_fetch < wlen {   // honest proof: block + upgrade when behind
                        let nodes = match block_on(rep.missing_nodes(next_fetch)) { Ok(x) => x, Err(e) => return Some(e.to_string()) };
                        let rl = rep.info().length; let up = if rl < wlen { Some(RequestUpgrade { start: rl, length: wlen - rl }) } else { None };
                        let had_up = up.is_some();
                        if !w.has(next_fetch) { want_w = vec![format!("Get({})", next_fetch)]; }   // create_proof reads the block through get(), which announces a miss
                        match block_on(w.create_proof(Some(RequestBlock { index: next_fetch, nodes }), None, None, up)) {
                            Ok(Some(p)) => { match block_on(rep.verify_and_apply_proof(&p)) { Ok(true) => { if had_up { want_r.push("Upgrade".into()); } want_r.push(format!("Have({},1,false)", next_fetch)); }, other => return Some(format!("honest proof not applied: {:?}", other.map_err(|e| e.to_string()))) } }
                            Ok(None) => {}   // block was cleared on the writer
                            Err(e) => return Some(format!("create_proof: {e}")) }
                        next_fetch += 1; } }
                _ => { // refused proof: wrong fork
                        if wlen > 0 { if !w.has(wlen - 1) { want_w = vec![format!("Get({})", wlen - 1)]; } if let Ok(Some(mut p)) = block_on(w.create_proof(Some(RequestBlock { index: wlen - 1, nodes: 0 }), None, None, None)) { p.fork = 7; let _ = block_on(rep.verify_and_apply_proof(&p)); } }
                        let _ = block_on(rep.get(1 << 30)); want_r = vec![format!("Get({})", 1u64 << 30)]; }
            }
            let g1 = drain(&mut rx1); let g2 = drain(&mut rx2); let gr = drain(&mut rr);
            if g1 != want_w { return Some(format!("step {n} (op {}): writer subscriber saw {:?}, expected {:?}", op % 8, g1, want_w)); }
            if g2 != g1 { return Some(format!("step {n}: second subscriber saw {:?}, first {:?}", g2, g1)); }
            if gr != want_r { return Some(format!("step {n} (op {}): replica subscriber saw {:?}, expected {:?}", op % 8, gr, want_r)); }
        }
        None
    });
    match r { Ok(x) => x, Err(p) => Some(format!("panic: {p}")) }
}
fn search_events(rng: &mut Rng, budget: usize) -> Option<String> {
    let mut scripts: Vec<Vec<u8>> = vec![vec![0, 1, 2, 3, 4, 5, 6, 6, 6, 7, 9, 6, 6, 6], vec![1, 17, 6, 6, 0, 6, 6, 6, 6, 4, 12], vec![8, 0, 4, 133, 0, 4, 6, 6, 3, 0, 1], vec![16, 133, 1, 133, 4, 0]];
    for _ in 0..budget.min(120) { let n = 1 + rng.below(14) as usize; scripts.push((0..n).map(|_| rng.next() as u8).collect()); }
    for s in scripts { if let Some(m) = events_check(&s) { let e = s.iter().map(|x| x.to_string()).collect::<Vec<_>>().join(","); return Some(format!("{{\"script\":\"{}\",\"why\":\"{}\"}}|{}", e, m, e)); } }
    None
}
fn rerun_events(input: &str) -> Option<String> { let s: Vec<u8> = input.rsplit('|').next().unwrap().split(',').filter(|x| !x.is_empty()).map(|x| x.parse().unwrap()).collect(); events_check(&s) }

pub fn contracts() -> Vec<Contract> {
    vec![
        Contract { name: "codec.wire_reference", covers: &["CompactEncoding for Node::encoded_size", "CompactEncoding for Node::encode", "CompactEncoding for Node::decode", "VecEncodable for Node::vec_encoded_size",
            "CompactEncoding for RequestBlock::encoded_size", "CompactEncoding for RequestBlock::encode", "CompactEncoding for RequestBlock::decode",
            "CompactEncoding for RequestSeek::encoded_size", "CompactEncoding for RequestSeek::encode", "CompactEncoding for RequestSeek::decode",
            "CompactEncoding for RequestUpgrade::encoded_size", "CompactEncoding for RequestUpgrade::encode", "CompactEncoding for RequestUpgrade::decode",
            "CompactEncoding for DataBlock::encoded_size", "CompactEncoding for DataBlock::encode", "CompactEncoding for DataBlock::decode",
            "CompactEncoding for DataHash::encoded_size", "CompactEncoding for DataHash::encode", "CompactEncoding for DataHash::decode",
            "CompactEncoding for DataSeek::encoded_size", "CompactEncoding for DataSeek::encode", "CompactEncoding for DataSeek::decode",
            "CompactEncoding for DataUpgrade::encoded_size", "CompactEncoding for DataUpgrade::encode", "CompactEncoding for DataUpgrade::decode", "Node::new"],
            search: search_wire, rerun: rerun_wire },
        Contract { name: "e2e.read_only_hygiene", covers: &["Hypercore::make_read_only", "Oplog::flush", "Oplog::insert_header", "Hypercore::flush_bitfield_and_tree_and_oplog", "Hypercore::new", "Hypercore::append_batch", "HypercoreBuilder::new", "HypercoreBuilder::key_pair", "HypercoreBuilder::open", "HypercoreBuilder::build"], search: search_hygiene, rerun: rerun_hygiene },
        Contract { name: "e2e.events", covers: &["Hypercore::append_batch", "Hypercore::get", "Hypercore::verify_and_apply_proof", "Hypercore::clear", "Events::new", "Events::send", "Events::send_on_get"], search: search_events, rerun: rerun_events },
    ]
}
