//! executable contract for C05: an independent reference implementation of the Hypercore v10 Merkle scheme (own flat-tree
//! arithmetic, BLAKE2b-256 through the `blake2` crate directly, Ed25519 through `ed25519_dalek` directly) compared with the
//! tree file, the oplog header and the proofs the crate produces.  Module `crate::verif_exec_merkle`.
#![allow(dead_code, missing_docs, unused_imports, clippy::all)]
use crate::verif_exec::{block_on, create_core, fixed_key, guarded, open_core, Contract, Rng, SharedDisk};
use crate::verif_exec_e2e::{dec, enc, Step};
use crate::{Hypercore, RequestBlock, RequestUpgrade};
use blake2::{digest::typenum::U32, Blake2b, Digest};
use ed25519_dalek::{Signature, Verifier};

type H = [u8; 32];
fn b2(parts: &[&[u8]]) -> H { let mut h = Blake2b::<U32>::new(); for p in parts { h.update(p); } let r = h.finalize(); let mut o = [0u8; 32]; o.copy_from_slice(&r); o }
fn ref_leaf(data: &[u8]) -> H { b2(&[&[0u8], &(data.len() as u64).to_le_bytes(), data]) }
fn ref_parent(ls: u64, lh: &H, rs: u64, rh: &H) -> H { b2(&[&[1u8], &(ls + rs).to_le_bytes(), lh, rh]) }
fn ref_namespace_tree() -> H { let ns = b2(&[b"hypercore"]); b2(&[&ns, &[0u8]]) }
/// node (depth d, offset o) of the tree over `blocks`: (flat index, hash, size); None if it is not full
fn ref_node(blocks: &[Vec<u8>], d: u32, o: u64) -> Option<(u64, H, u64)> {
    let index = o * (1u64 << (d + 1)) + (1u64 << d) - 1;
    if (o + 1) * (1u64 << d) > blocks.len() as u64 { return None; }
    if d == 0 { let b = &blocks[o as usize]; return Some((index, ref_leaf(b), b.len() as u64)); }
    let l = ref_node(blocks, d - 1, 2 * o)?; let r = ref_node(blocks, d - 1, 2 * o + 1)?;
    Some((index, ref_parent(l.2, &l.1, r.2, &r.1), l.2 + r.2))
}
fn ref_roots(blocks: &[Vec<u8>]) -> Vec<(u64, H, u64)> {
    let n = blocks.len() as u64; let mut out = vec![]; let mut start = 0u64;
    for d in (0..40u32).rev() { if n & (1u64 << d) != 0 { out.push(ref_node(blocks, d, start >> d).unwrap()); start += 1u64 << d; } }
    out
}
fn ref_tree_hash(roots: &[(u64, H, u64)]) -> H {
    let mut v: Vec<u8> = vec![2u8];
    for r in roots { v.extend_from_slice(&r.1); v.extend_from_slice(&r.0.to_le_bytes()); v.extend_from_slice(&r.2.to_le_bytes()); }
    b2(&[&v])
}
fn ref_signable(roots: &[(u64, H, u64)], length: u64, fork: u64) -> Vec<u8> {
    let mut v = ref_namespace_tree().to_vec(); v.extend_from_slice(&ref_tree_hash(roots)); v.extend_from_slice(&length.to_le_bytes()); v.extend_from_slice(&fork.to_le_bytes()); v
}
fn block_bytes(index: usize, size: usize) -> Vec<u8> { (0..size).map(|k| (index * 31 + k * 7 + 1) as u8).collect() }

fn merkle_check(steps: &[Step]) -> Option<String> {
    let r = guarded(|| -> Option<String> {
        let disk = SharedDisk::new();
        let kp = fixed_key();
        let mut core = match create_core(&disk) { Ok(c) => c, Err(e) => return Some(format!("create: {e}")) };
        let mut blocks: Vec<Vec<u8>> = vec![];
        for st in steps {
            match st {
                Step::Append(sizes) => { let bs: Vec<Vec<u8>> = sizes.iter().enumerate().map(|(k, s)| block_bytes(blocks.len() + k, *s)).collect();
                    let refs: Vec<&[u8]> = bs.iter().map(|b| b.as_slice()).collect(); if let Err(e) = block_on(core.append_batch(&refs)) { return Some(format!("append: {e}")); } blocks.extend(bs); }
                Step::Reopen => { drop(core); core = match open_core(&disk) { Ok(c) => c, Err(e) => return Some(format!("reopen: {e}")) }; }
                Step::Clear(..) | Step::ReadOnly => {}
            }
            if blocks.is_empty() { continue; }
            let n = blocks.len() as u64;
            let roots = ref_roots(&blocks);
            // 1. signature served with a full upgrade verifies over the reference signable, and the served nodes are reference nodes
            let proof = match block_on(core.create_proof(Some(RequestBlock { index: n - 1, nodes: 0 }), None, None, Some(RequestUpgrade { start: 0, length: n }))) { Ok(Some(p)) => p, Ok(None) => return Some("no proof".into()), Err(e) => return Some(format!("create_proof: {e}")) };
            let up = match proof.upgrade.as_ref() { Some(u) => u, None => return Some("proof without upgrade".into()) };
            let sig = match Signature::from_slice(&up.signature) { Ok(s) => s, Err(_) => return Some(format!("served signature has {} bytes", up.signature.len())) };
            if kp.public.verify(&ref_signable(&roots, n, 0), &sig).is_err() { return Some(format!("served signature does not verify over the reference signable of {n} blocks")); }
            for nd in up.nodes.iter().chain(up.additional_nodes.iter()).chain(proof.block.iter().flat_map(|b| b.nodes.iter())) {
                let (d, o) = { let mut d = 0u32; let mut x = nd.index; while x & 1 == 1 { x >>= 1; d += 1; } (d, nd.index >> (d + 1)) };
                match ref_node(&blocks, d, o) { Some(rn) => if rn.1[..] != nd.hash[..] || rn.2 != nd.length { return Some(format!("served node {} differs from the reference node", nd.index)); }, None => return Some(format!("served node {} is not a full node of {n} blocks", nd.index)) }
            }
        }
        // 2. after the history: force the pending nodes to disk, then compare every full node with its record in the tree file
        // make_read_only flushes bitfield, tree and oplog unconditionally
        if let Err(e) = block_on(core.make_read_only()) { return Some(format!("make_read_only: {e}")); }
        drop(core);
        let files = disk.files();
        let tree = &files[0];
        let n = blocks.len() as u64;
        if n == 0 { return None; }
        // every root and every full node whose record lies inside the file
        let mut d = 0u32;
        while (1u64 << d) <= n {
            let mut o = 0u64;
            while let Some(rn) = ref_node(&blocks, d, o) {
                let at = (rn.0 * 40) as usize;
                if at + 40 <= tree.len() && tree[at..at + 40].iter().any(|b| *b != 0) {
                    if tree[at..at + 8] != rn.2.to_le_bytes()[..] || tree[at + 8..at + 40] != rn.1[..] { return Some(format!("tree record of node {} differs from the reference (size/hash)", rn.0)); }
                }
                o += 1;
            }
            d += 1;
        }
        for rn in ref_roots(&blocks) { let at = (rn.0 * 40) as usize; if at + 40 > tree.len() { return Some(format!("root {} is not in the tree file", rn.0)); }
            if tree[at..at + 8] != rn.2.to_le_bytes()[..] || tree[at + 8..at + 40] != rn.1[..] { return Some(format!("tree record of root {} differs from the reference", rn.0)); } }
        None
    });
    match r { Ok(x) => x, Err(p) => Some(format!("panic: {p}")) }
}
fn gen(rng: &mut Rng) -> Vec<Step> {
    let mut steps = vec![];
    for _ in 0..(1 + rng.below(8)) {
        if rng.chance(1, 5) { steps.push(Step::Reopen); } else { let k = 1 + rng.below(5) as usize; steps.push(Step::Append((0..k).map(|_| rng.pick(&[0usize, 1, 3, 20, 300])).collect())); }
    }
    steps
}
fn search_merkle(rng: &mut Rng, budget: usize) -> Option<String> {
    let fixed = ["a1", "a1;a1", "a1,0,3", "a1;a1;a1;a1;a1", "a3;r;a4;a1", "a1,1,1,1,1,1,1,1;a1", "a16x2;a1;r;a15x1", "a33x1"];
    for f in fixed { let st = dec(f); if let Some(m) = merkle_check(&st) { return Some(format!("{{\"history\":\"{}\",\"why\":\"{}\"}}|{}", f, m, f)); } }
    for _ in 0..budget.min(40) { let st = gen(rng); if let Some(m) = merkle_check(&st) { let e = enc(&st); return Some(format!("{{\"history\":\"{}\",\"why\":\"{}\"}}|{}", e, m, e)); } }
    None
}
fn rerun_merkle(input: &str) -> Option<String> { merkle_check(&dec(input.rsplit('|').next().unwrap())) }

pub fn contracts() -> Vec<Contract> {
    vec![Contract { name: "merkle.reference_tree", covers: &["Hash::data", "Hash::parent", "Hash::tree", "fn signable_tree", "MerkleTreeChangeset::append", "MerkleTreeChangeset::append_root", "MerkleTreeChangeset::hash_and_sign",
        "MerkleTreeChangeset::signable", "MerkleTreeChangeset::hash", "MerkleTree::flush_nodes", "MerkleTree::commit", "MerkleTree::open", "MerkleTree::truncate", "Hypercore::new", "MerkleTree::create_valueless_proof", "fn node_from_bytes", "fn block_node", "fn parent_node"],
        search: search_merkle, rerun: rerun_merkle }]
}
