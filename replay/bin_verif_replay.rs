fn main() {
    let args: Vec<String> = std::env::args().skip(1).collect();
    std::process::exit(hypercore::verif_exec::main_entry(args));
}
