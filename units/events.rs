// unit events: src/replication/events.rs (the event channel of a core) against an assumed model of async-broadcast   C13
#![feature(allocator_api)]
use vstd::prelude::*;
verus! {

//@include shim/std_gaps.rs
//@include shim/compact_encoding.rs
pub use compact_encoding::*;
broadcast use vp_std::group_std_gaps;
//@include shim/common_types.rs
//@include shim/errors.rs

// ---- ASSUMED model of the dependency async-broadcast 0.7 (sender side): what the channel has accepted for delivery,
// ---- whether it is closed, its capacity.  Interior mutability of the real channel is modelled by `&mut self` (rule R12:
// ---- `Events::send` / `send_on_get` take `&mut self` here; every call site holds `&mut Hypercore`).
pub mod async_broadcast {
use vstd::prelude::*;
pub struct Chan<T> { pub sent: Seq<T>, pub closed: bool, pub cap: usize, pub await_active: bool }
#[verifier::external_body]
#[verifier::reject_recursive_types(T)]
pub struct Sender<T> { _p: core::marker::PhantomData<T> }
#[verifier::external_body]
#[verifier::reject_recursive_types(T)]
pub struct Receiver<T> { _p: core::marker::PhantomData<T> }
#[verifier::external_body]
#[verifier::reject_recursive_types(T)]
pub struct InactiveReceiver<T> { _p: core::marker::PhantomData<T> }
pub enum TrySendError<T> { Full(T), Closed(T), Inactive(T) }
impl<T> TrySendError<T> {
    pub fn is_full(&self) -> (r: bool) ensures r == (self is Full) { match self { TrySendError::Full(_) => true, _ => false } }
    pub fn is_closed(&self) -> (r: bool) ensures r == (self is Closed) { match self { TrySendError::Closed(_) => true, _ => false } }
    /// "disconnected" = there is no active receiver at the moment
    pub fn is_disconnected(&self) -> (r: bool) ensures r == (self is Inactive) { match self { TrySendError::Inactive(_) => true, _ => false } }
}
impl<T> Sender<T> {
    pub uninterp spec fn view(&self) -> Chan<T>;
    #[verifier::external_body]
    pub fn set_await_active(&mut self, v: bool)
        ensures final(self)@ == (Chan { await_active: v, ..old(self)@ })
    { unimplemented!() }
    /// a message is either accepted for every active receiver (Ok) or handed back (Err: closed, no active receiver, or full
    /// without overflow); the call itself never closes the channel
    #[verifier::external_body]
    pub fn try_broadcast(&mut self, msg: T) -> (r: Result<Option<T>, TrySendError<T>>)
        ensures
            final(self)@.closed == old(self)@.closed, final(self)@.cap == old(self)@.cap, final(self)@.await_active == old(self)@.await_active,
            old(self)@.closed ==> r is Err,
            r is Ok ==> final(self)@.sent == old(self)@.sent.push(msg),
            r is Err ==> final(self)@.sent == old(self)@.sent
    { unimplemented!() }
    #[verifier::external_body]
    pub fn close(&mut self) -> (r: bool)
        ensures final(self)@ == (Chan { closed: true, ..old(self)@ })
    { unimplemented!() }
    #[verifier::external_body]
    pub fn new_receiver(&self) -> (r: Receiver<T>) { unimplemented!() }
    #[verifier::external_body]
    pub fn is_closed(&self) -> (r: bool) ensures r == self@.closed { unimplemented!() }
}
impl<T> Clone for Sender<T> {
    #[verifier::external_body]
    fn clone(&self) -> (r: Self) ensures r@ == self@ { unimplemented!() }
}
impl<T> Receiver<T> {
    #[verifier::external_body]
    pub fn deactivate(self) -> (r: InactiveReceiver<T>) ensures !r.overflow() { unimplemented!() }
}
impl<T> InactiveReceiver<T> {
    /// overflow mode: when the queue is full the oldest undrained message is dropped instead of refusing the new one
    pub uninterp spec fn overflow(&self) -> bool;
    #[verifier::external_body]
    pub fn set_overflow(&mut self, v: bool) ensures final(self).overflow() == v { unimplemented!() }
}
#[verifier::external_body]
pub fn broadcast<T>(cap: usize) -> (r: (Sender<T>, Receiver<T>))
    requires cap > 0
    ensures r.0@ == (Chan { sent: Seq::<T>::empty(), closed: false, cap: cap, await_active: true })
{ unimplemented!() }
}
pub use async_broadcast::{broadcast, InactiveReceiver, Receiver, Sender};

/*@ item src/replication/events.rs static MAX_EVENT_QUEUE_CAPACITY @*/
/*@ item src/replication/events.rs struct Get @*/
/*@ item src/replication/events.rs struct DataUpgrade @*/
/*@ item src/replication/events.rs struct Have @*/
/*@ item src/replication/events.rs enum Event @*/
impl vstd::std_specs::convert::FromSpecImpl<Get> for Event {
    open spec fn obeys_from_spec() -> bool { true }
    open spec fn from_spec(v: Get) -> Self { Event::Get(v) }
}
impl vstd::std_specs::convert::FromSpecImpl<DataUpgrade> for Event {
    open spec fn obeys_from_spec() -> bool { true }
    open spec fn from_spec(v: DataUpgrade) -> Self { Event::DataUpgrade(v) }
}
impl vstd::std_specs::convert::FromSpecImpl<Have> for Event {
    open spec fn obeys_from_spec() -> bool { true }
    open spec fn from_spec(v: Have) -> Self { Event::Have(v) }
}
/*@ item src/replication/events.rs macro impl_from_for_enum_variant
sub `(?s)=> \{\s*impl From` => `=> { verus! { impl From`
sub `(?s)\}\s*\};\s*\}\s*$` => `} } }; }`
@*/
/*@ item src/replication/events.rs invoke impl_from_for_enum_variant @*/
/*@ item src/replication/events.rs struct Events @*/

impl Events {
    /// the channel is open and in the mode C13 relies on: best-effort sends, the oldest undrained event is dropped on overflow
    pub open spec fn wf(&self) -> bool { !self.channel@.closed && !self.channel@.await_active && self._receiver.overflow() && self.channel@.cap >= 32 }

    /*@ fn src/replication/events.rs Events::new
    tags: C13
    result: r
    ensures:
        // C13: an open channel that holds the 32 undrained events a subscriber may lag by, nothing sent yet
        r.wf(), r.channel@.sent.len() == 0
    first:
        let vp_cap: usize = MAX_EVENT_QUEUE_CAPACITY;
    @*/
    /*@ fn src/replication/events.rs Events::send
    tags: C13
    result: r
    sub `fn send<T: Into<Event>>\(&self, evt: T\)` => `fn send<T: Into<Event>>(&mut self, evt: T)`
    ensures:
        // C13: announcing is best effort - it never fails the operation, never closes or reconfigures the channel, and
        // broadcasts at most the one event it was given (exactly that one whenever the channel accepts it)
        r is Ok, final(self).wf() == old(self).wf(), final(self)._receiver == old(self)._receiver,
        final(self).channel@.closed == old(self).channel@.closed,
        final(self).channel@.sent == old(self).channel@.sent
            || (exists|e: Event| call_ensures(<T as Into<Event>>::into, (evt,), e) && final(self).channel@.sent == old(self).channel@.sent.push(e))
    @*/
    /*@ fn src/replication/events.rs Events::send_on_get
    tags: C13
    result: r
    sub `fn send_on_get\(&self, index: u64\)` => `fn send_on_get(&mut self, index: u64)`
    ensures:
        final(self).wf() == old(self).wf(), final(self).channel@.closed == old(self).channel@.closed,
        // C13: a read of a block that is not held announces one get event carrying that index
        final(self).channel@.sent == old(self).channel@.sent
            || (final(self).channel@.sent.len() == old(self).channel@.sent.len() + 1 && final(self).channel@.sent.last() is Get
                && final(self).channel@.sent.last()->Get_0.index == index
                && final(self).channel@.sent.subrange(0, old(self).channel@.sent.len() as int) == old(self).channel@.sent)
    @*/
}

} // verus!
fn main() {}
