// unit bitfield_fixed: src/bitfield/fixed.rs against the bit-exact view
#![feature(allocator_api)]
use vstd::prelude::*;
verus! {

//@include shim/std_gaps.rs

/*@ item src/bitfield/fixed.rs const FIXED_BITFIELD_LENGTH @*/
/*@ item src/bitfield/fixed.rs const FIXED_BITFIELD_BYTES_LENGTH @*/
/*@ item src/bitfield/fixed.rs const FIXED_BITFIELD_BITS_LENGTH @*/
/*@ item src/bitfield/fixed.rs const FIXED_BITFIELD_BITS_PER_ELEM @*/

/*@ item src/bitfield/fixed.rs struct FixedBitfield @*/

pub open spec fn bit_of(w: u32, o: u32) -> bool { (w >> o) & 1 == 1 }
// JS layout of a page: bit k of the page is bit (k % 8) of byte k / 8 (little-endian words)
pub open spec fn bytes_bit(s: Seq<u8>, k: int) -> bool { (s[k / 8] >> ((k % 8) as u8)) & 1 == 1 }

pub proof fn lemma_word_bytes(w: u32, b0: u8, b1: u8, b2: u8, b3: u8)
    requires w == (b0 as u32) | ((b1 as u32) << 8) | ((b2 as u32) << 16) | ((b3 as u32) << 24)
    ensures
        forall|o: u32| o < 8 ==> #[trigger] bit_of(w, o) == ((b0 >> (o as u8)) & 1 == 1),
        forall|o: u32| 8 <= o < 16 ==> #[trigger] bit_of(w, o) == ((b1 >> ((o - 8) as u8)) & 1 == 1),
        forall|o: u32| 16 <= o < 24 ==> #[trigger] bit_of(w, o) == ((b2 >> ((o - 16) as u8)) & 1 == 1),
        forall|o: u32| 24 <= o < 32 ==> #[trigger] bit_of(w, o) == ((b3 >> ((o - 24) as u8)) & 1 == 1),
{
    assert(forall|o: u32| o < 8 ==> #[trigger] bit_of(w, o) == ((b0 >> (o as u8)) & 1 == 1)) by (bit_vector)
        requires w == (b0 as u32) | ((b1 as u32) << 8) | ((b2 as u32) << 16) | ((b3 as u32) << 24);
    assert(forall|o: u32| 8 <= o < 16 ==> #[trigger] bit_of(w, o) == ((b1 >> ((o - 8) as u8)) & 1 == 1)) by (bit_vector)
        requires w == (b0 as u32) | ((b1 as u32) << 8) | ((b2 as u32) << 16) | ((b3 as u32) << 24);
    assert(forall|o: u32| 16 <= o < 24 ==> #[trigger] bit_of(w, o) == ((b2 >> ((o - 16) as u8)) & 1 == 1)) by (bit_vector)
        requires w == (b0 as u32) | ((b1 as u32) << 8) | ((b2 as u32) << 16) | ((b3 as u32) << 24);
    assert(forall|o: u32| 24 <= o < 32 ==> #[trigger] bit_of(w, o) == ((b3 >> ((o - 24) as u8)) & 1 == 1)) by (bit_vector)
        requires w == (b0 as u32) | ((b1 as u32) << 8) | ((b2 as u32) << 16) | ((b3 as u32) << 24);
}

pub proof fn lemma_byte_of(w: u32)
    ensures w == (byte_of(w, 0) as u32) | ((byte_of(w, 1) as u32) << 8) | ((byte_of(w, 2) as u32) << 16) | ((byte_of(w, 3) as u32) << 24)
{
    assert(w == ((((w >> 0u32) & 0xff) as u8) as u32) | (((((w >> 8u32) & 0xff) as u8) as u32) << 8)
        | (((((w >> 16u32) & 0xff) as u8) as u32) << 16) | (((((w >> 24u32) & 0xff) as u8) as u32) << 24)) by (bit_vector);
}

impl FixedBitfield {
    pub open spec fn bit(&self, i: int) -> bool
        recommends 0 <= i < 32768
    {
        bit_of(self.bitfield@[i / 32], (i % 32) as u32)
    }

    /*@ fn src/bitfield/fixed.rs FixedBitfield::new
    tags: C08 C01
    result: r
    ensures:
        !r.dirty,
        forall|k: int| 0 <= k < 32768 ==> !r.bit(k)
    first:
        assert(forall|o: u32| o < 32 ==> !bit_of(0u32, o)) by (bit_vector);
    @*/

    /*@ fn src/bitfield/fixed.rs FixedBitfield::get
    tags: C08 C01
    result: r
    requires:
        index < 32768
    ensures:
        r == self.bit(index as int)
    after `let offset = index & (n - 1);`:
        assert(index & 31 == index % 32) by (bit_vector);
        assert(index & 31 <= index) by (bit_vector);
    before `self.bitfield[i] & (1 << offset) != 0`:
        let ghost w = self.bitfield@[i as int];
        assert((w & (1u32 << offset) != 0) == ((w >> offset) & 1 == 1)) by (bit_vector)
            requires offset < 32;
    @*/

    /*@ fn src/bitfield/fixed.rs FixedBitfield::set
    tags: C08 C01
    result: r
    requires:
        index < 32768
    ensures:
        forall|k: int| 0 <= k < 32768 ==> final(self).bit(k) == (if k == index { value } else { old(self).bit(k) }),
        r == (old(self).bit(index as int) != value),
        final(self).dirty == old(self).dirty
    after `let offset = index & (n - 1);`:
        assert(index & 31 == index % 32) by (bit_vector);
        assert(index & 31 <= index) by (bit_vector);
    after `let mask = 1 << offset;`:
        let ghost w0 = self.bitfield@[i as int];
        assert((w0 & (1u32 << offset) != 0) == bit_of(w0, offset)) by (bit_vector)
            requires offset < 32;
        assert((w0 & (1u32 << offset) == 0) == !bit_of(w0, offset)) by (bit_vector)
            requires offset < 32;
        assert(forall|o: u32| o < 32 ==> bit_of(w0 ^ (1u32 << offset), o)
            == (if o == offset { !bit_of(w0, o) } else { bit_of(w0, o) })) by (bit_vector)
            requires offset < 32;
    @*/

    /*@ fn src/bitfield/fixed.rs FixedBitfield::set_range
    tags: C08 C01
    result: r
    requires:
        start as int + length as int <= 32768
    ensures:
        forall|k: int| 0 <= k < 32768 ==> final(self).bit(k)
            == (if start <= k < start + length { value } else { old(self).bit(k) }),
        r == (final(self).bitfield@ != old(self).bitfield@),
        final(self).dirty == old(self).dirty
    after `let mut offset = start & (n - 1);`:
        assert(start & 31 == start % 32) by (bit_vector);
        assert(start & 31 <= start) by (bit_vector);
    loop 1:
        invariant
            n == 32, end == start + length, end <= 32768,
            offset < 32, i <= 1024,
            remaining == end as int - (32 * i as int + offset as int),
            start as int <= 32 * i as int + offset as int,
            offset == 0 || 32 * i as int + offset as int == start as int,
            self.dirty == old(self).dirty,
            forall|j: int| i as int <= j < 1024 ==> self.bitfield@[j] == old(self).bitfield@[j],
            forall|k: int| 0 <= k < 32 * i as int ==> self.bit(k)
                == (if start <= k < end { value } else { old(self).bit(k) }),
            changed ==> (exists|j: int| 0 <= j < i as int && self.bitfield@[j] != old(self).bitfield@[j]),
            !changed ==> self.bitfield@ == old(self).bitfield@
        decreases 1024 - i
    before `let mask_seed = if power == 32 {`:
        assert(power as int == (if remaining <= 32 - offset { remaining as int } else { 32 - offset as int }));
        proof {
            if power < 32 {
                vstd::arithmetic::power2::lemma_pow2(power as nat);
                vstd::bits::lemma_u32_pow2_no_overflow(power as nat);
                vstd::arithmetic::power2::lemma_pow2_pos(power as nat);
            }
        }
    after `let mask: u32 = mask_seed << offset;`:
        let ghost w = self.bitfield@[i as int];
        let ghost iw = i as int;
        let ghost snap = self.bitfield@;
        let ghost self0 = *self;
        assert(i < 1024);
        assert(forall|o: u32| o < 32 ==> bit_of(mask, o) == (offset <= o && (o as int) < offset as int + power as int)) by {
            if power == 32 {
                assert(offset == 0);
                assert(forall|o: u32| o < 32 ==> bit_of(0xffff_ffffu32 << 0u32, o)) by (bit_vector);
            } else {
                vstd::arithmetic::power2::lemma_pow2(power as nat);
                vstd::bits::lemma_u32_shl_is_mul(1u32, power);
                vstd::bits::lemma_u32_pow2_no_overflow(power as nat);
                assert(mask_seed == ((1u32 << power) - 1) as u32);
                assert(forall|o: u32| o < 32 ==> #[trigger] bit_of(mask, o)
                    == (offset <= o && o < offset + power)) by (bit_vector)
                    requires offset < 32, power < 32, offset + power <= 32,
                        mask == ((((1u32 << power) - 1) as u32) << offset);
            }
        }
        assert(forall|o: u32| o < 32 ==> bit_of(w | mask, o) == (bit_of(w, o) || bit_of(mask, o))) by (bit_vector);
        assert(forall|o: u32| o < 32 ==> bit_of(w & !mask, o) == (bit_of(w, o) && !bit_of(mask, o))) by (bit_vector);
        assert(((w & mask) != mask) ==> ((w | mask) != w)) by (bit_vector);
        assert(((w & mask) != 0) ==> ((w & !mask) != w)) by (bit_vector);
        assert(((w & mask) == mask) ==> (forall|o: u32| o < 32 && bit_of(mask, o) ==> bit_of(w, o))) by (bit_vector);
        assert(((w & mask) == 0) ==> (forall|o: u32| o < 32 && bit_of(mask, o) ==> !bit_of(w, o))) by (bit_vector);
    before `remaining -= (n - offset) as i64;`:
        assert forall|k: int| 0 <= k < 32 * iw + 32 implies #[trigger] self.bit(k)
                == (if start <= k < end { value } else { old(self).bit(k) }) by {
            if k < 32 * iw {
                assert(k / 32 < iw);
                assert(self.bitfield@[k / 32] == snap[k / 32]);
                assert(self.bit(k) == self0.bit(k));
            } else {
                assert(k / 32 == iw);
                let o = (k % 32) as u32;
                assert(o < 32);
                assert(old(self).bitfield@[iw] == w);
                assert(k == 32 * iw + o);
                assert(old(self).bit(k) == bit_of(w, o));
                assert(self.bit(k) == bit_of(self.bitfield@[iw], o));
                assert(bit_of(mask, o) == (offset <= o && (o as int) < offset as int + power as int));
                assert(bit_of(mask, o) == (start <= k < end));
            }
        }
    @*/

    /*@ fn src/bitfield/fixed.rs FixedBitfield::from_data
    tags: C08 C01 C06
    result: r
    requires:
        data_index + 4096 <= usize::MAX
    ensures:
        !r.dirty,
        forall|k: int| 0 <= k < 32768 ==> #[trigger] r.bit(k)
            == (data_index + 4 * (k / 32) + 4 <= data@.len() && bytes_bit(data@, 8 * data_index + k))
    first:
        assert(forall|o: u32| o < 32 ==> !bit_of(0u32, o)) by (bit_vector);
    loop 1:
        invariant
            data_index <= i <= limit + 4,
            (i - data_index) % 4 == 0,
            limit == (if data_index + 4096 <= data@.len() { data_index + 4096 } else { data@.len() as int }) - 4,
            data@.len() >= data_index + 4,
            forall|j: int| (i - data_index) / 4 <= j < 1024 ==> bitfield@[j] == 0u32,
            forall|k: int| 0 <= k < 8 * (i - data_index) ==> #[trigger] bit_of(bitfield@[k / 32], (k % 32) as u32)
                == bytes_bit(data@, 8 * data_index + k)
        decreases limit + 4 - i
    before `bitfield[(i - data_index) / 4] = value;`:
        let ghost bf0 = bitfield@;
        let ghost wi = (i - data_index) / 4;
    before `i += 4;`:
        proof {
            lemma_word_bytes(value, data@[i as int], data@[i + 1], data@[i + 2], data@[i + 3]);
            assert forall|k: int| 0 <= k < 8 * (i + 4 - data_index) implies
                #[trigger] bit_of(bitfield@[k / 32], (k % 32) as u32) == bytes_bit(data@, 8 * data_index + k) by {
                if k < 8 * (i - data_index) {
                    assert(k / 32 < wi);
                    assert(bitfield@[k / 32] == bf0[k / 32]);
                } else {
                    assert(k / 32 == wi);
                    let o = (k % 32) as u32;
                    assert(k == 32 * wi + o);
                    assert((8 * data_index + k) / 8 == i + o / 8);
                    assert((8 * data_index + k) % 8 == o % 8);
                    assert(bitfield@[wi] == value);
                }
            }
        }
    @*/

    /*@ fn src/bitfield/fixed.rs FixedBitfield::to_bytes
    tags: C08 C01 C06
    result: r
    ensures:
        r@.len() == 4096,
        forall|k: int| 0 <= k < 32768 ==> #[trigger] bytes_bit(r@, k) == self.bit(k)
    sub `for elem in self\.bitfield \{` => `for elem in it: self.bitfield.iter() {`
    sub `&elem\.to_le_bytes\(\)` => `&vp_u32_to_le_bytes(*elem)`
    loop 1:
        invariant
            i == 4 * it.index@,
            forall|k: int| 0 <= k < 8 * i ==> #[trigger] bytes_bit(data@, k) == self.bit(k)
    before `i += 4;`:
        proof {
            let ghost w = *elem;
            let ghost wi = it.index@ as int;
            assert(w == self.bitfield@[wi]);
            lemma_byte_of(w);
            lemma_word_bytes(w, byte_of(w, 0), byte_of(w, 1), byte_of(w, 2), byte_of(w, 3));
            assert forall|k: int| 0 <= k < 8 * (i + 4) implies #[trigger] bytes_bit(data@, k) == self.bit(k) by {
                if k < 8 * i {
                    assert(data@[k / 8] == data0[k / 8]);
                    assert(bytes_bit(data0, k) == self.bit(k));
                } else {
                    let o = (k % 32) as u32;
                    assert(k / 32 == wi);
                    assert(k / 8 == i + o / 8);
                    assert(k % 8 == o % 8);
                }
            }
        }
    before `data[i] = bytes[0];`:
        let ghost data0 = data@;
    @*/
}

} // verus!
fn main() {}
