// unit bitfield_fixed: src/bitfield/fixed.rs against the bit-exact view
use vstd::prelude::*;
verus! {

//@include shim/std_gaps.rs

/*@ item src/bitfield/fixed.rs const FIXED_BITFIELD_LENGTH @*/
/*@ item src/bitfield/fixed.rs const FIXED_BITFIELD_BYTES_LENGTH @*/
/*@ item src/bitfield/fixed.rs const FIXED_BITFIELD_BITS_LENGTH @*/
/*@ item src/bitfield/fixed.rs const FIXED_BITFIELD_BITS_PER_ELEM @*/

/*@ item src/bitfield/fixed.rs struct FixedBitfield @*/

pub open spec fn bit_of(w: u32, o: u32) -> bool { (w >> o) & 1 == 1 }

impl FixedBitfield {
    pub open spec fn bit(&self, i: int) -> bool
        recommends 0 <= i < 32768
    {
        bit_of(self.bitfield@[i / 32], (i % 32) as u32)
    }

    /*@ fn src/bitfield/fixed.rs FixedBitfield::new
    tags: C08 C01
    result: r
    ensures:
        !r.dirty,
        forall|k: int| 0 <= k < 32768 ==> !r.bit(k)
    first:
        assert(forall|o: u32| o < 32 ==> !bit_of(0u32, o)) by (bit_vector);
    @*/

    /*@ fn src/bitfield/fixed.rs FixedBitfield::get
    tags: C08 C01
    result: r
    requires:
        index < 32768
    ensures:
        r == self.bit(index as int)
    after `let offset = index & (n - 1);`:
        assert(index & 31 == index % 32) by (bit_vector);
        assert(index & 31 <= index) by (bit_vector);
    before `self.bitfield[i] & (1 << offset) != 0`:
        let ghost w = self.bitfield@[i as int];
        assert((w & (1u32 << offset) != 0) == ((w >> offset) & 1 == 1)) by (bit_vector)
            requires offset < 32;
    @*/

    /*@ fn src/bitfield/fixed.rs FixedBitfield::set
    tags: C08 C01
    result: r
    requires:
        index < 32768
    ensures:
        forall|k: int| 0 <= k < 32768 ==> final(self).bit(k) == (if k == index { value } else { old(self).bit(k) }),
        r == (old(self).bit(index as int) != value),
        final(self).dirty == old(self).dirty
    after `let offset = index & (n - 1);`:
        assert(index & 31 == index % 32) by (bit_vector);
        assert(index & 31 <= index) by (bit_vector);
    after `let mask = 1 << offset;`:
        let ghost w0 = self.bitfield@[i as int];
        assert((w0 & (1u32 << offset) != 0) == bit_of(w0, offset)) by (bit_vector)
            requires offset < 32;
        assert((w0 & (1u32 << offset) == 0) == !bit_of(w0, offset)) by (bit_vector)
            requires offset < 32;
        assert(forall|o: u32| o < 32 ==> bit_of(w0 ^ (1u32 << offset), o)
            == (if o == offset { !bit_of(w0, o) } else { bit_of(w0, o) })) by (bit_vector)
            requires offset < 32;
    @*/
}

} // verus!
fn main() {}
