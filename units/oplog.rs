// unit oplog: src/oplog/mod.rs against the JS oplog layout (two 4096-byte header slots, entries from 8192,
// 8-byte leader = LE32 crc ++ LE32 (len << 2 | partial << 1 | header bit))           C01 C02 C06 C07 C12
#![feature(allocator_api)]
use vstd::prelude::*;
verus! {

//@include shim/std_gaps.rs
//@include shim/compact_encoding.rs
//@include shim/fixedwidth.rs
//@include shim/flat_tree.rs
//@include shim/crypto.rs
//@include shim/either.rs
pub use compact_encoding::*;
pub use ed25519_dalek::{SigningKey, VerifyingKey, Signature, PUBLIC_KEY_LENGTH, SECRET_KEY_LENGTH};
broadcast use vp_std::group_std_gaps, compact_encoding::lemma_enc_uint_len, ed25519_dalek::group_key_lens, compact_encoding::axiom_enc_strings_empty;

/*@ item dep:compact-encoding-2.2.0/src/lib.rs macro sum_encoded_size @*/
/*@ item dep:compact-encoding-2.2.0/src/lib.rs macro map_encode @*/
/*@ item dep:compact-encoding-2.2.0/src/lib.rs macro map_decode @*/

//@include shim/common_types.rs
//@include shim/node_types.rs
//@include shim/oplog_format.rs
//@include shim/oplog_codec_assumed.rs
//@include shim/errors.rs
/*@ item src/tree/merkle_tree_changeset.rs struct MerkleTreeChangeset @*/

//@include frag/oplog.rs

} // verus!
fn main() {}
