// unit codec_wire: src/encoding.rs message impls against the compact-encoding format (C11)
#![feature(allocator_api)]
use vstd::prelude::*;
verus! {

//@include shim/std_gaps.rs
//@include shim/compact_encoding.rs
pub use compact_encoding::*;
broadcast use vp_std::group_std_gaps, compact_encoding::lemma_prefix_concat, compact_encoding::lemma_strict_prefix_concat, compact_encoding::lemma_enc_uint_len;

/*@ item dep:compact-encoding-2.2.0/src/lib.rs macro sum_encoded_size @*/
/*@ item dep:compact-encoding-2.2.0/src/lib.rs macro map_encode @*/
/*@ item dep:compact-encoding-2.2.0/src/lib.rs macro map_decode @*/

/*@ item src/common/peer.rs struct RequestBlock @*/
/*@ item src/common/peer.rs struct RequestSeek @*/
/*@ item src/common/peer.rs struct RequestUpgrade @*/

impl CompactEncoding for RequestBlock {
    open spec fn spec_enc(&self) -> Seq<u8> { Self::dec_enc(*self) }
    open spec fn dec_enc(d: Self) -> Seq<u8> { u64::dec_enc(d.index) + u64::dec_enc(d.nodes) }
    open spec fn enc_ok(&self) -> bool { true }
    open spec fn dec_ok(d: Self) -> bool { true }
    /*@ fn src/encoding.rs CompactEncoding for RequestBlock::encoded_size ; novis
    tags: C11
    @*/
    /*@ fn src/encoding.rs CompactEncoding for RequestBlock::encode ; novis
    tags: C11
    @*/
    /*@ fn src/encoding.rs CompactEncoding for RequestBlock::decode ; novis
    tags: C11
    @*/
}

impl CompactEncoding for RequestSeek {
    open spec fn spec_enc(&self) -> Seq<u8> { Self::dec_enc(*self) }
    open spec fn dec_enc(d: Self) -> Seq<u8> { u64::dec_enc(d.bytes) }
    open spec fn enc_ok(&self) -> bool { true }
    open spec fn dec_ok(d: Self) -> bool { true }
    /*@ fn src/encoding.rs CompactEncoding for RequestSeek::encoded_size ; novis
    tags: C11
    @*/
    /*@ fn src/encoding.rs CompactEncoding for RequestSeek::encode ; novis
    tags: C11
    @*/
    /*@ fn src/encoding.rs CompactEncoding for RequestSeek::decode ; novis
    tags: C11
    @*/
}

impl CompactEncoding for RequestUpgrade {
    open spec fn spec_enc(&self) -> Seq<u8> { Self::dec_enc(*self) }
    open spec fn dec_enc(d: Self) -> Seq<u8> { u64::dec_enc(d.start) + u64::dec_enc(d.length) }
    open spec fn enc_ok(&self) -> bool { true }
    open spec fn dec_ok(d: Self) -> bool { true }
    /*@ fn src/encoding.rs CompactEncoding for RequestUpgrade::encoded_size ; novis
    tags: C11
    @*/
    /*@ fn src/encoding.rs CompactEncoding for RequestUpgrade::encode ; novis
    tags: C11
    @*/
    /*@ fn src/encoding.rs CompactEncoding for RequestUpgrade::decode ; novis
    tags: C11
    @*/
}

} // verus!
fn main() {}
