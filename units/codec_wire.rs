// unit codec_wire: src/encoding.rs message impls against the compact-encoding format (C11)
#![feature(allocator_api)]
use vstd::prelude::*;
verus! {

//@include shim/std_gaps.rs
//@include shim/compact_encoding.rs
//@include shim/flat_tree.rs
pub use compact_encoding::*;
broadcast use vp_std::group_std_gaps, compact_encoding::lemma_prefix_concat, compact_encoding::lemma_strict_prefix_concat, compact_encoding::lemma_enc_uint_len;

/*@ item dep:compact-encoding-2.2.0/src/lib.rs macro sum_encoded_size @*/
/*@ item dep:compact-encoding-2.2.0/src/lib.rs macro map_encode @*/
/*@ item dep:compact-encoding-2.2.0/src/lib.rs macro map_decode @*/

/*@ item src/common/peer.rs struct RequestBlock @*/
/*@ item src/common/peer.rs struct RequestSeek @*/
/*@ item src/common/peer.rs struct RequestUpgrade @*/

impl CompactEncoding for RequestBlock {
    open spec fn spec_enc(&self) -> Seq<u8> { Self::dec_enc(*self) }
    open spec fn dec_enc(d: Self) -> Seq<u8> { u64::dec_enc(d.index) + u64::dec_enc(d.nodes) }
    open spec fn enc_ok(&self) -> bool { true }
    open spec fn dec_ok(d: Self) -> bool { true }
    open spec fn eqv(a: Self, b: Self) -> bool { a == b }
    /*@ fn src/encoding.rs CompactEncoding for RequestBlock::encoded_size ; novis
    tags: C11
    @*/
    /*@ fn src/encoding.rs CompactEncoding for RequestBlock::encode ; novis
    tags: C11
    @*/
    /*@ fn src/encoding.rs CompactEncoding for RequestBlock::decode ; novis
    tags: C11
    @*/
}

impl CompactEncoding for RequestSeek {
    open spec fn spec_enc(&self) -> Seq<u8> { Self::dec_enc(*self) }
    open spec fn dec_enc(d: Self) -> Seq<u8> { u64::dec_enc(d.bytes) }
    open spec fn enc_ok(&self) -> bool { true }
    open spec fn dec_ok(d: Self) -> bool { true }
    open spec fn eqv(a: Self, b: Self) -> bool { a == b }
    /*@ fn src/encoding.rs CompactEncoding for RequestSeek::encoded_size ; novis
    tags: C11
    @*/
    /*@ fn src/encoding.rs CompactEncoding for RequestSeek::encode ; novis
    tags: C11
    @*/
    /*@ fn src/encoding.rs CompactEncoding for RequestSeek::decode ; novis
    tags: C11
    @*/
}

impl CompactEncoding for RequestUpgrade {
    open spec fn spec_enc(&self) -> Seq<u8> { Self::dec_enc(*self) }
    open spec fn dec_enc(d: Self) -> Seq<u8> { u64::dec_enc(d.start) + u64::dec_enc(d.length) }
    open spec fn enc_ok(&self) -> bool { true }
    open spec fn dec_ok(d: Self) -> bool { true }
    open spec fn eqv(a: Self, b: Self) -> bool { a == b }
    /*@ fn src/encoding.rs CompactEncoding for RequestUpgrade::encoded_size ; novis
    tags: C11
    @*/
    /*@ fn src/encoding.rs CompactEncoding for RequestUpgrade::encode ; novis
    tags: C11
    @*/
    /*@ fn src/encoding.rs CompactEncoding for RequestUpgrade::decode ; novis
    tags: C11
    @*/
}

// ---------------- Node (src/common/node.rs) ----------------
/*@ item src/common/node.rs struct Node @*/
pub open spec fn all_zero(s: Seq<u8>) -> bool { forall|i: int| 0 <= i < s.len() ==> s[i] == 0u8 }
impl Node {
    /// what Node::new produces: derived fields are functions of (index, hash)
    pub open spec fn canonical(&self) -> bool {
        &&& self.parent == flat_tree::spec_parent(self.index)
        &&& self.data is Some && self.data->Some_0@.len() == 0
        &&& self.blank == all_zero(self.hash@)
    }
    /*@ fn src/common/node.rs Node::new
    tags: C11 C05 C04 C03 C01
    result: r
    ensures:
        r.index == index, r.hash@ == hash@, r.length == length, r.canonical()
    sub `for byte in &hash \{` => `for byte in it: hash.iter() {`
    loop 1:
        invariant_except_break
            blank,
            forall|i: int| 0 <= i < it.index@ ==> hash@[i] == 0u8
        ensures
            blank == all_zero(hash@)
    after `blank = false;`:
        assert(hash@[it.index@ as int] != 0u8);
    @*/
}
impl CompactEncoding for Node {
    open spec fn spec_enc(&self) -> Seq<u8> { Self::dec_enc(*self) }
    open spec fn dec_enc(d: Self) -> Seq<u8> { u64::dec_enc(d.index) + u64::dec_enc(d.length) + d.hash@ }
    open spec fn enc_ok(&self) -> bool { self.hash@.len() == 32 }
    open spec fn dec_ok(d: Self) -> bool { d.hash@.len() == 32 && d.canonical() }
    open spec fn eqv(a: Self, b: Self) -> bool { a.index == b.index && a.length == b.length && a.hash@ =~= b.hash@ && a.parent == b.parent && a.blank == b.blank && a.data is Some == b.data is Some && (a.data is Some ==> a.data->Some_0@ =~= b.data->Some_0@) }
    /*@ fn src/encoding.rs CompactEncoding for Node::encoded_size ; novis
    tags: C11
    result: r
    ensures:
        r is Ok ==> r->Ok_0 <= 50
    @*/
    /*@ fn src/encoding.rs CompactEncoding for Node::encode ; novis
    tags: C11
    @*/
    /*@ fn src/encoding.rs CompactEncoding for Node::decode ; novis
    tags: C11
    last:
        proof {
            assert forall|d: Node| Self::dec_ok(d) && (#[trigger] Self::dec_enc(d)).is_prefix_of(buffer@) implies
                index == d.index && length == d.length && hash@ == d.hash@ by {
                let a = u64::dec_enc(d.index); let b = u64::dec_enc(d.length);
                assert((a + b).is_prefix_of(buffer@));
                assert(d.hash@.is_prefix_of(buffer@.skip((a + b).len() as int)));
                assert(d.hash@ =~= buffer@.skip((a + b).len() as int).subrange(0, 32));
            }
        }
    @*/
}

impl VecEncodable for Node {
    /*@ fn src/encoding.rs VecEncodable for Node::vec_encoded_size ; novis
    tags: C11
    sub `for x in vec \{` => `for x in it: vec.iter() {`
    loop 1:
        invariant
            out <= 9 + it.index@ * 50,
            vec@.len() <= SIZE_BOUND,
            all_enc_ok(vec@) ==> out == enc_uint(vec@.len() as u64).len() + enc_seq(vec@.subrange(0, it.index@ as int)).len()
    before `out += x.encoded_size()?;`:
        proof {
            lemma_enc_seq_push(vec@.subrange(0, it.index@ as int), *x);
            assert(vec@.subrange(0, it.index@ + 1) =~= vec@.subrange(0, it.index@ as int).push(*x));
        }
    last:
        assert(vec@.subrange(0, vec@.len() as int) =~= vec@);
    @*/
}

/*@ item src/common/peer.rs struct DataBlock @*/
impl CompactEncoding for DataBlock {
    open spec fn spec_enc(&self) -> Seq<u8> { Self::dec_enc(*self) }
    open spec fn dec_enc(d: Self) -> Seq<u8> { <u64>::dec_enc(d.index) + <Vec<u8>>::dec_enc(d.value) + <Vec<Node>>::dec_enc(d.nodes) }
    open spec fn enc_ok(&self) -> bool { self.index.enc_ok() && self.value.enc_ok() && self.nodes.enc_ok() }
    open spec fn dec_ok(d: Self) -> bool { <u64>::dec_ok(d.index) && <Vec<u8>>::dec_ok(d.value) && <Vec<Node>>::dec_ok(d.nodes) }
    open spec fn eqv(a: Self, b: Self) -> bool { <u64>::eqv(a.index, b.index) && <Vec<u8>>::eqv(a.value, b.value) && <Vec<Node>>::eqv(a.nodes, b.nodes) }
    /*@ fn src/encoding.rs CompactEncoding for DataBlock::encoded_size ; novis
    tags: C11
    @*/
    /*@ fn src/encoding.rs CompactEncoding for DataBlock::encode ; novis
    tags: C11
    @*/
    /*@ fn src/encoding.rs CompactEncoding for DataBlock::decode ; novis
    tags: C11
    @*/
}

/*@ item src/common/peer.rs struct DataHash @*/
impl CompactEncoding for DataHash {
    open spec fn spec_enc(&self) -> Seq<u8> { Self::dec_enc(*self) }
    open spec fn dec_enc(d: Self) -> Seq<u8> { <u64>::dec_enc(d.index) + <Vec<Node>>::dec_enc(d.nodes) }
    open spec fn enc_ok(&self) -> bool { self.index.enc_ok() && self.nodes.enc_ok() }
    open spec fn dec_ok(d: Self) -> bool { <u64>::dec_ok(d.index) && <Vec<Node>>::dec_ok(d.nodes) }
    open spec fn eqv(a: Self, b: Self) -> bool { <u64>::eqv(a.index, b.index) && <Vec<Node>>::eqv(a.nodes, b.nodes) }
    /*@ fn src/encoding.rs CompactEncoding for DataHash::encoded_size ; novis
    tags: C11
    @*/
    /*@ fn src/encoding.rs CompactEncoding for DataHash::encode ; novis
    tags: C11
    @*/
    /*@ fn src/encoding.rs CompactEncoding for DataHash::decode ; novis
    tags: C11
    @*/
}

/*@ item src/common/peer.rs struct DataSeek @*/
impl CompactEncoding for DataSeek {
    open spec fn spec_enc(&self) -> Seq<u8> { Self::dec_enc(*self) }
    open spec fn dec_enc(d: Self) -> Seq<u8> { <u64>::dec_enc(d.bytes) + <Vec<Node>>::dec_enc(d.nodes) }
    open spec fn enc_ok(&self) -> bool { self.bytes.enc_ok() && self.nodes.enc_ok() }
    open spec fn dec_ok(d: Self) -> bool { <u64>::dec_ok(d.bytes) && <Vec<Node>>::dec_ok(d.nodes) }
    open spec fn eqv(a: Self, b: Self) -> bool { <u64>::eqv(a.bytes, b.bytes) && <Vec<Node>>::eqv(a.nodes, b.nodes) }
    /*@ fn src/encoding.rs CompactEncoding for DataSeek::encoded_size ; novis
    tags: C11
    @*/
    /*@ fn src/encoding.rs CompactEncoding for DataSeek::encode ; novis
    tags: C11
    @*/
    /*@ fn src/encoding.rs CompactEncoding for DataSeek::decode ; novis
    tags: C11
    @*/
}

/*@ item src/common/peer.rs struct DataUpgrade @*/
impl CompactEncoding for DataUpgrade {
    open spec fn spec_enc(&self) -> Seq<u8> { Self::dec_enc(*self) }
    open spec fn dec_enc(d: Self) -> Seq<u8> { <u64>::dec_enc(d.start) + <u64>::dec_enc(d.length) + <Vec<Node>>::dec_enc(d.nodes) + <Vec<Node>>::dec_enc(d.additional_nodes) + <Vec<u8>>::dec_enc(d.signature) }
    open spec fn enc_ok(&self) -> bool { self.start.enc_ok() && self.length.enc_ok() && self.nodes.enc_ok() && self.additional_nodes.enc_ok() && self.signature.enc_ok() }
    open spec fn dec_ok(d: Self) -> bool { <u64>::dec_ok(d.start) && <u64>::dec_ok(d.length) && <Vec<Node>>::dec_ok(d.nodes) && <Vec<Node>>::dec_ok(d.additional_nodes) && <Vec<u8>>::dec_ok(d.signature) }
    open spec fn eqv(a: Self, b: Self) -> bool { <u64>::eqv(a.start, b.start) && <u64>::eqv(a.length, b.length) && <Vec<Node>>::eqv(a.nodes, b.nodes) && <Vec<Node>>::eqv(a.additional_nodes, b.additional_nodes) && <Vec<u8>>::eqv(a.signature, b.signature) }
    /*@ fn src/encoding.rs CompactEncoding for DataUpgrade::encoded_size ; novis
    tags: C11
    @*/
    /*@ fn src/encoding.rs CompactEncoding for DataUpgrade::encode ; novis
    tags: C11
    @*/
    /*@ fn src/encoding.rs CompactEncoding for DataUpgrade::decode ; novis
    tags: C11
    @*/
}

} // verus!
fn main() {}
