// unit codec_wire: src/encoding.rs message impls against the compact-encoding format (C11)
#![feature(allocator_api)]
use vstd::prelude::*;
verus! {

//@include shim/std_gaps.rs
//@include shim/compact_encoding.rs
//@include shim/flat_tree.rs
pub use compact_encoding::*;
broadcast use vp_std::group_std_gaps, compact_encoding::lemma_enc_uint_len;
/*@ default-first broadcast use compact_encoding::lemma_prefix_concat, compact_encoding::lemma_strict_prefix_concat, compact_encoding::lemma_pfx_len, compact_encoding::lemma_pfx_empty; @*/

/*@ item dep:compact-encoding-2.2.0/src/lib.rs macro sum_encoded_size @*/
/*@ item dep:compact-encoding-2.2.0/src/lib.rs macro map_encode @*/
/*@ item dep:compact-encoding-2.2.0/src/lib.rs macro map_decode @*/

/*@ item src/common/peer.rs struct RequestBlock @*/
/*@ item src/common/peer.rs struct RequestSeek @*/
/*@ item src/common/peer.rs struct RequestUpgrade @*/

impl CompactEncoding for RequestBlock {
    open spec fn spec_enc(&self) -> Seq<u8> { Self::dec_enc(*self) }
    open spec fn dec_enc(d: Self) -> Seq<u8> { u64::dec_enc(d.index) + u64::dec_enc(d.nodes) }
    open spec fn enc_ok(&self) -> bool { true }
    open spec fn dec_ok(d: Self) -> bool { true }
    open spec fn eqv(a: Self, b: Self) -> bool { a == b }
    /*@ fn src/encoding.rs CompactEncoding for RequestBlock::encoded_size ; novis
    tags: C11
    @*/
    /*@ fn src/encoding.rs CompactEncoding for RequestBlock::encode ; novis
    tags: C11
    @*/
    /*@ fn src/encoding.rs CompactEncoding for RequestBlock::decode ; novis
    tags: C11
    @*/
}

impl CompactEncoding for RequestSeek {
    open spec fn spec_enc(&self) -> Seq<u8> { Self::dec_enc(*self) }
    open spec fn dec_enc(d: Self) -> Seq<u8> { u64::dec_enc(d.bytes) }
    open spec fn enc_ok(&self) -> bool { true }
    open spec fn dec_ok(d: Self) -> bool { true }
    open spec fn eqv(a: Self, b: Self) -> bool { a == b }
    /*@ fn src/encoding.rs CompactEncoding for RequestSeek::encoded_size ; novis
    tags: C11
    @*/
    /*@ fn src/encoding.rs CompactEncoding for RequestSeek::encode ; novis
    tags: C11
    @*/
    /*@ fn src/encoding.rs CompactEncoding for RequestSeek::decode ; novis
    tags: C11
    @*/
}

impl CompactEncoding for RequestUpgrade {
    open spec fn spec_enc(&self) -> Seq<u8> { Self::dec_enc(*self) }
    open spec fn dec_enc(d: Self) -> Seq<u8> { u64::dec_enc(d.start) + u64::dec_enc(d.length) }
    open spec fn enc_ok(&self) -> bool { true }
    open spec fn dec_ok(d: Self) -> bool { true }
    open spec fn eqv(a: Self, b: Self) -> bool { a == b }
    /*@ fn src/encoding.rs CompactEncoding for RequestUpgrade::encoded_size ; novis
    tags: C11
    @*/
    /*@ fn src/encoding.rs CompactEncoding for RequestUpgrade::encode ; novis
    tags: C11
    @*/
    /*@ fn src/encoding.rs CompactEncoding for RequestUpgrade::decode ; novis
    tags: C11
    @*/
}

//@include shim/node_codec.rs

/*@ item src/common/peer.rs struct DataBlock @*/
impl CompactEncoding for DataBlock {
    open spec fn spec_enc(&self) -> Seq<u8> { Self::dec_enc(*self) }
    open spec fn dec_enc(d: Self) -> Seq<u8> { <u64>::dec_enc(d.index) + <Vec<u8>>::dec_enc(d.value) + <Vec<Node>>::dec_enc(d.nodes) }
    open spec fn enc_ok(&self) -> bool { self.index.enc_ok() && self.value.enc_ok() && self.nodes.enc_ok() }
    open spec fn dec_ok(d: Self) -> bool { <u64>::dec_ok(d.index) && <Vec<u8>>::dec_ok(d.value) && <Vec<Node>>::dec_ok(d.nodes) }
    open spec fn eqv(a: Self, b: Self) -> bool { <u64>::eqv(a.index, b.index) && <Vec<u8>>::eqv(a.value, b.value) && <Vec<Node>>::eqv(a.nodes, b.nodes) }
    /*@ fn src/encoding.rs CompactEncoding for DataBlock::encoded_size ; novis
    tags: C11
    @*/
    /*@ fn src/encoding.rs CompactEncoding for DataBlock::encode ; novis
    tags: C11
    @*/
    /*@ fn src/encoding.rs CompactEncoding for DataBlock::decode ; novis
    tags: C11
    @*/
}

/*@ item src/common/peer.rs struct DataHash @*/
impl CompactEncoding for DataHash {
    open spec fn spec_enc(&self) -> Seq<u8> { Self::dec_enc(*self) }
    open spec fn dec_enc(d: Self) -> Seq<u8> { <u64>::dec_enc(d.index) + <Vec<Node>>::dec_enc(d.nodes) }
    open spec fn enc_ok(&self) -> bool { self.index.enc_ok() && self.nodes.enc_ok() }
    open spec fn dec_ok(d: Self) -> bool { <u64>::dec_ok(d.index) && <Vec<Node>>::dec_ok(d.nodes) }
    open spec fn eqv(a: Self, b: Self) -> bool { <u64>::eqv(a.index, b.index) && <Vec<Node>>::eqv(a.nodes, b.nodes) }
    /*@ fn src/encoding.rs CompactEncoding for DataHash::encoded_size ; novis
    tags: C11
    @*/
    /*@ fn src/encoding.rs CompactEncoding for DataHash::encode ; novis
    tags: C11
    @*/
    /*@ fn src/encoding.rs CompactEncoding for DataHash::decode ; novis
    tags: C11
    @*/
}

/*@ item src/common/peer.rs struct DataSeek @*/
impl CompactEncoding for DataSeek {
    open spec fn spec_enc(&self) -> Seq<u8> { Self::dec_enc(*self) }
    open spec fn dec_enc(d: Self) -> Seq<u8> { <u64>::dec_enc(d.bytes) + <Vec<Node>>::dec_enc(d.nodes) }
    open spec fn enc_ok(&self) -> bool { self.bytes.enc_ok() && self.nodes.enc_ok() }
    open spec fn dec_ok(d: Self) -> bool { <u64>::dec_ok(d.bytes) && <Vec<Node>>::dec_ok(d.nodes) }
    open spec fn eqv(a: Self, b: Self) -> bool { <u64>::eqv(a.bytes, b.bytes) && <Vec<Node>>::eqv(a.nodes, b.nodes) }
    /*@ fn src/encoding.rs CompactEncoding for DataSeek::encoded_size ; novis
    tags: C11
    @*/
    /*@ fn src/encoding.rs CompactEncoding for DataSeek::encode ; novis
    tags: C11
    @*/
    /*@ fn src/encoding.rs CompactEncoding for DataSeek::decode ; novis
    tags: C11
    @*/
}

/*@ item src/common/peer.rs struct DataUpgrade @*/
impl CompactEncoding for DataUpgrade {
    open spec fn spec_enc(&self) -> Seq<u8> { Self::dec_enc(*self) }
    open spec fn dec_enc(d: Self) -> Seq<u8> { <u64>::dec_enc(d.start) + <u64>::dec_enc(d.length) + <Vec<Node>>::dec_enc(d.nodes) + <Vec<Node>>::dec_enc(d.additional_nodes) + <Vec<u8>>::dec_enc(d.signature) }
    open spec fn enc_ok(&self) -> bool { self.start.enc_ok() && self.length.enc_ok() && self.nodes.enc_ok() && self.additional_nodes.enc_ok() && self.signature.enc_ok() }
    open spec fn dec_ok(d: Self) -> bool { <u64>::dec_ok(d.start) && <u64>::dec_ok(d.length) && <Vec<Node>>::dec_ok(d.nodes) && <Vec<Node>>::dec_ok(d.additional_nodes) && <Vec<u8>>::dec_ok(d.signature) }
    open spec fn eqv(a: Self, b: Self) -> bool { <u64>::eqv(a.start, b.start) && <u64>::eqv(a.length, b.length) && <Vec<Node>>::eqv(a.nodes, b.nodes) && <Vec<Node>>::eqv(a.additional_nodes, b.additional_nodes) && <Vec<u8>>::eqv(a.signature, b.signature) }
    /*@ fn src/encoding.rs CompactEncoding for DataUpgrade::encoded_size ; novis
    tags: C11
    @*/
    /*@ fn src/encoding.rs CompactEncoding for DataUpgrade::encode ; novis
    tags: C11
    @*/
    /*@ fn src/encoding.rs CompactEncoding for DataUpgrade::decode ; novis
    tags: C11
    @*/
}

} // verus!
fn main() {}
