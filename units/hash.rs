// unit hash: src/crypto/hash.rs against the Hypercore v10 scheme     C05 C04
#![feature(allocator_api)]
use vstd::prelude::*;
verus! {

//@include shim/std_gaps.rs
//@include shim/compact_encoding.rs
//@include shim/fixedwidth.rs
//@include shim/flat_tree.rs
//@include shim/crypto.rs
pub use compact_encoding::*;
pub use ed25519_dalek::{SigningKey, VerifyingKey, Signature};
broadcast use vp_std::group_std_gaps, compact_encoding::lemma_enc_uint_len, ed25519_dalek::group_key_lens, crypto::axiom_blake2b_len;

//@include shim/common_types.rs
//@include shim/node_types.rs
//@include shim/errors.rs
//@include shim/hash.rs
//@include frag/keypair.rs
//@include shim/blake2.rs
//@include shim/node_trait.rs
//@include frag/hash.rs

} // verus!
fn main() {}
