// unit codec_header: src/oplog/header.rs and the Manifest impls of src/encoding.rs
// against the JS on-disk format of the oplog header (C01 C02 C06 C12)
#![feature(allocator_api)]
use vstd::prelude::*;
verus! {

//@include shim/std_gaps.rs
//@include shim/compact_encoding.rs
//@include shim/flat_tree.rs
//@include shim/crypto.rs
pub use ed25519_dalek::{SigningKey, VerifyingKey, PUBLIC_KEY_LENGTH, SECRET_KEY_LENGTH};
pub use compact_encoding::*;
broadcast use vp_std::group_std_gaps, compact_encoding::lemma_enc_uint_len;
/*@ default-first broadcast use compact_encoding::lemma_prefix_concat, compact_encoding::lemma_strict_prefix_concat, compact_encoding::lemma_pfx_len, compact_encoding::lemma_pfx_empty; @*/

/*@ item dep:compact-encoding-2.2.0/src/lib.rs macro sum_encoded_size @*/
/*@ item dep:compact-encoding-2.2.0/src/lib.rs macro map_encode @*/
/*@ item dep:compact-encoding-2.2.0/src/lib.rs macro map_decode @*/

//@include shim/node_codec.rs
//@include shim/header_format.rs

// text of error messages (format!() is made opaque by the extraction, rule R7)
#[verifier::external_body]
pub fn vp_fmt() -> String { String::new() }

//@include frag/codec_header.rs

} // verus!
fn main() {}
