// unit merkle_create: src/tree/merkle_tree.rs, proof-creation path (requests from a peer)     C09 C03
#![feature(allocator_api)]
use vstd::prelude::*;
verus! {

//@include shim/std_gaps.rs
//@include shim/compact_encoding.rs
//@include shim/fixedwidth.rs
//@include shim/flat_tree.rs
//@include shim/crypto.rs
//@include shim/either.rs
//@include shim/intmap.rs
pub use compact_encoding::*;
pub use intmap::IntMap;
pub use ed25519_dalek::{SigningKey, VerifyingKey, Signature};
broadcast use vp_std::group_std_gaps, compact_encoding::lemma_enc_uint_len, ed25519_dalek::group_key_lens, crypto::axiom_blake2b_len;

/*@ item dep:compact-encoding-2.2.0/src/lib.rs macro map_decode @*/

//@include shim/common_types.rs
//@include shim/node_types.rs
//@include shim/errors.rs
//@include shim/hash.rs
//@include-assumed frag/keypair.rs
//@include shim/blake2.rs
//@include shim/node_trait.rs
//@include-assumed frag/hash.rs
//@include-assumed frag/merkle_verify.rs
//@include frag/merkle_create.rs

} // verus!
fn main() {}
