// unit storage: src/storage/mod.rs (async erased) against the logged backend model       C10 C02
#![feature(allocator_api)]
use vstd::prelude::*;
verus! {

//@include shim/std_gaps.rs
//@include shim/compact_encoding.rs
pub use compact_encoding::*;
broadcast use vp_std::group_std_gaps;

//@include shim/common_types.rs
//@include shim/errors.rs
//@include shim/random_access.rs

/*@ item src/storage/mod.rs struct Storage
sub `Box<dyn StorageTraits \+ Send>` => `Backend`
@*/

/*@ fn src/storage/mod.rs fn map_random_access_err
tags: C10
result: r
ensures:
    // total: every backend error becomes an error of the crate
    err is IO ==> r is IO, err is OutOfBounds ==> r is InvalidOperation
@*/

impl Storage {
    pub open spec fn ok(&self) -> bool { !self.tree.failed@ && !self.data.failed@ && !self.bitfield.failed@ && !self.oplog.failed@ }
    pub open spec fn total(&self) -> nat { self.tree.log@.len() + self.data.log@.len() + self.bitfield.log@.len() + self.oplog.log@.len() }
    pub open spec fn backend(&self, s: Store) -> Backend { match s { Store::Tree => self.tree, Store::Data => self.data, Store::Bitfield => self.bitfield, Store::Oplog => self.oplog } }

    /*@ fn src/storage/mod.rs Storage::get_random_access
    tags: C10
    result: r
    sub `Box<dyn StorageTraits \+ Send>` => `Backend`
    ensures:
        *r == old(self).backend(*store),
        *store is Tree ==> final(self).tree == *final(r) && final(self).data == old(self).data && final(self).bitfield == old(self).bitfield && final(self).oplog == old(self).oplog,
        *store is Data ==> final(self).data == *final(r) && final(self).tree == old(self).tree && final(self).bitfield == old(self).bitfield && final(self).oplog == old(self).oplog,
        *store is Bitfield ==> final(self).bitfield == *final(r) && final(self).tree == old(self).tree && final(self).data == old(self).data && final(self).oplog == old(self).oplog,
        *store is Oplog ==> final(self).oplog == *final(r) && final(self).tree == old(self).tree && final(self).data == old(self).data && final(self).bitfield == old(self).bitfield
    @*/
}

pub open spec fn flushable(info: StoreInfo) -> bool {
    if info.info_type == StoreInfoType::Content { if !info.miss { info.data is Some } else { info.length is Some } } else { info.miss }
}

/// R8 instantiation: under the single-store precondition the store-switch statement of flush_infos / read_infos_to_vec is dead;
/// it is replaced by a call to this function, whose precondition `false` makes Verus prove that it is never reached
pub fn vp_dead_for_single_store_batches() requires false {}

/// the backend call flush_infos issues for one StoreInfo
pub open spec fn bop_of(info: StoreInfo) -> BOp {
    if info.info_type == StoreInfoType::Content {
        if !info.miss { BOp::Write { off: info.index, data: info.data->Some_0@ } } else { BOp::Del { off: info.index, len: info.length->Some_0 } }
    } else { BOp::Truncate { len: info.index } }
}
pub open spec fn bops_of(infos: Seq<StoreInfo>) -> Seq<BOp> { infos.map_values(|i: StoreInfo| bop_of(i)) }

impl Storage {
    /*@ fn src/storage/mod.rs Storage::flush_infos ; noisolation
    tags: C10 C02 C01
    result: r
    requires:
        old(self).ok(), forall|i: int| 0 <= i < infos@.len() ==> flushable(#[trigger] infos@[i]),
        // every caller in this crate passes the infos of ONE store (bitfield pages, tree records, oplog writes, one block):
        // the contract is stated - and checked at the call sites in unit core_ops - for that case
        forall|i: int| 0 <= i < infos@.len() ==> (#[trigger] infos@[i]).store == infos@[0].store
    ensures:
        infos@.len() == 0 ==> r is Ok && *final(self) == *old(self),
        // C10: Ok means every backend call succeeded and exactly one call per info was issued, in order
        infos@.len() > 0 && r is Ok ==> final(self).ok()
            && final(self).backend(infos@[0].store).log@ == old(self).backend(infos@[0].store).log@ + bops_of(infos@),
        // a failing backend call is reported, and nothing is issued after it: the log holds the calls before the failing one
        infos@.len() > 0 && r is Err ==> final(self).backend(infos@[0].store).failed@
            && (exists|k: int| 0 <= k < infos@.len() && final(self).backend(infos@[0].store).log@
                    == old(self).backend(infos@[0].store).log@ + #[trigger] bops_of(infos@.subrange(0, k))),
        // the other three backends are not touched
        infos@.len() > 0 ==> forall|s: Store| s != infos@[0].store ==> final(self).backend(s) == old(self).backend(s)
    sub `for info in infos\.iter\(\) \{` => `for info in it: infos.iter() {`
    sub `(?s)current_store = info\.store\.clone\(\);\s*storage = self\.get_random_access\(&current_store\);` => `vp_dead_for_single_store_batches();`
    first:
        let ghost log0 = self.backend(infos@[0].store).log@;
    loop 1:
        invariant
            !storage.failed@, current_store == infos@[0].store,
            storage.log@ == log0 + bops_of(infos@.subrange(0, it.index@ as int))
    after `let mut storage = self.get_random_access(&current_store);`:
        assert(infos@.subrange(0, 0) =~= Seq::<StoreInfo>::empty());
        assert(storage.log@ =~= log0 + bops_of(infos@.subrange(0, 0)));
    before `match info.info_type {`:
        let ghost k0 = it.index@ as int;
        proof {
            assert(infos@.subrange(0, k0 + 1) =~= infos@.subrange(0, k0).push(*info));
            assert(bops_of(infos@.subrange(0, k0 + 1)) =~= bops_of(infos@.subrange(0, k0)).push(bop_of(*info)));
        }
    last:
        assert(infos@.subrange(0, infos@.len() as int) =~= infos@);
    @*/
}

pub open spec fn read_result_ok(ins: StoreInfoInstruction, info: StoreInfo) -> bool {
    &&& info.store == ins.store && info.info_type == ins.info_type && info.index == ins.index
    &&& ins.info_type == StoreInfoType::Size ==> info.length is Some && !info.miss
    &&& ins.info_type == StoreInfoType::Content ==> (info.miss ==> ins.allow_miss) && (!info.miss ==> info.data is Some
            && (ins.length is Some ==> info.data->Some_0@.len() == ins.length->Some_0))
}

impl Storage {
    /*@ fn src/storage/mod.rs Storage::read_infos_to_vec ; noisolation
    tags: C10
    result: r
    requires:
        old(self).ok(),
        forall|i: int| 0 <= i < info_instructions@.len() ==> (#[trigger] info_instructions@[i]).store == info_instructions@[0].store,
        forall|i: int| 0 <= i < info_instructions@.len() && (#[trigger] info_instructions@[i]).info_type == StoreInfoType::Size ==> info_instructions@[i].index == 0
    ensures:
        info_instructions@.len() == 0 ==> r is Ok && r->Ok_0@.len() == 0 && *final(self) == *old(self),
        // C10: a backend fault always surfaces as Err
        info_instructions@.len() > 0 && final(self).backend(info_instructions@[0].store).failed@ ==> r is Err,
        r is Ok ==> r->Ok_0@.len() == info_instructions@.len()
            && forall|i: int| 0 <= i < r->Ok_0@.len() ==> read_result_ok(info_instructions@[i], #[trigger] r->Ok_0@[i]),
        // reading issues no mutating backend call, and the other backends are not touched
        info_instructions@.len() > 0 ==> forall|s: Store| s != info_instructions@[0].store ==> final(self).backend(s) == old(self).backend(s)
    sub `for instruction in info_instructions\.iter\(\) \{` => `for instruction in it: info_instructions.iter() {`
    sub `(?s)current_store = instruction\.store\.clone\(\);\s*storage = self\.get_random_access\(&current_store\);` => `vp_dead_for_single_store_batches();`
    loop 1:
        invariant
            !storage.failed@, current_store == info_instructions@[0].store,
            infos@.len() == it.index@,
            forall|i: int| 0 <= i < infos@.len() ==> read_result_ok(info_instructions@[i], #[trigger] infos@[i])
    @*/

    /*@ fn src/storage/mod.rs Storage::flush_info
    tags: C10 C02
    result: r
    requires:
        old(self).ok(), flushable(slice)
    ensures:
        r is Ok ==> final(self).ok(),
        r is Err ==> final(self).backend(slice.store).failed@,
        forall|s: Store| s != slice.store ==> final(self).backend(s) == old(self).backend(s)
    @*/

    /*@ fn src/storage/mod.rs Storage::read_info
    tags: C10 C09
    result: r
    requires:
        old(self).ok(),
        info_instruction.info_type == StoreInfoType::Size ==> info_instruction.index == 0
    ensures:
        // C10: a backend fault always surfaces as Err; one instruction gives exactly one info (the `expect` cannot fail)
        final(self).backend(info_instruction.store).failed@ ==> r is Err,
        r is Ok ==> read_result_ok(info_instruction, r->Ok_0)
    @*/
    /*@ fn src/storage/mod.rs Storage::read_infos
    tags: C10
    result: r
    requires:
        old(self).ok(),
        forall|i: int| 0 <= i < info_instructions@.len() ==> (#[trigger] info_instructions@[i]).store == info_instructions@[0].store,
        forall|i: int| 0 <= i < info_instructions@.len() && (#[trigger] info_instructions@[i]).info_type == StoreInfoType::Size ==> info_instructions@[i].index == 0
    ensures:
        info_instructions@.len() > 0 && final(self).backend(info_instructions@[0].store).failed@ ==> r is Err,
        r is Ok ==> r->Ok_0@.len() == info_instructions@.len()
            && forall|i: int| 0 <= i < r->Ok_0@.len() ==> read_result_ok(info_instructions@[i], #[trigger] r->Ok_0@[i])
    @*/
}

} // verus!
fn main() {}
