// unit core_ops: src/core.rs (async erased, R4) over a journalling Storage and a ghost event trace
//   C01 C02 C04 C08 C10 C12 C13
#![feature(allocator_api)]
use vstd::prelude::*;
verus! {

//@include shim/std_gaps.rs
//@include shim/compact_encoding.rs
//@include shim/fixedwidth.rs
//@include shim/flat_tree.rs
//@include shim/crypto.rs
//@include shim/either.rs
//@include shim/intmap.rs
pub use compact_encoding::*;
pub use intmap::IntMap;
pub use ed25519_dalek::{SigningKey, VerifyingKey, Signature, PUBLIC_KEY_LENGTH, SECRET_KEY_LENGTH};
broadcast use vp_std::group_std_gaps, tree_model::axiom_blk_off_mono, compact_encoding::lemma_enc_uint_len, ed25519_dalek::group_key_lens, compact_encoding::axiom_enc_strings_empty;

/*@ item dep:compact-encoding-2.2.0/src/lib.rs macro sum_encoded_size @*/
/*@ item dep:compact-encoding-2.2.0/src/lib.rs macro map_encode @*/
/*@ item dep:compact-encoding-2.2.0/src/lib.rs macro map_decode @*/

//@include shim/common_types.rs
//@include shim/node_types.rs
//@include shim/oplog_format.rs
//@include shim/oplog_codec_assumed.rs
//@include shim/errors.rs
//@include shim/storage.rs
//@include shim/events.rs
//@include-assumed frag/bitfield.rs
//@include-assumed frag/oplog.rs
//@include frag/merkle_core.rs

// ======================= src/data/mod.rs =======================
/*@ item src/data/mod.rs struct BlockStore @*/
/*@ item src/common/node.rs struct NodeByteRange @*/
pub open spec fn concat_blocks(batch: Seq<&[u8]>, upto: int) -> Seq<u8>
    decreases upto
{ if upto <= 0 { Seq::<u8>::empty() } else { concat_blocks(batch, upto - 1) + batch[upto - 1]@ } }

impl BlockStore {
    /*@ fn src/data/mod.rs BlockStore::append_batch
    tags: C01 C02 C06
    result: r
    ensures:
        is_write(r, Store::Data, byte_length as int, concat_blocks(batch@, batch@.len() as int))
    sub `append_batch<A: AsRef<\[u8\]>, B: AsRef<\[A\]>>\(` => `append_batch(`
    sub `batch: B,` => `batch: &[&[u8]],`
    sub `batch\.as_ref\(\)\.iter\(\)` => `it: batch.iter()`
    sub `data\.as_ref\(\)` => `data`
    loop 1:
        invariant
            buffer@ == concat_blocks(batch@, it.index@ as int)
    @*/
    /*@ fn src/data/mod.rs BlockStore::put
    tags: C01 C02 C03 C06
    result: r
    ensures:
        is_write(r, Store::Data, offset as int, value@)
    @*/
    /*@ fn src/data/mod.rs BlockStore::read
    tags: C01
    result: r
    requires:
        info is Some ==> info->Some_0.data is Some
    ensures:
        info is Some ==> r is Right && r->Right_0@ == info->Some_0.data->Some_0@,
        info is None ==> r is Left && r->Left_0.store == Store::Data && r->Left_0.info_type == StoreInfoType::Content
            && r->Left_0.index == byte_range.index && r->Left_0.length == Some(byte_range.length) && !r->Left_0.allow_miss
    @*/
    /*@ fn src/data/mod.rs BlockStore::clear
    tags: C01 C02
    result: r
    ensures:
        r.store == Store::Data && r.info_type == StoreInfoType::Content && r.miss && r.index == start && r.length == Some(length),
        flushable(r)
    @*/
}

// ======================= src/core.rs =======================
pub mod bitfield { pub use crate::DynamicBitfield as Bitfield; }
pub use bitfield::Bitfield;
pub use replication::events::{Ev, Events};
/*@ item src/core.rs struct HypercoreOptions @*/
/*@ item src/core.rs struct Hypercore @*/
/*@ item src/core.rs struct AppendOutcome @*/
/*@ item src/core.rs struct Info @*/

/// header-size invariant: nothing but the fixed-size fields is ever stored, so both slots fit their 4096 bytes
pub open spec fn header_small(h: Header) -> bool {
    h.user_data@.len() == 0 && h.hints.reorgs@.len() == 0 && h.tree.root_hash@.len() <= 32 && h.tree.signature@.len() <= 64
        && manifest_std(h.manifest)
}
pub proof fn lemma_header_small_fits(h: Header)
    requires header_small(h)
    ensures header_fits(h)
{
    broadcast use ed25519_dalek::group_key_lens, compact_encoding::lemma_enc_uint_len, compact_encoding::axiom_enc_strings_empty;
}

/// the page writes of a bitfield flush
pub open spec fn bitfield_infos_ok(infos: Seq<StoreInfo>) -> bool {
    forall|i: int| 0 <= i < infos.len() ==> (#[trigger] infos[i]).store == Store::Bitfield && infos[i].info_type == StoreInfoType::Content
        && !infos[i].miss && infos[i].data is Some && infos[i].data->Some_0@.len() == 4096 && infos[i].index % 4096 == 0
}
/// the writes of a tree flush: an optional truncate first, then 40-byte node records
pub open spec fn tree_infos_ok(infos: Seq<StoreInfo>) -> bool {
    forall|i: int| 0 <= i < infos.len() ==> is_node_write(#[trigger] infos[i]) || (i == 0 && infos[0].store == Store::Tree
        && infos[0].info_type == StoreInfoType::Size && infos[0].miss)
}
/// the writes of an oplog flush: header slot write, then truncate to 8192; when clearing traces the second slot is rewritten
/// only AFTER the truncate (C02: the first write makes the pending entries stale, the second would make them current again)
pub open spec fn oplog_flush_infos_ok(infos: Seq<StoreInfo>, h: Header, bits: [bool; 2], clear_traces: bool) -> bool {
    let first = bits[0] != bits[1];
    if clear_traces {
        infos.len() == 3
            && is_slot_write(infos[0], if first { 0int } else { 4096int }, h, if first { !bits[0] } else { !bits[1] }, 4096)
            && is_truncate(infos[1], Store::Oplog, 8192)
            && is_slot_write(infos[2], if first { 4096int } else { 0int }, h, if first { !bits[1] } else { !bits[0] }, 4096)
    } else {
        infos.len() == 2
            && is_slot_write(infos[0], if first { 0int } else { 4096int }, h, if first { !bits[0] } else { !bits[1] }, 8 + 2 * header_enc(h).len() as int)
            && is_truncate(infos[1], Store::Oplog, 8192)
    }
}

/// c is the smallest index whose block is not held
pub open spec fn is_first_missing(b: &DynamicBitfield, c: int) -> bool {
    0 <= c && (forall|i: int| 0 <= i < c ==> #[trigger] b.bit(i)) && !b.bit(c)
}
/*@ fn src/core.rs fn update_contiguous_length
tags: C08 C01 C02
requires:
    bitfield.wf(),
    bitfield_update.start + bitfield_update.length <= 0xffff_ffff_ffff,
    // the hint was exact for the bitfield before `bitfield_update` was applied to it
    forall|i: int| 0 <= i < old(header).hints.contiguous_length ==>
        (bitfield_update.start <= i < bitfield_update.start + bitfield_update.length) || #[trigger] bitfield.bit(i),
    (bitfield_update.start <= old(header).hints.contiguous_length < bitfield_update.start + bitfield_update.length)
        || !bitfield.bit(old(header).hints.contiguous_length as int),
    // and the update has been applied
    forall|i: int| bitfield_update.start <= i < bitfield_update.start + bitfield_update.length ==> #[trigger] bitfield.bit(i) == !bitfield_update.drop
ensures:
    is_first_missing(bitfield, final(header).hints.contiguous_length as int),
    final(header).key == old(header).key, final(header).manifest == old(header).manifest, final(header).key_pair == old(header).key_pair,
    final(header).user_data == old(header).user_data, final(header).tree == old(header).tree, final(header).hints.reorgs == old(header).hints.reorgs
loop 1:
    invariant
        bitfield.wf(), end <= c,
        forall|i: int| 0 <= i < c ==> #[trigger] bitfield.bit(i)
    decreases (bitfield.biggest_page_index + 1) * 32768 - c
before `c += 1;`:
    proof {
        // a set bit lives on an existing page, and pages are bounded by biggest_page_index
        let p = (c as int / 32768) as u64;
        assert(bitfield.pages@.contains_key(p));
        assert(p <= bitfield.biggest_page_index);
    }
@*/

impl Hypercore {
    pub open spec fn wf(&self) -> bool {
        &&& self.bitfield.wf()
        &&& !self.storage.failed@
        &&& header_small(self.header)
        &&& self.oplog.entries_byte_length <= 0xffff_ffff_ff && self.oplog.entries_length <= 0xffff_ffff_ffff_ff
        &&& self.tree.truncate_to <= 0xffff_ffff_ffff
        &&& self.tree.length <= 0xff_ffff_ffff && self.tree.byte_length <= 0xff_ffff_ffff_ffff
        &&& self.skip_flush_count <= 3
        // C08: the stored hint is exact, and nothing at or beyond the length is marked as held
        &&& is_first_missing(&self.bitfield, self.header.hints.contiguous_length as int)
        &&& forall|k: int| k >= self.tree.length ==> !(#[trigger] self.bitfield.bit(k))
    }
    /// wf without "nothing is held at or beyond the length" (a replica re-establishes that clause only when the
    /// accepted changeset covers the received block and does not shrink the log)
    pub open spec fn wf_core(&self) -> bool {
        &&& self.bitfield.wf()
        &&& !self.storage.failed@
        &&& header_small(self.header)
        &&& self.oplog.entries_byte_length <= 0xffff_ffff_ff && self.oplog.entries_length <= 0xffff_ffff_ffff_ff
        &&& self.tree.truncate_to <= 0xffff_ffff_ffff
        &&& self.tree.length <= 0xff_ffff_ffff && self.tree.byte_length <= 0xff_ffff_ffff_ffff
        &&& self.skip_flush_count <= 3
        &&& is_first_missing(&self.bitfield, self.header.hints.contiguous_length as int)
    }
    /// between two public calls: the oplog is short (a longer one is flushed at the end of the call that made it so)
    pub open spec fn quiescent(&self) -> bool {
        self.oplog.entries_byte_length < 65536 && self.oplog.entries_length <= 0xffff_ffff_ffff && (self.skip_flush_count == 0 || self.oplog.entries_length + self.skip_flush_count <= 3)
    }
    /// C02 redo-log invariant: a tree node that exists in memory only is covered by a pending oplog entry - when the entries
    /// have just been folded into a persisted header (none pending), no tree node is waiting to be written
    pub open spec fn nothing_pending_unjournalled(&self) -> bool {
        self.oplog.entries_length == 0 ==> self.tree.unflushed@ =~= Map::<u64, Node>::empty()
    }
    /// the observable in-memory state (everything except storage, oplog bookkeeping and pending-write queues)
    pub open spec fn same_view(&self, o: &Hypercore) -> bool {
        &&& forall|k: int| self.bitfield.bit(k) == o.bitfield.bit(k)
        &&& self.tree.length == o.tree.length && self.tree.byte_length == o.tree.byte_length && self.tree.fork == o.tree.fork
        &&& self.tree.roots == o.tree.roots && self.tree.signature == o.tree.signature
        &&& self.header == o.header && self.key_pair == o.key_pair
        &&& self.events.trace@ == o.events.trace@
    }

    /*@ fn src/core.rs Hypercore::info
    tags: C01 C08 C12
    result: r
    ensures:
        r.length == self.tree.length, r.byte_length == self.tree.byte_length,
        r.contiguous_length == self.header.hints.contiguous_length, r.fork == self.tree.fork,
        r.writeable == (self.key_pair.secret is Some)
    @*/

    /*@ fn src/core.rs Hypercore::has
    tags: C01 C08
    result: r
    ensures:
        r == self.bitfield.bit(index as int)
    @*/

    /*@ fn src/core.rs Hypercore::should_flush_bitfield_and_tree_and_oplog
    tags: C02
    result: r
    requires:
        old(self).skip_flush_count <= 3
    ensures:
        // first call on an instance and then every 4th, or as soon as the entries exceed 64 KiB
        r == (old(self).skip_flush_count == 0 || old(self).oplog.entries_byte_length >= 65536),
        final(self).skip_flush_count == (if r { 3u8 } else { (old(self).skip_flush_count - 1) as u8 }),
        final(self).same_view(old(self)), final(self).storage == old(self).storage, final(self).oplog == old(self).oplog,
        final(self).bitfield == old(self).bitfield, final(self).tree == old(self).tree, final(self).block_store == old(self).block_store
    @*/

    /*@ fn src/core.rs Hypercore::flush_bitfield_and_tree_and_oplog
    tags: C02 C10 C12 C06
    result: r
    requires:
        old(self).wf_core()
    ensures:
        final(self).same_view(old(self)),
        final(self).skip_flush_count == old(self).skip_flush_count,
        final(self).storage.reads@ == old(self).storage.reads@,
        // C10: a failed storage operation is reported, nothing is issued after it
        (r is Err) == final(self).storage.failed@,
        r is Ok ==> final(self).wf_core() && final(self).oplog.entries_byte_length == 0 && final(self).oplog.entries_length == 0,
        // the persisted header covers persisted tree nodes only: after a flush no tree node is pending in memory
        r is Ok ==> final(self).tree.unflushed@ =~= Map::<u64, Node>::empty(),
        r is Ok && !clear_traces ==> Oplog::cur_hbit(final(self).oplog.header_bits) != Oplog::cur_hbit(old(self).oplog.header_bits),
        final(self).storage.journal@.len() >= old(self).storage.journal@.len(),
        // C02: bitfield pages, then tree (truncate first, then nodes), then the header slot(s), then the truncate of the entries
        r is Ok ==> (exists|ib: Seq<StoreInfo>, it_: Seq<StoreInfo>, io: Seq<StoreInfo>|
            #![trigger ops_of(ib), ops_of(it_), ops_of(io)]
            final(self).storage.journal@ == old(self).storage.journal@ + ops_of(ib) + ops_of(it_) + ops_of(io)
            && bitfield_infos_ok(ib) && tree_infos_ok(it_)
            && oplog_flush_infos_ok(io, old(self).header, old(self).oplog.header_bits, clear_traces))
    @*/
}

pub proof fn lemma_concat_mono(batch: Seq<&[u8]>, a: int, b: int)
    requires 0 <= a <= b
    ensures concat_blocks(batch, a).len() <= concat_blocks(batch, b).len()
    decreases b - a
{ if a < b { lemma_concat_mono(batch, a, b - 1); } }
pub open spec fn ev_append(start: u64, n: u64) -> Seq<Ev> { seq![Ev::DataUpgrade, Ev::Have { start: start, length: n, drop: false }] }

impl Hypercore {
    /*@ fn src/core.rs Hypercore::make_read_only
    tags: C12 C02 C10
    result: r
    requires:
        old(self).wf()
    ensures:
        // C12, stated from the property and not from the code: whatever the prior history - including a core recovered
        // from a crash inside an earlier call, whose non-current header slot still holds the key - once the call RETURNS
        // no storage file contains the secret key. Nothing but rewriting both header slots can guarantee that, so:
        // the secret is gone from memory BEFORE anything is written, both header slots are rewritten (zero padded to
        // 4096 bytes) with a header that carries no secret, and the entries are truncated away in between
        final(self).key_pair.secret is None && final(self).header.key_pair.secret is None
            && final(self).key_pair.public == old(self).key_pair.public,
        (r is Err) == final(self).storage.failed@,
        // the result tells whether the core was writable ("a second call reports that nothing changed")
        r is Ok ==> r->Ok_0 == (old(self).key_pair.secret is Some) && final(self).wf()
            && (exists|ib: Seq<StoreInfo>, it_: Seq<StoreInfo>, io: Seq<StoreInfo>|
                #![trigger ops_of(ib), ops_of(it_), ops_of(io)]
                final(self).storage.journal@ == old(self).storage.journal@ + ops_of(ib) + ops_of(it_) + ops_of(io)
                && bitfield_infos_ok(ib) && tree_infos_ok(it_)
                && oplog_flush_infos_ok(io, final(self).header, old(self).oplog.header_bits, true))
    @*/
}

impl Hypercore {
    /*@ fn src/core.rs Hypercore::append_batch
    tags: C01 C02 C08 C10 C12 C13
    result: r
    requires:
        old(self).wf(), old(self).quiescent(),
        batch@.len() <= 0x1_0000,
        concat_blocks(batch@, batch@.len() as int).len() <= 0xff_ffff_ffff,
        old(self).tree.length + batch@.len() <= 0xff_ffff_ffff,
        old(self).tree.byte_length + concat_blocks(batch@, batch@.len() as int).len() <= 0xff_ffff_ffff_ffff
    ensures:
        // C12: without a secret key nothing at all happens
        old(self).key_pair.secret is None ==> r is Err && r->Err_0 is NotWritable && *final(self) == *old(self),
        // an empty batch is a no-op that reports the current size
        old(self).key_pair.secret is Some && batch@.len() == 0 ==> r is Ok && *final(self) == *old(self)
            && r->Ok_0.length == old(self).tree.length && r->Ok_0.byte_length == old(self).tree.byte_length,
        // C10: a storage failure is the only way to fail, and it always surfaces
        old(self).key_pair.secret is Some ==> (r is Err) == final(self).storage.failed@,
        old(self).key_pair.secret is Some && batch@.len() > 0 && r is Ok ==> final(self).wf() && final(self).quiescent() && final(self).nothing_pending_unjournalled()
            && r->Ok_0.length == old(self).tree.length + batch@.len()
            && r->Ok_0.byte_length == old(self).tree.byte_length + concat_blocks(batch@, batch@.len() as int).len()
            && final(self).tree.length == r->Ok_0.length && final(self).tree.byte_length == r->Ok_0.byte_length
            && final(self).tree.fork == old(self).tree.fork && final(self).key_pair == old(self).key_pair
            // C01/C08: exactly the appended indices become held
            && (forall|k: int| #![trigger final(self).bitfield.bit(k)] final(self).bitfield.bit(k)
                    == (old(self).tree.length <= k < old(self).tree.length + batch@.len() || old(self).bitfield.bit(k)))
            // C13: upgrade, then have for exactly the appended range
            && final(self).events.trace@ == old(self).events.trace@ + ev_append(old(self).tree.length, batch@.len() as u64)
            // C02: the in-memory header (what the next flush persists) describes the new tree: its length and the new signature
            && final(self).header.tree.length == final(self).tree.length
            && final(self).tree.signature is Some && final(self).header.tree.signature@ == final(self).tree.signature->Some_0.sig_bytes(),
        // C02: data first, then the oplog entry (the commit point), then - at most - a flush
        old(self).key_pair.secret is Some && batch@.len() > 0 && r is Ok ==>
            final(self).storage.journal@.len() >= old(self).storage.journal@.len() + 2
            && final(self).storage.journal@.subrange(0, old(self).storage.journal@.len() as int) == old(self).storage.journal@
            && final(self).storage.journal@[old(self).storage.journal@.len() as int]
                == (StoreOp::Write { store: Store::Data, off: old(self).tree.byte_length as int, data: concat_blocks(batch@, batch@.len() as int) })
            && (final(self).storage.journal@[old(self).storage.journal@.len() as int + 1] matches StoreOp::Write { store, off, data }
                && store == Store::Oplog && off == 8192 + old(self).oplog.entries_byte_length),
        // refused / failed calls announce nothing
        r is Err ==> final(self).events.trace@ == old(self).events.trace@,
        // commit point: until the oplog entry write has been issued, memory is untouched
        r is Err && final(self).storage.journal@.len() <= old(self).storage.journal@.len() + 1 ==> final(self).same_view(old(self))
    sub `append_batch<A: AsRef<\[u8\]>, B: AsRef<\[A\]>>\(` => `append_batch(`
    sub `batch: B,` => `batch: &[&[u8]],`
    sub `batch\.as_ref\(\)\.iter\(\)` => `it: batch.iter()`
    sub `batch\.as_ref\(\)` => `batch`
    sub `data\.as_ref\(\)` => `data`
    loop 1:
        invariant
            batch@.len() <= 0x1_0000,
            concat_blocks(batch@, batch@.len() as int).len() <= 0xff_ffff_ffff,
            old(self).tree.length + batch@.len() <= 0xff_ffff_ffff,
            old(self).tree.byte_length + concat_blocks(batch@, batch@.len() as int).len() <= 0xff_ffff_ffff_ffff,
            batch_length == concat_blocks(batch@, it.index@ as int).len(),
            changeset.length == old(self).tree.length + it.index@,
            changeset.byte_length == old(self).tree.byte_length + batch_length,
            changeset.batch_length == it.index@,
            changeset.ancestors == old(self).tree.length, changeset.fork == old(self).tree.fork,
            changeset.original_tree_length == old(self).tree.length, changeset.original_tree_fork == old(self).tree.fork,
            it.index@ > 0 ==> changeset.upgraded,
            changeset.nodes@.len() <= 64 * it.index@,
            forall|i: int| 0 <= i < changeset.nodes@.len() ==> (#[trigger] changeset.nodes@[i]).hash@.len() == 32
    before `batch_length += changeset.append(data);`:
        proof {
            lemma_concat_mono(batch@, it.index@ + 1, batch@.len() as int);
        }
    after `self.header = outcome.header;`:
        let ghost s_after_entry = *self;
    before `// Return the new value`:
        proof {
            if batch@.len() > 0 {
                assert(self.wf());
                assert(self.quiescent());
                assert(self.tree.length == old(self).tree.length + batch@.len());
                assert(forall|k: int| #![trigger self.bitfield.bit(k)] self.bitfield.bit(k)
                    == (old(self).tree.length <= k < old(self).tree.length + batch@.len() || old(self).bitfield.bit(k)));
                assert(self.events.trace@ =~= old(self).events.trace@ + ev_append(old(self).tree.length, batch@.len() as u64));
                let j0 = old(self).storage.journal@;
                assert(self.storage.journal@.len() >= j0.len() + 2);
                assert(self.storage.journal@.subrange(0, j0.len() as int) =~= j0);
            }
        }
    before `// Now ready to flush`:
        let ghost s_committed = *self;
        assert(self.bitfield.wf());
        assert(!self.storage.failed@);
        assert(header_small(self.header));
        assert(self.oplog.entries_byte_length <= 0xffff_ffff_ff);
        assert(self.tree.length <= 0xff_ffff_ffff && self.tree.byte_length <= 0xff_ffff_ffff_ffff);
        assert(is_first_missing(&self.bitfield, self.header.hints.contiguous_length as int));
        assert(forall|k: int| k >= self.tree.length ==> !(#[trigger] self.bitfield.bit(k)));
        assert(self.tree.truncate_to <= 0xffff_ffff_ffff);
    @*/
}

impl Hypercore {
    /*@ fn src/core.rs Hypercore::byte_range ; nodecreases noisolation
    tags: C01 C09 C10
    result: r
    requires:
        !old(self).storage.failed@
    ensures:
        final(self).same_view(old(self)), final(self).bitfield == old(self).bitfield, final(self).tree == old(self).tree,
        final(self).oplog == old(self).oplog, final(self).skip_flush_count == old(self).skip_flush_count,
        final(self).storage.journal@ == old(self).storage.journal@,
        final(self).storage.failed@ ==> r is Err,
        r is Ok ==> index < old(self).tree.length && r->Ok_0.index == blk_off(index as int) && r->Ok_0.index + r->Ok_0.length == blk_off(index + 1),
        // looking up a byte range reads the tree store only
        r is Ok ==> tree_reads_only(old(self).storage.reads@, final(self).storage.reads@)
    sub `infos\.extend\(self\.storage\.read_infos_to_vec\(&instructions\)\?\);` => `vp_extend(&mut infos, self.storage.read_infos_to_vec(&instructions)?);`
    first:
        proof { lemma_tree_reads_refl(self.storage.reads@); }
    before `vp_extend(&mut infos, self.storage.read_infos_to_vec(&instructions)?);`:
        let ghost rd0 = self.storage.reads@;
    after `vp_extend(&mut infos, self.storage.read_infos_to_vec(&instructions)?);`:
        proof { lemma_tree_reads_ext(old(self).storage.reads@, rd0, instructions@); }
    loop 1:
        invariant
            tree_reads_only(old(self).storage.reads@, self.storage.reads@),
            !self.storage.failed@, tree_instr(instructions@),
            self.same_view(old(self)), self.bitfield == old(self).bitfield, self.tree == old(self).tree,
            self.oplog == old(self).oplog, self.skip_flush_count == old(self).skip_flush_count,
            self.storage.journal@ == old(self).storage.journal@
    @*/

    /*@ fn src/core.rs Hypercore::get
    tags: C01 C10 C13
    result: r
    requires:
        old(self).wf()
    ensures:
        final(self).bitfield == old(self).bitfield, final(self).tree == old(self).tree, final(self).header == old(self).header,
        final(self).key_pair == old(self).key_pair, final(self).oplog == old(self).oplog,
        // reading never writes
        final(self).storage.journal@ == old(self).storage.journal@,
        // C13: a block that is not held yields nothing, one Get event with that index, and no storage access at all
        !old(self).bitfield.bit(index as int) ==> r is Ok && r->Ok_0 is None
            && final(self).events.trace@ == old(self).events.trace@.push(Ev::Get { index: index })
            && final(self).storage == old(self).storage,
        // a held block: no event; the data file is read at the block's byte range
        old(self).bitfield.bit(index as int) ==> final(self).events.trace@ == old(self).events.trace@,
        old(self).bitfield.bit(index as int) && r is Ok ==> r->Ok_0 is Some
            // C01: an empty block is returned without touching the data store (its offset may lie beyond the end of a data file
            // that a clear has truncated, where even a zero-length read fails); any other block is read at its offset
            && (blk_off(index + 1) == blk_off(index as int) ==> r->Ok_0->Some_0@.len() == 0
                    && tree_reads_only(old(self).storage.reads@, final(self).storage.reads@))
            && (blk_off(index + 1) > blk_off(index as int) ==> final(self).storage.reads@.len() > 0
                    && final(self).storage.reads@.last() == (Store::Data, blk_off(index as int))),
        // C10
        final(self).storage.failed@ ==> r is Err
    @*/
}

impl Hypercore {
    /*@ fn src/core.rs Hypercore::clear ; noisolation
    tags: C01 C02 C08 C10 C13
    result: r
    requires:
        old(self).wf(), old(self).quiescent(),
        start < end ==> start < old(self).tree.length && end <= 0x4000_0000_0000_0000
    ensures:
        // nothing to clear: a no-op
        start >= end ==> r is Ok && *final(self) == *old(self),
        // clearing announces nothing and never changes the size of the log
        final(self).events.trace@ == old(self).events.trace@,
        final(self).tree.length == old(self).tree.length && final(self).tree.byte_length == old(self).tree.byte_length
            && final(self).key_pair == old(self).key_pair,
        // C10
        final(self).storage.failed@ ==> r is Err,
        start < end && r is Ok ==> final(self).wf() && final(self).quiescent()
            // C01: exactly the blocks of the range stop being held
            && (forall|k: int| #![trigger final(self).bitfield.bit(k)] final(self).bitfield.bit(k) == (old(self).bitfield.bit(k) && !(start <= k < end))),
        // C02: the oplog entry (commit point) comes first, then the hole is punched into the data file
        start < end && r is Ok ==> final(self).storage.journal@.len() >= old(self).storage.journal@.len() + 2
            && final(self).storage.journal@.subrange(0, old(self).storage.journal@.len() as int) == old(self).storage.journal@
            && final(self).storage.journal@[old(self).storage.journal@.len() as int]
                == (StoreOp::Write { store: Store::Oplog, off: 8192 + old(self).oplog.entries_byte_length,
                        data: frame(clear_entry_enc(start, (end - start) as u64), false, Oplog::cur_hbit(old(self).oplog.header_bits)) })
            // C01: the deleted byte range covers the cleared blocks and only blocks that are not held any more
            && (exists|s2: int, e2: int| #![trigger blk_off(s2), blk_off(e2)] 0 <= s2 <= start && s2 < e2 <= old(self).tree.length
                && (e2 >= end || e2 == old(self).tree.length)
                && (forall|k: int| s2 <= k < e2 ==> !(#[trigger] final(self).bitfield.bit(k)))
                && final(self).storage.journal@[old(self).storage.journal@.len() as int + 1]
                    == (StoreOp::Delete { store: Store::Data, off: blk_off(s2), len: blk_off(e2) - blk_off(s2) })),
        // commit point
        r is Err && final(self).storage.journal@ == old(self).storage.journal@ ==> final(self).same_view(old(self))
    sub `infos\.extend\(new_infos\);` => `vp_extend(&mut infos, new_infos);`
    first:
        let ghost start0 = start;
        let ghost end0 = end;
    before `// Now ready to flush`:
        proof {
            let j0 = old(self).storage.journal@;
            let s2 = start as int; let e2 = end as int;
            assert(0 <= s2 <= start0 && s2 < e2 <= old(self).tree.length && (e2 >= end0 || e2 == old(self).tree.length));
            assert(forall|k: int| s2 <= k < e2 ==> !(#[trigger] self.bitfield.bit(k)));
            assert(self.storage.journal@.len() == j0.len() + 2);
            assert(self.storage.journal@.subrange(0, j0.len() as int) =~= j0);
            assert(self.storage.journal@[j0.len() as int + 1] == (StoreOp::Delete { store: Store::Data, off: blk_off(s2), len: blk_off(e2) - blk_off(s2) }));
        }
        let ghost s_mid = *self;
    last:
        proof {
            let j0 = old(self).storage.journal@;
            let s2 = start as int; let e2 = end as int;
            assert(self.same_view(&s_mid));
            assert(forall|k: int| s2 <= k < e2 ==> !(#[trigger] self.bitfield.bit(k))) by {
                assert(forall|k: int| self.bitfield.bit(k) == s_mid.bitfield.bit(k));
            }
            assert(self.storage.journal@.len() >= j0.len() + 2);
            assert(self.storage.journal@[j0.len() as int] == s_mid.storage.journal@[j0.len() as int]);
            assert(self.storage.journal@[j0.len() as int + 1] == s_mid.storage.journal@[j0.len() as int + 1]);
            assert(self.storage.journal@.subrange(0, j0.len() as int) =~= j0);
        }
    @*/
}

pub open spec fn ev_proof(proof: &Proof) -> Seq<Ev> {
    (if proof.upgrade is Some { seq![Ev::DataUpgrade] } else { Seq::<Ev>::empty() })
        + (if proof.block is Some { seq![Ev::Have { start: proof.block->Some_0.index, length: 1, drop: false }] } else { Seq::<Ev>::empty() })
}

impl Hypercore {
    /*@ fn src/core.rs Hypercore::verify_proof
    tags: C03 C04 C09 C10
    result: r
    requires:
        !old(self).storage.failed@
    ensures:
        final(self).same_view(old(self)), final(self).bitfield == old(self).bitfield, final(self).tree == old(self).tree,
        final(self).oplog == old(self).oplog, final(self).skip_flush_count == old(self).skip_flush_count,
        final(self).storage.journal@ == old(self).storage.journal@,
        final(self).storage.failed@ ==> r is Err,
        r is Ok ==> !final(self).storage.failed@ && verified_changeset(&old(self).tree, &r->Ok_0) && (proof.upgrade is Some ==> r->Ok_0.upgraded)
    @*/

    /*@ fn src/core.rs Hypercore::verify_and_apply_proof
    tags: C02 C03 C04 C08 C10 C13
    result: r
    requires:
        old(self).wf(), old(self).quiescent(),
        proof.block is Some ==> proof.block->Some_0.index < 0xff_ffff_ffff && proof.block->Some_0.value@.len() <= 0xff_ffff_ffff
    ensures:
        // fork gate: a proof for another fork changes nothing at all
        proof.fork != old(self).tree.fork ==> r is Ok && r->Ok_0 == false && *final(self) == *old(self),
        // C04: a refused proof (Ok(false), or an error before the first write) leaves every observation unchanged
        r is Ok && r->Ok_0 == false ==> final(self).same_view(old(self)) && final(self).storage.journal@ == old(self).storage.journal@,
        r is Err && final(self).storage.journal@ == old(self).storage.journal@ ==> final(self).same_view(old(self)),
        // C13: refused and failed calls announce nothing; an accepted proof announces exactly what it carried
        !(r is Ok && r->Ok_0 == true) ==> final(self).events.trace@ == old(self).events.trace@,
        r is Ok && r->Ok_0 == true ==> final(self).events.trace@ == old(self).events.trace@ + ev_proof(proof),
        // C10
        final(self).storage.failed@ ==> r is Err,
        r is Ok && r->Ok_0 == true ==> final(self).wf_core() && final(self).quiescent() && final(self).key_pair == old(self).key_pair
            && final(self).nothing_pending_unjournalled()
            // exactly the received block becomes held
            && (forall|k: int| #![trigger final(self).bitfield.bit(k)] final(self).bitfield.bit(k)
                    == (old(self).bitfield.bit(k) || (proof.block is Some && k == proof.block->Some_0.index))),
        // C02 / C03: the in-memory header (what the next flush persists) describes the tree after an accepted upgrade, block or no block
        r is Ok && r->Ok_0 == true && proof.upgrade is Some ==> final(self).header.tree.length == final(self).tree.length
            && final(self).tree.signature is Some && final(self).header.tree.signature@ == final(self).tree.signature->Some_0.sig_bytes(),
        // C02: the block is written to the data file first (at the offset recorded by the verified tree nodes), then
        // the oplog entry (the commit point)
        r is Ok && r->Ok_0 == true && proof.block is Some ==>
            final(self).storage.journal@.len() >= old(self).storage.journal@.len() + 2
            && final(self).storage.journal@.subrange(0, old(self).storage.journal@.len() as int) == old(self).storage.journal@
            && final(self).storage.journal@[old(self).storage.journal@.len() as int]
                == (StoreOp::Write { store: Store::Data, off: blk_off(proof.block->Some_0.index as int), data: proof.block->Some_0.value@ })
            && (final(self).storage.journal@[old(self).storage.journal@.len() as int + 1] matches StoreOp::Write { store, off, data }
                && store == Store::Oplog && off == 8192 + old(self).oplog.entries_byte_length),
        r is Ok && r->Ok_0 == true && proof.block is None ==>
            final(self).storage.journal@.len() >= old(self).storage.journal@.len() + 1
            && final(self).storage.journal@.subrange(0, old(self).storage.journal@.len() as int) == old(self).storage.journal@
            && (final(self).storage.journal@[old(self).storage.journal@.len() as int] matches StoreOp::Write { store, off, data }
                && store == Store::Oplog && off == 8192 + old(self).oplog.entries_byte_length)
    before `// Now ready to flush`#1:
        let ghost s_mid = *self;
        proof {
            let j0 = old(self).storage.journal@;
            assert(self.wf_core());
            assert(self.storage.journal@.subrange(0, j0.len() as int) =~= j0);
        }
    last:
        proof {
            let j0 = old(self).storage.journal@;
            assert(self.same_view(&s_mid) || true);
            assert(forall|k: int| self.bitfield.bit(k) == s_mid.bitfield.bit(k));
            assert(self.storage.journal@.subrange(0, j0.len() as int) =~= j0);
            assert(self.storage.journal@[j0.len() as int] == s_mid.storage.journal@[j0.len() as int]);
            if proof.block is Some { assert(self.storage.journal@[j0.len() as int + 1] == s_mid.storage.journal@[j0.len() as int + 1]); }
            assert(self.events.trace@ =~= old(self).events.trace@ + ev_proof(proof));
        }
    @*/
}

impl Hypercore {
    /*@ fn src/core.rs Hypercore::create_valueless_proof ; nodecreases noisolation
    tags: C03 C09 C10
    result: r
    requires:
        !old(self).storage.failed@
    ensures:
        final(self).same_view(old(self)), final(self).bitfield == old(self).bitfield, final(self).tree == old(self).tree,
        final(self).oplog == old(self).oplog, final(self).skip_flush_count == old(self).skip_flush_count,
        final(self).storage.journal@ == old(self).storage.journal@,
        final(self).storage.failed@ ==> r is Err,
        r is Ok ==> !final(self).storage.failed@ && (r->Ok_0.block is Some) == (block is Some)
            && (block is Some ==> r->Ok_0.block->Some_0.index == block->Some_0.index)
    sub `infos\.extend\(self\.storage\.read_infos_to_vec\(&instructions\)\?\);` => `vp_extend(&mut infos, self.storage.read_infos_to_vec(&instructions)?);`
    loop 1:
        invariant
            !self.storage.failed@, tree_instr(instructions@),
            self.same_view(old(self)), self.bitfield == old(self).bitfield, self.tree == old(self).tree,
            self.oplog == old(self).oplog, self.skip_flush_count == old(self).skip_flush_count,
            self.storage.journal@ == old(self).storage.journal@
    @*/

    /*@ fn src/core.rs Hypercore::create_proof
    tags: C03 C09 C10
    result: r
    requires:
        old(self).wf()
    ensures:
        // creating a proof never writes and never changes the log
        final(self).storage.journal@ == old(self).storage.journal@,
        final(self).bitfield == old(self).bitfield, final(self).tree == old(self).tree, final(self).header == old(self).header,
        final(self).storage.failed@ ==> r is Err,
        // C03: a block that is not held (never received, or cleared) yields no proof rather than a wrong one
        r is Ok && block is Some && !old(self).bitfield.bit(block->Some_0.index as int) ==> r->Ok_0 is None,
        r is Ok && r->Ok_0 is Some ==> (r->Ok_0->Some_0.block is Some) == (block is Some)
            && (block is Some ==> r->Ok_0->Some_0.block->Some_0.index == block->Some_0.index)
    @*/

    /*@ fn src/core.rs Hypercore::missing_nodes_from_merkle_tree_index ; nodecreases noisolation
    tags: C03 C09 C10
    result: r
    requires:
        !old(self).storage.failed@
    ensures:
        final(self).same_view(old(self)), final(self).bitfield == old(self).bitfield, final(self).tree == old(self).tree,
        final(self).storage.journal@ == old(self).storage.journal@,
        final(self).storage.failed@ ==> r is Err
    sub `infos\.extend\(self\.storage\.read_infos_to_vec\(&instructions\)\?\);` => `vp_extend(&mut infos, self.storage.read_infos_to_vec(&instructions)?);`
    loop 1:
        invariant
            !self.storage.failed@, tree_instr(instructions@),
            self.same_view(old(self)), self.bitfield == old(self).bitfield, self.tree == old(self).tree,
            self.storage.journal@ == old(self).storage.journal@
    @*/

    /*@ fn src/core.rs Hypercore::missing_nodes
    tags: C03 C09 C10
    result: r
    requires:
        !old(self).storage.failed@,
        index <= 0x7fff_ffff_ffff_ffff
    ensures:
        final(self).same_view(old(self)), final(self).bitfield == old(self).bitfield, final(self).tree == old(self).tree,
        final(self).storage.journal@ == old(self).storage.journal@,
        final(self).storage.failed@ ==> r is Err
    @*/
}

/// C01 / C02: the entries found in the oplog are a redo log - replaying entries[0..i) on the flushed state gives, for the
/// bitfield, the bits of the last update that covers an index ...
pub open spec fn replay_bit(b0: spec_fn(int) -> bool, entries: Seq<Entry>, i: int, k: int) -> bool
    decreases i
{
    if i <= 0 { b0(k) } else {
        let e = entries[i - 1];
        if e.bitfield is Some && e.bitfield->Some_0.start <= k < e.bitfield->Some_0.start + e.bitfield->Some_0.length { !e.bitfield->Some_0.drop }
        else { replay_bit(b0, entries, i - 1, k) }
    }
}
/// ... and for the tree the length and fork of the last stored tree upgrade
pub open spec fn replay_len(l0: u64, entries: Seq<Entry>, i: int) -> u64
    decreases i
{ if i <= 0 { l0 } else if entries[i - 1].tree_upgrade is Some { entries[i - 1].tree_upgrade->Some_0.length } else { replay_len(l0, entries, i - 1) } }
pub open spec fn replay_fork(f0: u64, entries: Seq<Entry>, i: int) -> u64
    decreases i
{ if i <= 0 { f0 } else if entries[i - 1].tree_upgrade is Some { entries[i - 1].tree_upgrade->Some_0.fork } else { replay_fork(f0, entries, i - 1) } }

impl HypercoreOptions {
    /*@ fn src/core.rs HypercoreOptions::new
    tags: C12
    result: r
    ensures:
        r.key_pair is None, !r.open
    @*/
}
/*@ item src/builder.rs struct HypercoreBuilder @*/
impl HypercoreBuilder {
    /*@ fn src/builder.rs HypercoreBuilder::new
    tags: C12
    result: r
    ensures:
        r.storage == storage, r.options.key_pair is None, !r.options.open
    @*/
    /*@ fn src/builder.rs HypercoreBuilder::key_pair ; mutself
    tags: C12
    result: r
    ensures:
        r.storage == self.storage, r.options.key_pair == Some(key_pair), r.options.open == self.options.open
    @*/
    /*@ fn src/builder.rs HypercoreBuilder::open ; mutself
    tags: C12
    result: r
    ensures:
        // C12: asking for open mode neither drops nor invents a key pair - a key pair supplied together with open mode has
        // to reach Hypercore::new, which rejects the combination before the storage is touched
        r.storage == self.storage, r.options.open == open, r.options.key_pair == self.options.key_pair
    @*/
    /*@ fn src/builder.rs HypercoreBuilder::build
    tags: C12
    result: r
    requires:
        !self.storage.failed@
    ensures:
        self.options.open && self.options.key_pair is Some ==> r is Err && r->Err_0 is BadArgument,
        r is Ok ==> r->Ok_0.key_pair == r->Ok_0.header.key_pair
    @*/
}

impl Hypercore {
    /*@ fn src/core.rs Hypercore::new ; noisolation
    tags: C01 C02 C03 C05 C10 C12 C13
    result: r
    requires:
        !storage.failed@
    ensures:
        // C12: a key pair together with open mode is rejected before the storage is touched
        options.open && options.key_pair is Some ==> r is Err && r->Err_0 is BadArgument,
        // the opened core takes its key pair (and so its writability) from the stored header
        r is Ok ==> r->Ok_0.key_pair == r->Ok_0.header.key_pair && r->Ok_0.skip_flush_count == 0
            && r->Ok_0.events.trace@ == Seq::<Ev>::empty(),
        // C06: the header of an opened core can be written back (its manifest names the hash and signature scheme of the format)
        r is Ok ==> manifest_std(r->Ok_0.header.manifest),
        // opening existing storage writes nothing; creating writes only the first header slot
        r is Ok ==> r->Ok_0.storage.journal@.len() <= storage.journal@.len() + 2
    sub `Signature::try_from\(&\*([\w\.]+)\.signature\)` => `Signature::vp_try_from(&*\1.signature)`
    sub `BlockStore::default\(\)` => `BlockStore {}`
    sub `for entry in entries\.iter\(\) \{` => `for entry in it_e: entries.iter() {`
    sub `for node in &entry\.tree_nodes \{` => `for node in it_n: entry.tree_nodes.iter() {`
    loop 1:
        invariant
            !storage.failed@, bitfield.wf(), storage.journal@.len() <= old_journal_len + 2,
            manifest_std(oplog_open_outcome.header.manifest),
            // C01 / C02 replay of the pending entries (redo log): every stored bitfield update and tree upgrade is applied, in order
            forall|k: int| #![trigger bitfield.bit(k)] 0 <= k ==> bitfield.bit(k) == replay_bit(bits0, entries@, it_e.index@ as int, k),
            tree.length == replay_len(len0, entries@, it_e.index@ as int), tree.fork == replay_fork(fork0, entries@, it_e.index@ as int)
    loop 2:
        invariant
            !storage.failed@, bitfield.wf(), storage.journal@.len() <= old_journal_len + 2,
            manifest_std(oplog_open_outcome.header.manifest),
            tree.length == replay_len(len0, entries@, it_e.index@ as int), tree.fork == replay_fork(fork0, entries@, it_e.index@ as int),
            forall|j: int| 0 <= j < it_n.index@ ==> tree.unflushed@.contains_key((#[trigger] entry.tree_nodes@[j]).index)
    after `tree.commit(changeset)?;`:
        // C05: after replaying a stored tree upgrade the tree carries the signature stored WITH that upgrade (the one the writer
        // made over these roots, this length and fork), not an older one
        assert(tree.signature is Some && tree.signature->Some_0.sig_bytes() == tree_upgrade.signature@);
    before `if let Some(bitfield_update) = &entry.bitfield {`:
        // C01 / C03: every tree node stored in a pending entry is restored on reopen, whether or not the entry carries a tree
        // upgrade (a block received without an upgrade is logged as nodes + bitfield update only)
        assert(forall|j: int| 0 <= j < entry.tree_nodes@.len() ==> tree.unflushed@.contains_key((#[trigger] entry.tree_nodes@[j]).index));
    first:
        let ghost old_journal_len = storage.journal@.len();
        // C13: the event channel created for the core holds the 32 undrained events the property allows a subscriber to lag by
        let vp_cap: usize = crate::replication::events::MAX_EVENT_QUEUE_CAPACITY;
        assert(vp_cap >= 32);
    before `for entry in it_e: entries.iter() {`:
        let ghost bits0 = |k: int| bitfield.bit(k);
        let ghost len0 = tree.length;
        let ghost fork0 = tree.fork;
    unproved-from `bitfield.update(bitfield_update);` to `if let Some(tree_upgrade) = &entry.tree_upgrade {`:
        replaying entries read from disk: the ranges carried by stored entries and the exactness of the stored hint
        depend on the contents of the oplog file, which no contract on this function can constrain
    @*/
}

} // verus!
fn main() {}
