// unit core_ops: src/core.rs (async erased, R4) over a journalling Storage and a ghost event trace
//   C01 C02 C04 C08 C10 C12 C13
#![feature(allocator_api)]
use vstd::prelude::*;
verus! {

//@include shim/std_gaps.rs
//@include shim/compact_encoding.rs
//@include shim/fixedwidth.rs
//@include shim/flat_tree.rs
//@include shim/crypto.rs
//@include shim/either.rs
//@include shim/intmap.rs
pub use compact_encoding::*;
pub use intmap::IntMap;
pub use ed25519_dalek::{SigningKey, VerifyingKey, Signature, PUBLIC_KEY_LENGTH, SECRET_KEY_LENGTH};
broadcast use vp_std::group_std_gaps, compact_encoding::lemma_enc_uint_len, ed25519_dalek::group_key_lens, compact_encoding::axiom_enc_strings_empty;

/*@ item dep:compact-encoding-2.2.0/src/lib.rs macro sum_encoded_size @*/
/*@ item dep:compact-encoding-2.2.0/src/lib.rs macro map_encode @*/
/*@ item dep:compact-encoding-2.2.0/src/lib.rs macro map_decode @*/

//@include shim/common_types.rs
//@include shim/node_types.rs
//@include shim/oplog_format.rs
//@include shim/oplog_codec_assumed.rs
//@include shim/errors.rs
//@include shim/storage.rs
//@include shim/events.rs
//@include-assumed frag/bitfield.rs
//@include-assumed frag/oplog.rs
//@include frag/merkle_core.rs

// ======================= src/data/mod.rs =======================
/*@ item src/data/mod.rs struct BlockStore @*/
/*@ item src/common/node.rs struct NodeByteRange @*/
pub open spec fn concat_blocks(batch: Seq<&[u8]>, upto: int) -> Seq<u8>
    decreases upto
{ if upto <= 0 { Seq::<u8>::empty() } else { concat_blocks(batch, upto - 1) + batch[upto - 1]@ } }

impl BlockStore {
    /*@ fn src/data/mod.rs BlockStore::append_batch
    tags: C01 C02 C06
    result: r
    ensures:
        is_write(r, Store::Data, byte_length as int, concat_blocks(batch@, batch@.len() as int))
    sub `append_batch<A: AsRef<\[u8\]>, B: AsRef<\[A\]>>\(` => `append_batch(`
    sub `batch: B,` => `batch: &[&[u8]],`
    sub `batch\.as_ref\(\)\.iter\(\)` => `it: batch.iter()`
    sub `data\.as_ref\(\)` => `data`
    loop 1:
        invariant
            buffer@ == concat_blocks(batch@, it.index@ as int)
    @*/
    /*@ fn src/data/mod.rs BlockStore::put
    tags: C01 C02 C03 C06
    result: r
    ensures:
        is_write(r, Store::Data, offset as int, value@)
    @*/
    /*@ fn src/data/mod.rs BlockStore::read
    tags: C01
    result: r
    requires:
        info is Some ==> info->Some_0.data is Some
    ensures:
        info is Some ==> r is Right && r->Right_0@ == info->Some_0.data->Some_0@,
        info is None ==> r is Left && r->Left_0.store == Store::Data && r->Left_0.info_type == StoreInfoType::Content
            && r->Left_0.index == byte_range.index && r->Left_0.length == Some(byte_range.length) && !r->Left_0.allow_miss
    @*/
    /*@ fn src/data/mod.rs BlockStore::clear
    tags: C01 C02
    result: r
    ensures:
        r.store == Store::Data && r.info_type == StoreInfoType::Content && r.miss && r.index == start && r.length == Some(length),
        flushable(r)
    @*/
}

// ======================= src/core.rs =======================
pub mod bitfield { pub use crate::DynamicBitfield as Bitfield; }
pub use bitfield::Bitfield;
pub use replication::events::{Ev, Events};
/*@ item src/core.rs struct Hypercore @*/
/*@ item src/core.rs struct AppendOutcome @*/
/*@ item src/core.rs struct Info @*/

/// header-size invariant: nothing but the fixed-size fields is ever stored, so both slots fit their 4096 bytes
pub open spec fn header_small(h: Header) -> bool {
    h.user_data@.len() == 0 && h.hints.reorgs@.len() == 0 && h.tree.root_hash@.len() <= 32 && h.tree.signature@.len() <= 64
}
pub proof fn lemma_header_small_fits(h: Header)
    requires header_small(h)
    ensures header_fits(h)
{
    broadcast use ed25519_dalek::group_key_lens, compact_encoding::lemma_enc_uint_len, compact_encoding::axiom_enc_strings_empty;
}

/// the page writes of a bitfield flush
pub open spec fn bitfield_infos_ok(infos: Seq<StoreInfo>) -> bool {
    forall|i: int| 0 <= i < infos.len() ==> (#[trigger] infos[i]).store == Store::Bitfield && infos[i].info_type == StoreInfoType::Content
        && !infos[i].miss && infos[i].data is Some && infos[i].data->Some_0@.len() == 4096 && infos[i].index % 4096 == 0
}
/// the writes of a tree flush: an optional truncate first, then 40-byte node records
pub open spec fn tree_infos_ok(infos: Seq<StoreInfo>) -> bool {
    forall|i: int| 0 <= i < infos.len() ==> is_node_write(#[trigger] infos[i]) || (i == 0 && infos[0].store == Store::Tree
        && infos[0].info_type == StoreInfoType::Size && infos[0].miss)
}
/// the writes of an oplog flush: header slot write(s), then truncate to 8192
pub open spec fn oplog_flush_infos_ok(infos: Seq<StoreInfo>, h: Header, bits: [bool; 2], clear_traces: bool) -> bool {
    let first = bits[0] != bits[1];
    if clear_traces {
        infos.len() == 3
            && is_slot_write(infos[0], if first { 0int } else { 4096int }, h, if first { !bits[0] } else { !bits[1] }, 4096)
            && is_slot_write(infos[1], if first { 4096int } else { 0int }, h, if first { !bits[1] } else { !bits[0] }, 4096)
            && is_truncate(infos[2], Store::Oplog, 8192)
    } else {
        infos.len() == 2
            && is_slot_write(infos[0], if first { 0int } else { 4096int }, h, if first { !bits[0] } else { !bits[1] }, 8 + 2 * header_enc(h).len() as int)
            && is_truncate(infos[1], Store::Oplog, 8192)
    }
}

impl Hypercore {
    pub open spec fn wf(&self) -> bool {
        &&& self.bitfield.wf()
        &&& !self.storage.failed@
        &&& header_small(self.header)
        &&& self.oplog.entries_byte_length <= 0xffff_ffff_ff && self.oplog.entries_length <= 0xffff_ffff_ff
        &&& self.tree.truncate_to <= 0xffff_ffff_ffff
        &&& self.skip_flush_count <= 3
    }
    /// the observable in-memory state (everything except storage, oplog bookkeeping and pending-write queues)
    pub open spec fn same_view(&self, o: &Hypercore) -> bool {
        &&& forall|k: int| self.bitfield.bit(k) == o.bitfield.bit(k)
        &&& self.tree.length == o.tree.length && self.tree.byte_length == o.tree.byte_length && self.tree.fork == o.tree.fork
        &&& self.tree.roots == o.tree.roots && self.tree.signature == o.tree.signature
        &&& self.header == o.header && self.key_pair == o.key_pair
        &&& self.events.trace@ == o.events.trace@
    }

    /*@ fn src/core.rs Hypercore::info
    tags: C01 C08 C12
    result: r
    ensures:
        r.length == self.tree.length, r.byte_length == self.tree.byte_length,
        r.contiguous_length == self.header.hints.contiguous_length, r.fork == self.tree.fork,
        r.writeable == (self.key_pair.secret is Some)
    @*/

    /*@ fn src/core.rs Hypercore::has
    tags: C01 C08
    result: r
    ensures:
        r == self.bitfield.bit(index as int)
    @*/

    /*@ fn src/core.rs Hypercore::should_flush_bitfield_and_tree_and_oplog
    tags: C02
    result: r
    requires:
        old(self).skip_flush_count <= 3
    ensures:
        // first call on an instance and then every 4th, or as soon as the entries exceed 64 KiB
        r == (old(self).skip_flush_count == 0 || old(self).oplog.entries_byte_length >= 65536),
        final(self).skip_flush_count == (if r { 3u8 } else { (old(self).skip_flush_count - 1) as u8 }),
        final(self).same_view(old(self)), final(self).storage == old(self).storage, final(self).oplog == old(self).oplog,
        final(self).bitfield == old(self).bitfield, final(self).tree == old(self).tree, final(self).block_store == old(self).block_store
    @*/

    /*@ fn src/core.rs Hypercore::flush_bitfield_and_tree_and_oplog
    tags: C02 C10 C12 C06
    result: r
    requires:
        old(self).wf()
    ensures:
        final(self).same_view(old(self)),
        final(self).skip_flush_count == old(self).skip_flush_count,
        final(self).storage.reads@ == old(self).storage.reads@,
        // C10: a failed storage operation is reported, nothing is issued after it
        (r is Err) == final(self).storage.failed@,
        r is Ok ==> final(self).wf() && final(self).oplog.entries_byte_length == 0 && final(self).oplog.entries_length == 0,
        r is Ok && !clear_traces ==> Oplog::cur_hbit(final(self).oplog.header_bits) != Oplog::cur_hbit(old(self).oplog.header_bits),
        // C02: bitfield pages, then tree (truncate first, then nodes), then the header slot(s), then the truncate of the entries
        r is Ok ==> (exists|ib: Seq<StoreInfo>, it_: Seq<StoreInfo>, io: Seq<StoreInfo>|
            #![trigger ops_of(ib), ops_of(it_), ops_of(io)]
            final(self).storage.journal@ == old(self).storage.journal@ + ops_of(ib) + ops_of(it_) + ops_of(io)
            && bitfield_infos_ok(ib) && tree_infos_ok(it_)
            && oplog_flush_infos_ok(io, old(self).header, old(self).oplog.header_bits, clear_traces))
    @*/
}

} // verus!
fn main() {}
