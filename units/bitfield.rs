// unit bitfield: src/bitfield/fixed.rs and src/bitfield/dynamic.rs against the bit-exact view and the JS page layout
#![feature(allocator_api)]
use vstd::prelude::*;
verus! {

//@include shim/std_gaps.rs
broadcast use vp_std::group_std_gaps;
//@include shim/intmap.rs
//@include shim/either.rs
//@include shim/common_types.rs

//@include frag/bitfield.rs

} // verus!
fn main() {}
