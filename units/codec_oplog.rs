// unit codec_oplog: src/oplog/entry.rs against the JS on-disk format of oplog entries (C01 C06);
// the header codecs are in unit codec_header
#![feature(allocator_api)]
use vstd::prelude::*;
verus! {

//@include shim/std_gaps.rs
//@include shim/compact_encoding.rs
//@include shim/flat_tree.rs
//@include shim/crypto.rs
pub use ed25519_dalek::{SigningKey, VerifyingKey, PUBLIC_KEY_LENGTH, SECRET_KEY_LENGTH};
pub use compact_encoding::*;
broadcast use vp_std::group_std_gaps, compact_encoding::lemma_enc_uint_len;
/*@ default-first broadcast use compact_encoding::lemma_prefix_concat, compact_encoding::lemma_strict_prefix_concat, compact_encoding::lemma_pfx_len, compact_encoding::lemma_pfx_empty; @*/

/*@ item dep:compact-encoding-2.2.0/src/lib.rs macro sum_encoded_size @*/
/*@ item dep:compact-encoding-2.2.0/src/lib.rs macro map_encode @*/
/*@ item dep:compact-encoding-2.2.0/src/lib.rs macro map_decode @*/

//@include shim/node_codec.rs
/*@ item src/common/mod.rs struct BitfieldUpdate @*/
//@include shim/entry_format.rs

impl CompactEncoding for EntryTreeUpgrade {
    open spec fn spec_enc(&self) -> Seq<u8> { Self::dec_enc(*self) }
    open spec fn dec_enc(d: Self) -> Seq<u8> { upgrade_enc(d) }
    open spec fn enc_ok(&self) -> bool { true }
    open spec fn dec_ok(d: Self) -> bool { true }
    open spec fn eqv(a: Self, b: Self) -> bool { upgrade_eqv(a, b) }
    /*@ fn src/oplog/entry.rs CompactEncoding for EntryTreeUpgrade::encoded_size ; novis
    tags: C01 C06 C02
    result: r
    ensures:
        r is Ok ==> r->Ok_0 <= 4 * SIZE_BOUND
    @*/
    /*@ fn src/oplog/entry.rs CompactEncoding for EntryTreeUpgrade::encode ; novis
    tags: C01 C06 C02
    @*/
    /*@ fn src/oplog/entry.rs CompactEncoding for EntryTreeUpgrade::decode ; novis
    tags: C01 C06 C02
    @*/
}

// drop flag is one byte (bit 0), then start and length varints
impl CompactEncoding for BitfieldUpdate {
    open spec fn spec_enc(&self) -> Seq<u8> { Self::dec_enc(*self) }
    open spec fn dec_enc(d: Self) -> Seq<u8> { bitfield_update_enc(d) }
    open spec fn enc_ok(&self) -> bool { true }
    open spec fn dec_ok(d: Self) -> bool { true }
    open spec fn eqv(a: Self, b: Self) -> bool { a == b }
    /*@ fn src/oplog/entry.rs CompactEncoding for BitfieldUpdate::encoded_size ; novis
    tags: C01 C06 C02 C08
    result: r
    ensures:
        r is Ok ==> r->Ok_0 <= 1 + 2 * SIZE_BOUND
    @*/
    /*@ fn src/oplog/entry.rs CompactEncoding for BitfieldUpdate::encode ; novis
    tags: C01 C06 C02 C08
    @*/
    /*@ fn src/oplog/entry.rs CompactEncoding for BitfieldUpdate::decode ; novis
    tags: C01 C06 C02 C08
    last:
        proof {
            assert(1u8 & 1 == 1) by (bit_vector);
            assert(0u8 & 1 == 0) by (bit_vector);
            assert forall|d: BitfieldUpdate| #[trigger] pfx(Self::dec_enc(d), buffer@) implies
                flags == (if d.drop { 1u8 } else { 0u8 }) by {
                let f = seq![if d.drop { 1u8 } else { 0u8 }];
                assert(pfx(f + u64::dec_enc(d.start), buffer@));
                assert(pfx(f, buffer@));
                assert(f[0] == buffer@[0]);
            }
        }
    @*/
}


pub proof fn lemma_flag_bits(fa: u8, fb: u8, fc: u8, fd: u8)
    requires fa == 0 || fa == 1, fb == 0 || fb == 2, fc == 0 || fc == 4, fd == 0 || fd == 8
    ensures
        ((fa | fb | fc | fd) & 1 != 0) == (fa == 1), ((fa | fb | fc | fd) & 2 != 0) == (fb == 2),
        ((fa | fb | fc | fd) & 4 != 0) == (fc == 4), ((fa | fb | fc | fd) & 8 != 0) == (fd == 8),
        0u8 | fa == fa, (0u8 | fa) | fb == fa | fb
{
    assert(((fa | fb | fc | fd) & 1 != 0) == (fa == 1) && ((fa | fb | fc | fd) & 2 != 0) == (fb == 2)
        && ((fa | fb | fc | fd) & 4 != 0) == (fc == 4) && ((fa | fb | fc | fd) & 8 != 0) == (fd == 8)
        && 0u8 | fa == fa) by (bit_vector)
        requires fa == 0 || fa == 1, fb == 0 || fb == 2, fc == 0 || fc == 4, fd == 0 || fd == 8;
}
/// candidate d is consistent with a decoder that has consumed the flags byte and sections < k, leaving r
#[verifier::opaque]
pub open spec fn entry_chain(k: int, d: Entry, buffer: Seq<u8>, flags: u8, r: Seq<u8>) -> bool {
    &&& flags == entry_flags(d)
    &&& pfx(entry_tail(k, d), r)
    &&& entry_tail(k, d).len() <= entry_enc(d).len() <= buffer.len()
    &&& r == buffer.skip(entry_enc(d).len() - entry_tail(k, d).len())
}
/// same for a candidate of which the buffer is only a strict prefix
#[verifier::opaque]
pub open spec fn entry_schain(k: int, d: Entry, flags: u8, r: Seq<u8>) -> bool {
    &&& flags == entry_flags(d)
    &&& r.len() < entry_tail(k, d).len()
    &&& pfx(r, entry_tail(k, d))
}

pub proof fn lemma_entry_bits(d: Entry, k: int)
    requires 1 <= k <= 4
    ensures (entry_flags(d) & entry_bit(k) != 0) == entry_present(k, d)
{
    lemma_flag_bits(if d.user_data@.len() > 0 { 1u8 } else { 0u8 }, if d.tree_nodes@.len() > 0 { 2u8 } else { 0u8 },
        if d.tree_upgrade is Some { 4u8 } else { 0u8 }, if d.bitfield is Some { 8u8 } else { 0u8 });
}
pub proof fn lemma_chain_start(d: Entry, buffer: Seq<u8>)
    requires pfx(entry_enc(d), buffer)
    ensures buffer.len() >= 1, entry_chain(1, d, buffer, buffer[0], buffer.skip(1))
{
    reveal(entry_chain);
    lemma_prefix_concat(seq![entry_flags(d)], entry_tail(1, d), buffer);
    lemma_pfx_len(entry_enc(d), buffer);
}
pub proof fn lemma_schain_start(d: Entry, buffer: Seq<u8>)
    requires buffer.len() < entry_enc(d).len(), pfx(buffer, entry_enc(d)), buffer.len() >= 1
    ensures entry_schain(1, d, buffer[0], buffer.skip(1))
{
    reveal(entry_schain);
    lemma_strict_prefix_concat(seq![entry_flags(d)], entry_tail(1, d), buffer);
}
pub proof fn lemma_chain_next(k: int, d: Entry, buffer: Seq<u8>, flags: u8, r: Seq<u8>)
    requires 1 <= k <= 4, entry_chain(k, d, buffer, flags, r)
    ensures (flags & entry_bit(k) != 0) == entry_present(k, d), entry_present(k, d) ==> pfx(entry_sec(k, d), r)
{
    reveal(entry_chain);
    lemma_entry_bits(d, k);
    lemma_prefix_concat(opt_seq(entry_present(k, d), entry_sec(k, d)), entry_tail(k + 1, d), r);
}
pub proof fn lemma_chain_step(k: int, d: Entry, buffer: Seq<u8>, flags: u8, r: Seq<u8>, r2: Seq<u8>)
    requires 1 <= k <= 4, entry_chain(k, d, buffer, flags, r),
        entry_present(k, d) ==> r2 == r.skip(entry_sec(k, d).len() as int),
        !entry_present(k, d) ==> r2 == r
    ensures entry_chain(k + 1, d, buffer, flags, r2)
{
    reveal(entry_chain);
    let o = opt_seq(entry_present(k, d), entry_sec(k, d));
    lemma_prefix_concat(o, entry_tail(k + 1, d), r);
    assert(r.skip(0) =~= r);
    let n = entry_enc(d).len() - entry_tail(k, d).len();
    assert(buffer.skip(n).skip(o.len() as int) =~= buffer.skip(n + o.len()));
}
pub proof fn lemma_chain_end(d: Entry, buffer: Seq<u8>, flags: u8, r: Seq<u8>)
    requires entry_chain(5, d, buffer, flags, r)
    ensures r == buffer.skip(entry_enc(d).len() as int)
{ reveal(entry_chain); }
pub proof fn lemma_schain_next(k: int, d: Entry, flags: u8, r: Seq<u8>)
    requires 1 <= k <= 4, entry_schain(k, d, flags, r)
    ensures (flags & entry_bit(k) != 0) == entry_present(k, d),
        entry_present(k, d) && r.len() < entry_sec(k, d).len() ==> pfx(r, entry_sec(k, d)),
        entry_present(k, d) && r.len() >= entry_sec(k, d).len() ==> pfx(entry_sec(k, d), r)
{
    reveal(entry_schain);
    lemma_entry_bits(d, k);
    lemma_strict_prefix_concat(opt_seq(entry_present(k, d), entry_sec(k, d)), entry_tail(k + 1, d), r);
}
pub proof fn lemma_schain_step(k: int, d: Entry, flags: u8, r: Seq<u8>, r2: Seq<u8>)
    requires 1 <= k <= 4, entry_schain(k, d, flags, r),
        entry_present(k, d) ==> r.len() >= entry_sec(k, d).len() && r2 == r.skip(entry_sec(k, d).len() as int),
        !entry_present(k, d) ==> r2 == r
    ensures entry_schain(k + 1, d, flags, r2)
{
    reveal(entry_schain);
    lemma_strict_prefix_concat(opt_seq(entry_present(k, d), entry_sec(k, d)), entry_tail(k + 1, d), r);
    assert(r.skip(0) =~= r);
}
pub proof fn lemma_schain_end(d: Entry, flags: u8, r: Seq<u8>)
    requires entry_schain(5, d, flags, r)
    ensures false
{ reveal(entry_schain); }

impl CompactEncoding for Entry {
    open spec fn spec_enc(&self) -> Seq<u8> { Self::dec_enc(*self) }
    open spec fn dec_enc(d: Self) -> Seq<u8> { entry_enc(d) }
    open spec fn enc_ok(&self) -> bool { self.tree_nodes.enc_ok() }
    open spec fn dec_ok(d: Self) -> bool { <Vec<Node>>::dec_ok(d.tree_nodes) }
    open spec fn eqv(a: Self, b: Self) -> bool { entry_eqv(a, b) }
    /*@ fn src/oplog/entry.rs CompactEncoding for Entry::encoded_size ; novis
    tags: C01 C06 C02
    first:
        reveal_with_fuel(entry_tail, 6);
    @*/
    /*@ fn src/oplog/entry.rs CompactEncoding for Entry::encode ; novis
    tags: C01 C06 C02
    first:
        reveal_with_fuel(entry_tail, 6);
    after `let mut flags = 0u8;`:
        let ghost fa: u8 = if self.user_data@.len() > 0 { 1u8 } else { 0u8 };
        let ghost fb: u8 = if self.tree_nodes@.len() > 0 { 2u8 } else { 0u8 };
        let ghost fc: u8 = if self.tree_upgrade is Some { 4u8 } else { 0u8 };
        let ghost fd: u8 = if self.bitfield is Some { 8u8 } else { 0u8 };
        proof { lemma_flag_bits(fa, fb, fc, fd); }
    before `flag_buf[0] = flags;`:
        assert(flags == entry_flags(*self)) by {
            assert(0u8 | 1 == 1 && 0u8 | 2 == 2 && 0u8 | 4 == 4 && 0u8 | 8 == 8) by (bit_vector);
            assert(forall|x: u8| #![auto] x | 0 == x) by (bit_vector);
        }
    @*/
    /*@ fn src/oplog/entry.rs CompactEncoding for Entry::decode ; novis nofirst
    tags: C01 C06 C02
    first:
        broadcast use compact_encoding::lemma_pfx_len;
        assert forall|d: Entry| #![trigger Self::dec_enc(d)] Self::dec_enc(d).len() >= 1 by {}
    after `let flags = vp_arr_flags[0];`:
        let ghost r0 = rest@;
        proof {
            assert forall|d: Entry| Self::dec_ok(d) && #[trigger] pfx(Self::dec_enc(d), buffer@) implies
                entry_chain(1, d, buffer@, flags, r0) by { lemma_chain_start(d, buffer@); }
            assert forall|d: Entry| Self::dec_ok(d) && buffer@.len() < Self::dec_enc(d).len() && #[trigger] pfx(buffer@, Self::dec_enc(d)) implies
                entry_schain(1, d, flags, r0) by { lemma_schain_start(d, buffer@); }
            assert forall|d: Entry| Self::dec_ok(d) && #[trigger] pfx(Self::dec_enc(d), buffer@) implies
                (flags & 1 != 0) == entry_present(1, d) && (entry_present(1, d) ==> pfx(entry_sec(1, d), r0)) by {
                lemma_chain_next(1, d, buffer@, flags, r0);
            }
            assert forall|d: Entry| Self::dec_ok(d) && buffer@.len() < Self::dec_enc(d).len() && #[trigger] pfx(buffer@, Self::dec_enc(d)) implies
                (flags & 1 != 0) == entry_present(1, d)
                && (entry_present(1, d) && r0.len() < entry_sec(1, d).len() ==> pfx(r0, entry_sec(1, d)))
                && (entry_present(1, d) && r0.len() >= entry_sec(1, d).len() ==> pfx(entry_sec(1, d), r0)) by {
                lemma_schain_next(1, d, flags, r0);
            }
        }
    before `let (tree_nodes, rest) = if`:
        let ghost r1 = rest@;
        proof {
            assert forall|d: Entry| Self::dec_ok(d) && #[trigger] pfx(Self::dec_enc(d), buffer@) implies
                entry_chain(2, d, buffer@, flags, r1) && user_data@ =~= d.user_data@ by {
                lemma_chain_step(1, d, buffer@, flags, r0, r1);
                
            }
            assert forall|d: Entry| Self::dec_ok(d) && buffer@.len() < Self::dec_enc(d).len() && #[trigger] pfx(buffer@, Self::dec_enc(d)) implies
                entry_schain(2, d, flags, r1) by {
                lemma_schain_step(1, d, flags, r0, r1);
                
            }
            assert forall|d: Entry| Self::dec_ok(d) && #[trigger] pfx(Self::dec_enc(d), buffer@) implies
                (flags & 2 != 0) == entry_present(2, d) && (entry_present(2, d) ==> pfx(entry_sec(2, d), r1)) by {
                lemma_chain_next(2, d, buffer@, flags, r1);
            }
            assert forall|d: Entry| Self::dec_ok(d) && buffer@.len() < Self::dec_enc(d).len() && #[trigger] pfx(buffer@, Self::dec_enc(d)) implies
                (flags & 2 != 0) == entry_present(2, d)
                && (entry_present(2, d) && r1.len() < entry_sec(2, d).len() ==> pfx(r1, entry_sec(2, d)))
                && (entry_present(2, d) && r1.len() >= entry_sec(2, d).len() ==> pfx(entry_sec(2, d), r1)) by {
                lemma_schain_next(2, d, flags, r1);
            }
        }
    before `let (tree_upgrade, rest) = if`:
        let ghost r2 = rest@;
        proof {
            assert forall|d: Entry| Self::dec_ok(d) && #[trigger] pfx(Self::dec_enc(d), buffer@) implies
                entry_chain(3, d, buffer@, flags, r2) && <Vec<Node>>::eqv(tree_nodes, d.tree_nodes) by {
                lemma_chain_step(2, d, buffer@, flags, r1, r2);
                
            }
            assert forall|d: Entry| Self::dec_ok(d) && buffer@.len() < Self::dec_enc(d).len() && #[trigger] pfx(buffer@, Self::dec_enc(d)) implies
                entry_schain(3, d, flags, r2) by {
                lemma_schain_step(2, d, flags, r1, r2);
                
            }
            assert forall|d: Entry| Self::dec_ok(d) && #[trigger] pfx(Self::dec_enc(d), buffer@) implies
                (flags & 4 != 0) == entry_present(3, d) && (entry_present(3, d) ==> pfx(entry_sec(3, d), r2)) by {
                lemma_chain_next(3, d, buffer@, flags, r2);
            }
            assert forall|d: Entry| Self::dec_ok(d) && buffer@.len() < Self::dec_enc(d).len() && #[trigger] pfx(buffer@, Self::dec_enc(d)) implies
                (flags & 4 != 0) == entry_present(3, d)
                && (entry_present(3, d) && r2.len() < entry_sec(3, d).len() ==> pfx(r2, entry_sec(3, d)))
                && (entry_present(3, d) && r2.len() >= entry_sec(3, d).len() ==> pfx(entry_sec(3, d), r2)) by {
                lemma_schain_next(3, d, flags, r2);
            }
        }
    before `let (bitfield, rest) = if`:
        let ghost r3 = rest@;
        proof {
            assert forall|d: Entry| Self::dec_ok(d) && #[trigger] pfx(Self::dec_enc(d), buffer@) implies
                entry_chain(4, d, buffer@, flags, r3) && (tree_upgrade is Some) == (d.tree_upgrade is Some) && (tree_upgrade is Some ==> EntryTreeUpgrade::eqv(tree_upgrade->Some_0, d.tree_upgrade->Some_0)) by {
                lemma_chain_step(3, d, buffer@, flags, r2, r3);
                
            }
            assert forall|d: Entry| Self::dec_ok(d) && buffer@.len() < Self::dec_enc(d).len() && #[trigger] pfx(buffer@, Self::dec_enc(d)) implies
                entry_schain(4, d, flags, r3) by {
                lemma_schain_step(3, d, flags, r2, r3);
                
            }
            assert forall|d: Entry| Self::dec_ok(d) && #[trigger] pfx(Self::dec_enc(d), buffer@) implies
                (flags & 8 != 0) == entry_present(4, d) && (entry_present(4, d) ==> pfx(entry_sec(4, d), r3)) by {
                lemma_chain_next(4, d, buffer@, flags, r3);
            }
            assert forall|d: Entry| Self::dec_ok(d) && buffer@.len() < Self::dec_enc(d).len() && #[trigger] pfx(buffer@, Self::dec_enc(d)) implies
                (flags & 8 != 0) == entry_present(4, d)
                && (entry_present(4, d) && r3.len() < entry_sec(4, d).len() ==> pfx(r3, entry_sec(4, d)))
                && (entry_present(4, d) && r3.len() >= entry_sec(4, d).len() ==> pfx(entry_sec(4, d), r3)) by {
                lemma_schain_next(4, d, flags, r3);
            }
        }
    last:
        let ghost r4 = rest@;
        proof {
            assert forall|d: Entry| Self::dec_ok(d) && #[trigger] pfx(Self::dec_enc(d), buffer@) implies
                entry_chain(5, d, buffer@, flags, r4) && bitfield == d.bitfield && r4 == buffer@.skip(Self::dec_enc(d).len() as int) by {
                lemma_chain_step(4, d, buffer@, flags, r3, r4);
                lemma_chain_end(d, buffer@, flags, r4);
            }
            assert forall|d: Entry| Self::dec_ok(d) && buffer@.len() < Self::dec_enc(d).len() && #[trigger] pfx(buffer@, Self::dec_enc(d)) implies
                false by {
                lemma_schain_step(4, d, flags, r3, r4);
                lemma_schain_end(d, flags, r4);
            }
        }
    @*/
}

} // verus!
fn main() {}
