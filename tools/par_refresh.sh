#!/bin/bash
# Re-run every kept seeded change against the current machinery, three at a time, each worker with its own scratch worktree of
# /repo (HV_REPO) and its own copy of /verif, then copy the refreshed meta.json files back.  Usage: tools/par_refresh.sh
set -e
V=$(cd "$(dirname "$0")/.." && pwd)
cd "$V"
ids=($(ls seeded)); n=${#ids[@]}
for k in 0 1 2; do
  git -C /repo worktree remove --force /tmp/rw_$k 2>/dev/null || true; rm -rf /tmp/rw_$k /tmp/vs_$k
  git -C /repo worktree add -q --detach /tmp/rw_$k HEAD; cp /repo/Cargo.lock /tmp/rw_$k/
  rsync -a --exclude .git --exclude replay_out --exclude .cache "$V"/ /tmp/vs_$k/
  share=""; for ((i=k;i<n;i+=3)); do share="$share ${ids[$i]}"; done
  ( cd /tmp/vs_$k && python3 tools/refresh_seeded.py --repo /tmp/rw_$k $share > /tmp/refresh_$k.log 2>&1 ) &
done
wait
for k in 0 1 2; do
  for d in /tmp/vs_$k/seeded/*; do nme=$(basename $d); if grep -q "^$nme " /tmp/refresh_$k.log; then cp $d/meta.json "$V"/seeded/$nme/meta.json; fi; done
  cat /tmp/refresh_$k.log
  git -C /repo worktree remove --force /tmp/rw_$k; rm -rf /tmp/vs_$k /tmp/rw_$k
done
git -C /repo worktree prune
