#!/usr/bin/env python3
"""Confirm a seeded change produced by a sub-agent and run our checks against it.

usage: tools/confirm_seeded.py <dir with patch.diff demo.rs meta.json> <seeded id> <property> [more properties..]

1. in a scratch worktree of /repo HEAD (outside /repo and /verif): the demo passes without the patch, fails with it,
   and the existing test suite passes with the patch;
2. apply the patch to /repo, run `./check <prop>` for the given properties, undo the patch;
3. store everything under /verif/seeded/<id>/ (patch.diff, demo.rs, meta.json with what was run and what our checks said).
"""
import json
import os
import shutil
import subprocess
import sys

V = os.path.dirname(os.path.dirname(os.path.abspath(__file__)))


def sh(cmd, cwd=None, env=None, timeout=3600):
    p = subprocess.run(cmd, shell=True, cwd=cwd, env=env, capture_output=True, text=True, timeout=timeout)
    return p.returncode, p.stdout + p.stderr


def main():
    src, sid = sys.argv[1], sys.argv[2]
    props = sys.argv[3:]
    # lanes: several confirmations side by side, each with its own scratch worktree / target dir / checked tree
    wt = os.environ.get("CONFIRM_WT", "/tmp/confirm_wt")
    REPO = os.environ.get("CONFIRM_REPO", "/repo")       # the tree the patch is applied to for our checks (default: /repo itself)
    env = dict(os.environ, CARGO_TARGET_DIR=os.environ.get("CONFIRM_TARGET", "/tmp/confirm_target"), CARGO_NET_OFFLINE="true")
    sh("git -C /repo worktree remove --force %s" % wt)
    shutil.rmtree(wt, ignore_errors=True)
    rc, out = sh("git -C /repo worktree add -q --detach %s HEAD && cp /repo/Cargo.lock %s/" % (wt, wt))
    if rc:
        print(out)
        return 2
    ran = []
    result = {"id": sid}
    try:
        shutil.copy(os.path.join(src, "demo.rs"), os.path.join(wt, "tests", "verif_demo.rs"))
        rc0, o0 = sh("cargo test --offline --test verif_demo 2>&1 | tail -15", cwd=wt, env=env)
        base_ok = "test result: ok" in o0 and "FAILED" not in o0
        ran.append("unmodified HEAD + demo: %s" % ("passes" if base_ok else "FAILS: " + o0[-400:]))
        rc, o = sh("git apply %s" % os.path.join(src, "patch.diff"), cwd=wt)
        if rc:
            ran.append("patch does not apply to current HEAD: " + o[-300:])
            result["confirmed"] = False
        else:
            rc1, o1 = sh("cargo test --offline --test verif_demo 2>&1 | tail -25", cwd=wt, env=env)
            mut_fails = ("FAILED" in o1 or "panicked" in o1 or "error" in o1.lower()) and "could not compile" not in o1
            ran.append("patched + demo: %s" % ("fails (as required)" if mut_fails else "does NOT fail: " + o1[-300:]))
            os.unlink(os.path.join(wt, "tests", "verif_demo.rs"))
            rc2, o2 = sh("cargo test --offline --workspace --no-fail-fast 2>&1 | grep -E 'test result|FAILED|error:|error\\[' | head -20", cwd=wt, env=env)
            suite_ok = "FAILED" not in o2 and "error:" not in o2 and "error[" not in o2 and o2.count("test result: ok") >= 4
            ran.append("patched, existing suite: %s" % ("passes" if suite_ok else "FAILS: " + o2[-400:]))
            result["confirmed"] = bool(base_ok and mut_fails and suite_ok)
    finally:
        sh("git -C /repo worktree remove --force %s" % wt)
        shutil.rmtree(wt, ignore_errors=True)
    # our checks
    checks = {}
    rc, o = sh("git -C %s status --porcelain --untracked-files=no" % REPO)
    if o.strip():
        print("refusing: %s has uncommitted changes:\n" % REPO + o)
        return 2
    rc, o = sh("git -C %s apply %s" % (REPO, os.path.join(src, "patch.diff")))
    if rc:
        ran.append("patch does not apply to %s: " % REPO + o[-300:])
    else:
        try:
            for p in props:
                rc, o = sh("./check %s --tier quick" % p, cwd=V, timeout=3000, env=dict(os.environ, HV_REPO=REPO))
                lines = [l for l in o.splitlines() if l.startswith(("VIOLATION", "KNOWN-FINDING", "CANNOT-DECIDE", p))]
                checks[p] = {"exit": rc, "lines": lines[:8]}
        finally:
            sh("git -C %s checkout -- ." % REPO)
    result["checks"] = checks
    result["detected_by"] = [p for p, c in checks.items() if c["exit"] == 1]
    result["undecided_by"] = [p for p, c in checks.items() if c["exit"] == 2]
    dst = os.path.join(V, "seeded", sid)
    os.makedirs(dst, exist_ok=True)
    shutil.copy(os.path.join(src, "patch.diff"), dst)
    shutil.copy(os.path.join(src, "demo.rs"), dst)
    meta = {}
    try:
        meta = json.load(open(os.path.join(src, "meta.json")))
    except Exception as e:
        meta = {"note": "sub-agent meta.json unreadable: %s" % e}
    meta["id"] = sid
    meta["confirmed_by_us"] = result.get("confirmed")
    meta["what_we_ran"] = ran
    meta["our_checks"] = checks
    meta["repo_head"] = sh("git -C /repo log --format=%h -1")[1].strip()
    json.dump(meta, open(os.path.join(dst, "meta.json"), "w"), indent=1)
    print(json.dumps({"id": sid, "confirmed": result.get("confirmed"), "ran": ran, "detected_by": result["detected_by"],
                      "undecided_by": result["undecided_by"], "checks": checks}, indent=1))
    return 0


if __name__ == "__main__":
    sys.exit(main())
