#!/usr/bin/env python3
"""Regenerate the table of DESIGN.md section 9 from seeded/*/meta.json (between the markers
<!-- seed-table:begin --> and <!-- seed-table:end -->)."""
import json, os, re
V = os.path.dirname(os.path.dirname(os.path.abspath(__file__)))


def caught(meta):
    parts = []
    own = meta.get("property")
    ch = meta.get("our_checks", {})
    order = sorted(ch, key=lambda p: (p != own, p))
    for p in order:
        c = ch[p]
        if c.get("exit") != 1:
            continue
        obs = []
        for l in c.get("lines", []):
            if l.startswith("VIOLATION"):
                m = re.search(r"obligation=(\S+)", l)
                ob = m.group(1) if m else "?"
                if l.rstrip().endswith("no-failing-input-found"):
                    ob += " (no input)"
                obs.append("`%s`" % ob if "(no input)" not in ob else "`%s (no input)`" % ob.replace(" (no input)", ""))
        parts.append("%s: %s" % (p, ", ".join(obs[:2]) or "violation"))
    if parts:
        return "; ".join(parts)
    und = [p for p in order if ch[p].get("exit") == 2]
    note = meta.get("thorough_note")
    if note:
        return "**not caught by the quick tier** (%s)" % note
    if und:
        return "**undecided** (exit 2) for %s" % ", ".join(und)
    return "**not caught**"


def main():
    rows = []
    for sid in sorted(os.listdir(os.path.join(V, "seeded"))):
        mp = os.path.join(V, "seeded", sid, "meta.json")
        if not os.path.exists(mp):
            continue
        m = json.load(open(mp))
        s = m.get("summary", "").replace("|", "//").replace("\n", " ")
        if len(s) > 170:
            s = s[:167] + "..."
        rows.append("| `%s` | %s | %s | %s |" % (sid, m.get("property", sid[:3]), s, caught(m)))
    table = ["| seeded id | property | change | caught by (quick tier) |", "|-----------|----------|--------|------------------------|"] + rows
    p = os.path.join(V, "DESIGN.md")
    d = open(p).read()
    b, e = "<!-- seed-table:begin -->", "<!-- seed-table:end -->"
    i, j = d.index(b), d.index(e)
    d = d[:i + len(b)] + "\n" + "\n".join(table) + "\n" + d[j:]
    open(p, "w").write(d)
    n_c = sum(1 for r in rows if "**" not in r)
    print("%d seeds, %d caught by the quick tier" % (len(rows), n_c))


if __name__ == "__main__":
    main()
