#!/usr/bin/env python3
"""Re-run our checks against kept seeded changes and refresh meta.json `our_checks`.
usage: tools/refresh_seeded.py [--repo DIR] [id ...]   (default: all, against /repo)
The patch is applied to the repository working tree (git apply), `./check <prop>` is run for the properties recorded in
meta.json with HV_REPO pointing at that tree, and the patch is undone (git checkout -- .). With --repo a scratch worktree
of /repo can be used so that several refreshes run side by side."""
import json, os, subprocess, sys
V = os.path.dirname(os.path.dirname(os.path.abspath(__file__)))


def sh(cmd, cwd=None, timeout=3600, env=None):
    p = subprocess.run(cmd, shell=True, cwd=cwd, capture_output=True, text=True, timeout=timeout, env=env)
    return p.returncode, p.stdout + p.stderr


def main():
    args = sys.argv[1:]
    repo = "/repo"
    if args and args[0] == "--repo":
        repo = args[1]
        args = args[2:]
    ids = args or sorted(os.listdir(os.path.join(V, "seeded")))
    env = dict(os.environ, HV_REPO=repo)
    rc, o = sh("git -C %s status --porcelain --untracked-files=no" % repo)
    if o.strip():
        print("refusing: %s has uncommitted changes" % repo)
        return 2
    for sid in ids:
        d = os.path.join(V, "seeded", sid)
        meta = json.load(open(os.path.join(d, "meta.json")))
        props = list(meta.get("our_checks", {}).keys()) or [meta.get("property", sid.split("-")[0])]
        rc, o = sh("git -C %s apply %s" % (repo, os.path.join(d, "patch.diff")))
        if rc:
            print(sid, "patch does not apply:", o[-200:])
            continue
        checks = {}
        try:
            for p in props:
                rc, o = sh("./check %s --tier quick" % p, cwd=V, timeout=3000, env=env)
                lines = [l for l in o.splitlines() if l.startswith(("VIOLATION", "KNOWN-FINDING", "CANNOT-DECIDE", p))]
                checks[p] = {"exit": rc, "lines": lines[:8]}
        finally:
            sh("git -C %s checkout -- ." % repo)
        meta["our_checks"] = checks
        meta["repo_head"] = sh("git -C %s log --format=%%h -1" % repo)[1].strip()
        json.dump(meta, open(os.path.join(d, "meta.json"), "w"), indent=1)
        print(sid, {p: c["exit"] for p, c in checks.items()}, flush=True)
    return 0


if __name__ == "__main__":
    sys.exit(main())
