#!/usr/bin/env python3
"""Re-run our checks against kept seeded changes (applies seeded/<id>/patch.diff to /repo, runs ./check for the
properties recorded in meta.json, undoes the patch) and refresh meta.json `our_checks`.
usage: tools/refresh_seeded.py [id ...]   (default: all)"""
import json, os, subprocess, sys
V = os.path.dirname(os.path.dirname(os.path.abspath(__file__)))

def sh(cmd, cwd=None, timeout=3600):
    p = subprocess.run(cmd, shell=True, cwd=cwd, capture_output=True, text=True, timeout=timeout)
    return p.returncode, p.stdout + p.stderr

def main():
    ids = sys.argv[1:] or sorted(os.listdir(os.path.join(V, "seeded")))
    rc, o = sh("git -C /repo status --porcelain")
    if o.strip():
        print("refusing: /repo has uncommitted changes"); return 2
    for sid in ids:
        d = os.path.join(V, "seeded", sid)
        meta = json.load(open(os.path.join(d, "meta.json")))
        props = list(meta.get("our_checks", {}).keys()) or [meta.get("property", sid.split("-")[0])]
        rc, o = sh("git -C /repo apply %s" % os.path.join(d, "patch.diff"))
        if rc:
            print(sid, "patch does not apply:", o[-200:]); continue
        checks = {}
        try:
            for p in props:
                rc, o = sh("./check %s --tier quick" % p, cwd=V, timeout=3000)
                lines = [l for l in o.splitlines() if l.startswith(("VIOLATION", "KNOWN-FINDING", "CANNOT-DECIDE", p))]
                checks[p] = {"exit": rc, "lines": lines[:8]}
        finally:
            sh("git -C /repo checkout -- .")
        meta["our_checks"] = checks
        meta["repo_head"] = sh("git -C /repo log --format=%h -1")[1].strip()
        json.dump(meta, open(os.path.join(d, "meta.json"), "w"), indent=1)
        print(sid, {p: c["exit"] for p, c in checks.items()})
    # evidence files were rewritten by the runs on the modified tree: the caller re-runs the checks on the clean tree
    return 0

if __name__ == "__main__":
    sys.exit(main())
