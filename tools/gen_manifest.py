#!/usr/bin/env python3
"""Regenerate MANIFEST.json from properties_map.json (claimed checks) and properties.jsonl."""
import json, os
V = os.path.dirname(os.path.dirname(os.path.abspath(__file__)))
pm = json.load(open(os.path.join(V, "properties_map.json")))
props = [json.loads(l) for l in open(os.path.join(V, "properties.jsonl"))]
NA = pm.get("not_applicable", {})
checks = []
na = []
for p in props:
    pid = p["id"]
    if pid in pm["properties"]:
        e = pm["properties"][pid]
        checks.append({
            "property_id": pid,
            "quick_cmd": "./check %s --tier quick" % pid,
            "thorough_cmd": "./check %s --tier thorough" % pid,
            "evidence_file": "evidence/%s.json" % pid,
            "replay_cmd_template": "./check --replay {path}",
            "engine": "verus-contracts",
            "level_claimed": {"category": "proof", "text": e["level_text"], "design_ref": e.get("design_ref", "DESIGN.md §4 " + pid)},
            "level_note": e["level_note"],
            "technique": e.get("technique", "contract-based deductive verification: Verus (Z3) on functions extracted mechanically from /repo on every run"),
        })
    else:
        na.append({"property_id": pid, "reason": NA.get(pid, "not yet under contract in this build of the framework (see DESIGN.md §0)")})
m = {
    "version": 1,
    "setup_cmd": "sh -c 'command -v verus >/dev/null && command -v python3 >/dev/null && test -d $HOME/.cargo/registry/src && echo setup-ok'",
    "hooks": {
        "guard": "none (no source hooks): the native replay crate compiles a scratch copy of /repo/src with test-only child modules appended; nothing in /repo is guarded or instrumented",
        "enable": "n/a - checks extract functions from /repo's working tree (Verus) or copy /repo/src to a scratch dir (native replay)",
        "baseline_off_cmd": "cd /repo && cargo test --workspace --no-fail-fast --offline",
        "source_commits": [],
        "add_only": True,
    },
    "engines": [
        {"name": "verus-contracts", "path": "hv/", "serves_properties": [c["property_id"] for c in checks],
         "kind_free_text": "extractor + fixed rewrite rules + contract overlay (units/*.rs) -> Verus 0.2026.09.13; vacuity probes; obligations mapped back to clauses"},
        {"name": "native-replay", "path": "replay/", "serves_properties": [c["property_id"] for c in checks],
         "kind_free_text": "executable contracts compiled into a scratch copy of /repo/src; searches a concrete failing input for a refuted/undecided obligation and re-runs recorded inputs"},
    ],
    "checks": checks,
    "not_applicable": na,
    "notes": "exit 0 = all obligations of the property discharged; exit 1 = VIOLATION line(s); exit 2 = cannot decide (lost anchor, unsupported construct, rlimit, vacuity) - never carries a VIOLATION line. Repairs of genuine defects are `fix:` commits in /repo listed in known_findings.json.",
}
json.dump(m, open(os.path.join(V, "MANIFEST.json"), "w"), indent=1)
print("claimed:", [c["property_id"] for c in checks], "n/a:", [x["property_id"] for x in na])
