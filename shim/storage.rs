// ---- journalling model of crate::storage::Storage (ASSUMED contract for the callers in core.rs;
// ---- the real Storage::flush_infos / read_infos_to_vec are verified against the RandomAccess
// ---- shim in unit `storage`).  Every mutating backend call is appended to a ghost journal in
// ---- issue order; a failed call sets `failed`, after which nothing more may be issued.
pub enum StoreOp {
    Write { store: Store, off: int, data: Seq<u8> },
    Delete { store: Store, off: int, len: int },
    Truncate { store: Store, len: int },
}
pub struct Storage {
    pub journal: Ghost<Seq<StoreOp>>,
    pub failed: Ghost<bool>,
    pub reads: Ghost<Seq<(Store, int)>>,
}
/// what flush_infos does with one StoreInfo
pub open spec fn op_of(info: StoreInfo) -> StoreOp {
    if info.info_type == StoreInfoType::Content {
        if !info.miss { StoreOp::Write { store: info.store, off: info.index as int, data: info.data->Some_0@ } }
        else { StoreOp::Delete { store: info.store, off: info.index as int, len: info.length->Some_0 as int } }
    } else { StoreOp::Truncate { store: info.store, len: info.index as int } }
}
pub open spec fn ops_of(infos: Seq<StoreInfo>) -> Seq<StoreOp> { infos.map_values(|i: StoreInfo| op_of(i)) }

/// the backend reads a batch of instructions issues, in order
pub open spec fn reads_of(ins: Seq<StoreInfoInstruction>) -> Seq<(Store, int)> { ins.map_values(|i: StoreInfoInstruction| (i.store, i.index as int)) }
/// `b` extends `a` by reads of the tree store only
pub open spec fn tree_reads_only(a: Seq<(Store, int)>, b: Seq<(Store, int)>) -> bool {
    a.len() <= b.len() && b.subrange(0, a.len() as int) == a && forall|k: int| a.len() <= k < b.len() ==> (#[trigger] b[k]).0 == Store::Tree
}
pub proof fn lemma_tree_reads_refl(a: Seq<(Store, int)>) ensures tree_reads_only(a, a) { assert(a.subrange(0, a.len() as int) =~= a); }
pub proof fn lemma_tree_reads_ext(a: Seq<(Store, int)>, b: Seq<(Store, int)>, ins: Seq<StoreInfoInstruction>)
    requires tree_reads_only(a, b), forall|k: int| 0 <= k < ins.len() ==> (#[trigger] ins[k]).store == Store::Tree
    ensures tree_reads_only(a, b + reads_of(ins))
{
    let c = b + reads_of(ins);
    assert(c.subrange(0, a.len() as int) =~= b.subrange(0, a.len() as int));
    assert forall|k: int| a.len() <= k < c.len() implies (#[trigger] c[k]).0 == Store::Tree by {
        if k >= b.len() { assert(c[k] == reads_of(ins)[k - b.len()]); assert(ins[k - b.len()].store == Store::Tree); }
    }
}
impl Storage {
    #[verifier::external_body]
    pub fn flush_infos(&mut self, infos: &[StoreInfo]) -> (r: Result<(), HypercoreError>)
        requires !old(self).failed@, forall|i: int| 0 <= i < infos@.len() ==> flushable(#[trigger] infos@[i]),
            // unit `storage` proves flush_infos for batches that address ONE store: every caller must comply
            forall|i: int| 0 <= i < infos@.len() ==> (#[trigger] infos@[i]).store == infos@[0].store
        ensures
            final(self).reads@ == old(self).reads@,
            r is Ok ==> !final(self).failed@ && final(self).journal@ == old(self).journal@ + ops_of(infos@),
            // a failing backend call stops the sequence: a strict prefix of the operations was issued
            r is Err ==> final(self).failed@ && (exists|k: int| 0 <= k < infos@.len()
                && final(self).journal@ == old(self).journal@ + #[trigger] ops_of(infos@.subrange(0, k)))
    { unimplemented!() }

    #[verifier::external_body]
    pub fn flush_info(&mut self, slice: StoreInfo) -> (r: Result<(), HypercoreError>)
        requires !old(self).failed@, flushable(slice)
        ensures
            final(self).reads@ == old(self).reads@,
            r is Ok ==> !final(self).failed@ && final(self).journal@ == old(self).journal@.push(op_of(slice)),
            r is Err ==> final(self).failed@ && final(self).journal@ == old(self).journal@
    { unimplemented!() }

    #[verifier::external_body]
    pub fn read_info(&mut self, info_instruction: StoreInfoInstruction) -> (r: Result<StoreInfo, HypercoreError>)
        requires !old(self).failed@
        ensures
            final(self).journal@ == old(self).journal@,
            r is Ok ==> !final(self).failed@ && read_result_ok(info_instruction, r->Ok_0)
                && final(self).reads@ == old(self).reads@.push((info_instruction.store, info_instruction.index as int)),
            r is Err ==> final(self).failed@
    { unimplemented!() }

    #[verifier::external_body]
    pub fn read_infos(&mut self, info_instructions: &[StoreInfoInstruction]) -> (r: Result<Box<[StoreInfo]>, HypercoreError>)
        requires !old(self).failed@,
            forall|i: int| 0 <= i < info_instructions@.len() ==> (#[trigger] info_instructions@[i]).store == info_instructions@[0].store
        ensures
            final(self).journal@ == old(self).journal@,
            r is Ok ==> !final(self).failed@ && r->Ok_0@.len() == info_instructions@.len()
                && (forall|i: int| 0 <= i < r->Ok_0@.len() ==> read_result_ok(info_instructions@[i], #[trigger] r->Ok_0@[i]))
                && final(self).reads@ == old(self).reads@ + reads_of(info_instructions@),
            r is Err ==> final(self).failed@
    { unimplemented!() }

    #[verifier::external_body]
    pub fn read_infos_to_vec(&mut self, info_instructions: &[StoreInfoInstruction]) -> (r: Result<Vec<StoreInfo>, HypercoreError>)
        requires !old(self).failed@,
            forall|i: int| 0 <= i < info_instructions@.len() ==> (#[trigger] info_instructions@[i]).store == info_instructions@[0].store
        ensures
            final(self).journal@ == old(self).journal@,
            r is Ok ==> !final(self).failed@ && r->Ok_0@.len() == info_instructions@.len()
                && (forall|i: int| 0 <= i < r->Ok_0@.len() ==> read_result_ok(info_instructions@[i], #[trigger] r->Ok_0@[i]))
                && final(self).reads@ == old(self).reads@ + reads_of(info_instructions@),
            r is Err ==> final(self).failed@
    { unimplemented!() }
}
/// shape of what a read returns for an instruction (contents are whatever the backend holds)
pub open spec fn read_result_ok(ins: StoreInfoInstruction, info: StoreInfo) -> bool {
    &&& info.store == ins.store && info.info_type == ins.info_type && info.index == ins.index
    &&& ins.info_type == StoreInfoType::Size ==> info.length is Some && !info.miss
    &&& ins.info_type == StoreInfoType::Content ==> (info.miss ==> ins.allow_miss) && (!info.miss ==> info.data is Some
            && info.data->Some_0@.len() <= 0xffff_ffff_ffff && (ins.length is Some ==> info.data->Some_0@.len() == ins.length->Some_0))
}
