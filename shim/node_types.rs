// ---- Node and its (assumed here, proved in codec_wire) CompactEncoding / VecEncodable impls ----
/*@ item src/common/node.rs struct Node @*/
pub open spec fn all_zero(s: Seq<u8>) -> bool { forall|i: int| 0 <= i < s.len() ==> s[i] == 0u8 }
impl Node {
    pub open spec fn canonical(&self) -> bool {
        &&& self.parent == (if flat_tree::spec_depth(self.index) < 62 { flat_tree::spec_parent(self.index) } else { u64::MAX })
        &&& self.data is Some && self.data->Some_0@.len() == 0
        &&& self.blank == all_zero(self.hash@)
    }
}
impl Clone for Node {
    #[verifier::external_body]
    fn clone(&self) -> (r: Self) ensures r.index == self.index, r.hash@ == self.hash@, r.length == self.length, r.parent == self.parent,
        r.blank == self.blank, (r.data is Some) == (self.data is Some), r.data is Some ==> r.data->Some_0@ == self.data->Some_0@
    { unimplemented!() }
}
impl CompactEncoding for Node {
    open spec fn spec_enc(&self) -> Seq<u8> { Self::dec_enc(*self) }
    open spec fn dec_enc(d: Self) -> Seq<u8> { u64::dec_enc(d.index) + u64::dec_enc(d.length) + d.hash@ }
    open spec fn enc_ok(&self) -> bool { self.hash@.len() == 32 }
    open spec fn dec_ok(d: Self) -> bool { d.hash@.len() == 32 && d.canonical() }
    open spec fn eqv(a: Self, b: Self) -> bool { a.index == b.index && a.length == b.length && a.hash@ =~= b.hash@ && a.parent == b.parent && a.blank == b.blank && a.data is Some == b.data is Some && (a.data is Some ==> a.data->Some_0@ =~= b.data->Some_0@) }
    #[verifier::external_body] fn encoded_size(&self) -> (r: Result<usize, EncodingError>) ensures r is Ok ==> r->Ok_0 <= 50 { unimplemented!() }
    #[verifier::external_body] fn encode<'a>(&self, buffer: &'a mut [u8]) -> (r: Result<&'a mut [u8], EncodingError>) { unimplemented!() }
    #[verifier::external_body] fn decode(buffer: &[u8]) -> (r: Result<(Self, &[u8]), EncodingError>) { unimplemented!() }
}
impl VecEncodable for Node {
    #[verifier::external_body] fn vec_encoded_size(vec: &[Self]) -> (r: Result<usize, EncodingError>) { unimplemented!() }
}
