// ---- futures::future::Either (dependency type, declared structurally) ----
pub enum Either<L, R> { Left(L), Right(R) }
