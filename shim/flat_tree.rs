// ---- assumed contract of the `flat-tree` crate (dependency) ------------------------------------------------
// A node of the flat in-order tree is (depth d, offset o): index = o * 2^(d+1) + 2^d - 1; it spans the leaves
// [o * 2^d, (o+1) * 2^d), i.e. the flat indices strictly between index - 2^d and index + 2^d.
pub mod flat_tree {
use vstd::prelude::*;

pub open spec fn p2(n: nat) -> int decreases n { if n == 0 { 1 } else { 2 * p2((n - 1) as nat) } }
pub proof fn lemma_p2_pos(n: nat) ensures p2(n) >= 1 decreases n { if n > 0 { lemma_p2_pos((n - 1) as nat); } }
pub proof fn lemma_p2_mono(a: nat, b: nat) requires a <= b ensures p2(a) <= p2(b) decreases b - a
{ if a < b { lemma_p2_mono(a, (b - 1) as nat); lemma_p2_pos((b - 1) as nat); } }
pub proof fn lemma_p2_strict(a: nat, b: nat) requires a < b ensures 2 * p2(a) <= p2(b) { lemma_p2_mono(a + 1, b); }
pub proof fn lemma_p2_62() ensures p2(62) == 0x4000_0000_0000_0000, p2(40) == 0x100_0000_0000, p2(41) == 0x200_0000_0000, p2(42) == 0x400_0000_0000
{ reveal_with_fuel(p2, 63); }

/// flat index of node (d, o)
pub proof fn lemma_p2_4x() ensures p2(41) == 0x200_0000_0000, p2(42) == 0x400_0000_0000, p2(43) == 0x800_0000_0000, p2(44) == 0x1000_0000_0000, p2(45) == 0x2000_0000_0000
{ reveal_with_fuel(p2, 46); }
pub open spec fn node_index(d: nat, o: int) -> int { o * p2(d + 1) + p2(d) - 1 }

/// leaf L is the start of a block of 2^a leaves that reaches at least to `upto`
pub open spec fn leaf_aligned(l: int, a: nat, upto: int) -> bool { a <= 61 && l % p2(a + 1) == 0 && upto <= l + p2(a + 1) }

// ---- theory of the flat in-order numbering (all proved, no axioms) ----
pub proof fn lemma_p2_add(a: nat, b: nat) ensures p2(a + b) == p2(a) * p2(b) decreases b
{
    if b == 0 { assert(p2(a) * 1 == p2(a)); } else {
        lemma_p2_add(a, (b - 1) as nat);
        assert(p2(a + b) == 2 * p2((a + b - 1) as nat));
        assert(p2(b) == 2 * p2((b - 1) as nat));
        assert(p2(a) * (2 * p2((b - 1) as nat)) == 2 * (p2(a) * p2((b - 1) as nat))) by (nonlinear_arith);
    }
}
/// x + 1 == (2o + 1) * 2^d
pub proof fn lemma_index_odd_part(d: nat, o: int) ensures node_index(d, o) + 1 == (2 * o + 1) * p2(d)
{
    assert(p2(d + 1) == 2 * p2(d));
    assert(o * (2 * p2(d)) + p2(d) == (2 * o + 1) * p2(d)) by (nonlinear_arith);
}
/// a node is a leaf iff its index is even
pub proof fn lemma_parity(d: nat, o: int) requires o >= 0 ensures (node_index(d, o) % 2 == 1) == (d > 0), node_index(d, o) >= 0
{
    lemma_p2_pos(d);
    assert(p2(d + 1) == 2 * p2(d));
    assert(o * (2 * p2(d)) == 2 * (o * p2(d))) by (nonlinear_arith);
    assert(o * p2(d) >= 0) by (nonlinear_arith) requires o >= 0, p2(d) >= 1;
    if d > 0 { assert(p2(d) == 2 * p2((d - 1) as nat)); lemma_p2_pos((d - 1) as nat); }
}
/// (d, o) lies in the subtree of (dd, oo)
pub open spec fn anc(d: nat, o: int, dd: nat, oo: int) -> bool { d <= dd && oo * p2((dd - d) as nat) <= o < (oo + 1) * p2((dd - d) as nat) }
pub open spec fn spans(d: nat, o: int, x: int) -> bool { node_index(d, o) - p2(d) < x < node_index(d, o) + p2(d) }

pub proof fn lemma_anc_self(d: nat, o: int) ensures anc(d, o, d, o) { assert(p2(0) == 1); }
pub proof fn lemma_anc_top(o: int, dd: nat, oo: int) requires anc(dd, o, dd, oo) ensures o == oo { assert(p2(0) == 1); }
pub proof fn lemma_anc_step(d: nat, o: int, dd: nat, oo: int)
    requires anc(d, o, dd, oo), d < dd, o >= 0
    ensures anc(d + 1, o / 2, dd, oo)
{
    let p = p2((dd - d - 1) as nat);
    assert(p2((dd - d) as nat) == 2 * p);
    assert(oo * (2 * p) == 2 * (oo * p)) by (nonlinear_arith);
    assert((oo + 1) * (2 * p) == 2 * ((oo + 1) * p)) by (nonlinear_arith);
}
/// the node whose index lies in the span of (dd, oo) is in its subtree
pub proof fn lemma_span_anc(d: nat, o: int, dd: nat, oo: int)
    requires o >= 0, oo >= 0, spans(dd, oo, node_index(d, o))
    ensures anc(d, o, dd, oo)
{
    let x1 = node_index(d, o) + 1;
    let a = p2(dd + 1);
    lemma_index_odd_part(d, o);
    lemma_index_odd_part(dd, oo);
    lemma_p2_pos(d); lemma_p2_pos(dd);
    assert(a == 2 * p2(dd));
    // oo * a < x1 < (oo + 1) * a
    assert(oo * a + p2(dd) == (2 * oo + 1) * p2(dd)) by (nonlinear_arith) requires a == 2 * p2(dd);
    assert((oo + 1) * a == oo * a + a) by (nonlinear_arith);
    assert(oo * a < x1 && x1 < (oo + 1) * a);
    if d > dd {
        let k = p2((d - dd - 1) as nat) * (2 * o + 1);
        lemma_p2_add(dd + 1, (d - dd - 1) as nat);
        assert(p2(d) == a * p2((d - dd - 1) as nat));
        assert(x1 == k * a) by (nonlinear_arith) requires x1 == (2 * o + 1) * p2(d), p2(d) == a * p2((d - dd - 1) as nat), k == p2((d - dd - 1) as nat) * (2 * o + 1);
        assert(oo < k) by (nonlinear_arith) requires oo * a < k * a, a > 0;
        assert(k < oo + 1) by (nonlinear_arith) requires k * a < (oo + 1) * a, a > 0;
        assert(false);
    }
    let p = p2((dd - d) as nat);
    let q = p2(d);
    lemma_p2_add(d + 1, (dd - d) as nat);
    assert(p2(d + 1) == 2 * q);
    assert(a == (2 * q) * p);
    assert(oo * a == (2 * (oo * p)) * q) by (nonlinear_arith) requires a == (2 * q) * p;
    assert((oo + 1) * a == (2 * ((oo + 1) * p)) * q) by (nonlinear_arith) requires a == (2 * q) * p;
    assert(2 * (oo * p) < 2 * o + 1) by (nonlinear_arith) requires (2 * (oo * p)) * q < (2 * o + 1) * q, q > 0;
    assert(2 * o + 1 < 2 * ((oo + 1) * p)) by (nonlinear_arith) requires (2 * o + 1) * q < (2 * ((oo + 1) * p)) * q, q > 0;
}
/// an index names one node
pub proof fn lemma_node_unique(d1: nat, o1: int, d2: nat, o2: int)
    requires o1 >= 0, o2 >= 0, node_index(d1, o1) == node_index(d2, o2)
    ensures d1 == d2, o1 == o2
{
    lemma_p2_pos(d1); lemma_p2_pos(d2);
    lemma_span_anc(d1, o1, d2, o2);
    lemma_span_anc(d2, o2, d1, o1);
    lemma_anc_top(o1, d2, o2);
}
/// a node in the subtree of (dd, oo) has its index inside that span
pub proof fn lemma_anc_span(d: nat, o: int, dd: nat, oo: int)
    requires anc(d, o, dd, oo), o >= 0, oo >= 0
    ensures spans(dd, oo, node_index(d, o)), d < dd ==> node_index(d, o) - p2(d) >= node_index(dd, oo) - p2(dd) && node_index(d, o) + p2(d) <= node_index(dd, oo) + p2(dd)
{
    let p = p2((dd - d) as nat);
    let q = p2(d);
    lemma_p2_pos(d); lemma_p2_pos(dd); lemma_p2_pos((dd - d) as nat);
    lemma_index_odd_part(d, o);
    lemma_index_odd_part(dd, oo);
    lemma_p2_add(d, (dd - d) as nat);
    assert(p2(dd) == q * p);
    // x+1 = (2o+1) q ; X+1 = (2oo+1) p q ; span: X+1 - pq < x+1 < X+1 + pq  i.e. 2 oo p q < (2o+1) q < (2oo+2) p q
    assert((2 * oo + 1) * (q * p) - q * p == (2 * (oo * p)) * q) by (nonlinear_arith);
    assert((2 * oo + 1) * (q * p) + q * p == (2 * ((oo + 1) * p)) * q) by (nonlinear_arith);
    assert((2 * (oo * p)) * q < (2 * o + 1) * q) by (nonlinear_arith) requires oo * p <= o, q > 0;
    assert((2 * o + 1) * q < (2 * ((oo + 1) * p)) * q) by (nonlinear_arith) requires o < (oo + 1) * p, q > 0;
    if d < dd {
        // tighter: whole span of the child inside: 2 oo p q <= 2 o q  and (2o+2) q <= (2oo+2) p q
        assert((2 * (oo * p)) * q <= (2 * o + 1) * q - q) by (nonlinear_arith) requires oo * p <= o, q > 0;
        assert((2 * o + 1) * q + q <= (2 * ((oo + 1) * p)) * q) by (nonlinear_arith) requires o + 1 <= (oo + 1) * p, q > 0;
    }
}
/// x below 2^(d+1) and inside the span of (d, o): the node is the leftmost one of its level
pub proof fn lemma_span_small(d: nat, o: int, x: int)
    requires o >= 0, spans(d, o, x), x < p2(d + 1)
    ensures o == 0
{
    lemma_p2_pos(d);
    if o >= 1 { assert(o * p2(d + 1) >= p2(d + 1)) by (nonlinear_arith) requires o >= 1, p2(d + 1) >= 0; }
}
pub proof fn lemma_next_aligned(l: int, a: nat, d: nat, upto: int)
    requires leaf_aligned(l, a, upto), l >= 0, d <= 61, l + p2(d + 1) <= upto < l + p2(d + 2)
    ensures leaf_aligned(l + p2(d + 1), d, upto)
{
    lemma_p2_pos(d + 1);
    if d > a { lemma_p2_strict(a + 1, d + 1); }
    lemma_p2_add(d + 1, (a - d) as nat);
    let aa = p2(d + 1); let bb = p2((a - d) as nat);
    lemma_p2_pos((a - d) as nat);
    assert(p2(a + 1) == aa * bb);
    vstd::arithmetic::div_mod::lemma_mod_mod(l, aa, bb);
    assert(l % aa == 0);
    vstd::arithmetic::div_mod::lemma_mod_add_multiples_vanish(l, aa);
    assert(p2(d + 2) == 2 * p2(d + 1));
}


pub uninterp spec fn spec_parent(i: u64) -> u64;
/// depth of a node = number of trailing one bits of its index
pub uninterp spec fn spec_depth(i: u64) -> u64;
#[verifier::external_body]
pub fn depth(i: u64) -> (r: u64)
    ensures r == spec_depth(i), r <= 64
{ unimplemented!() }
/// flat_tree::parent shifts by depth + 1 and depth + 2: it overflows (panics with overflow checks) for depth >= 62
#[verifier::external_body]
pub fn parent(i: u64) -> (r: u64)
    requires spec_depth(i) < 62
    ensures r == spec_parent(i)
{ unimplemented!() }

// ---- arithmetic of the mountain range (proved) ----
/// a multiple of 2^a is a multiple of 2^b for b <= a
pub proof fn lemma_p2_divides(x: int, a: nat, b: nat)
    requires x % p2(a) == 0, b <= a
    ensures x % p2(b) == 0
{
    lemma_p2_add(b, (a - b) as nat);
    lemma_p2_pos(b); lemma_p2_pos((a - b) as nat);
    vstd::arithmetic::div_mod::lemma_mod_mod(x, p2(b), p2((a - b) as nat));
    assert(0int % p2(b) == 0) by { vstd::arithmetic::div_mod::lemma_small_mod(0, p2(b) as nat); }
}
pub proof fn lemma_p2_self_divides(a: nat, b: nat)
    requires b <= a
    ensures p2(a) % p2(b) == 0
{
    lemma_p2_pos(a);
    assert(p2(a) % p2(a) == 0) by { vstd::arithmetic::div_mod::lemma_mod_self_0(p2(a)); }
    lemma_p2_divides(p2(a), a, b);
}
/// an odd multiple of P is P modulo 2P
pub proof fn lemma_odd_multiple(o: int, pp: int)
    requires o >= 0, o % 2 == 1, pp > 0
    ensures (o * pp) % (2 * pp) == pp
{
    let k = o / 2;
    assert(o == 2 * k + 1);
    assert(o * pp == (2 * pp) * k + pp) by (nonlinear_arith) requires o == 2 * k + 1;
    vstd::arithmetic::div_mod::lemma_mod_multiples_vanish(k, pp, 2 * pp);
    vstd::arithmetic::div_mod::lemma_small_mod(pp as nat, (2 * pp) as nat);
}
pub proof fn lemma_even_multiple(o: int, pp: int)
    requires o >= 0, o % 2 == 0, pp > 0
    ensures (o * pp) % (2 * pp) == 0
{
    let k = o / 2;
    assert(o * pp == (2 * pp) * k + 0) by (nonlinear_arith) requires o == 2 * k;
    vstd::arithmetic::div_mod::lemma_mod_multiples_vanish(k, 0, 2 * pp);
    vstd::arithmetic::div_mod::lemma_small_mod(0, (2 * pp) as nat);
}
/// a node (d, o) that starts at flat position s = o * 2^(d+1) is a left child iff s is a multiple of 2^(d+2)
pub proof fn lemma_even_offset(o: int, d: nat, s: int)
    requires o >= 0, s == o * p2(d + 1)
    ensures (s % p2(d + 2) == 0) == (o % 2 == 0)
{
    lemma_p2_pos(d + 1);
    assert(p2(d + 2) == 2 * p2(d + 1));
    if o % 2 == 0 { lemma_even_multiple(o, p2(d + 1)); } else { lemma_odd_multiple(o, p2(d + 1)); }
}
/// in a mountain range that ends at s1, a right child (d_a, o_a odd) starting at s1 has the last root as its left sibling
pub proof fn lemma_mr_sibling(s1: int, o_a: int, d_a: nat, s0: int, d_b: nat)
    requires o_a >= 0, o_a % 2 == 1, s1 == o_a * p2(d_a + 1), s0 == s1 - p2(d_b + 1), s0 >= 0, s0 % p2(d_b + 2) == 0
    ensures d_b == d_a
{
    lemma_p2_pos(d_a + 1); lemma_p2_pos(d_b + 1);
    assert(p2(d_a + 2) == 2 * p2(d_a + 1));
    assert(p2(d_b + 2) == 2 * p2(d_b + 1));
    lemma_odd_multiple(o_a, p2(d_a + 1));
    if d_b > d_a {
        // s0 and 2^(d_b+1) are multiples of 2^(d_a+2), so s1 is: but s1 is an odd multiple of 2^(d_a+1)
        lemma_p2_divides(s0, d_b + 2, d_a + 2);
        lemma_p2_self_divides(d_b + 1, d_a + 2);
        vstd::arithmetic::div_mod::lemma_add_mod_noop(s0, p2(d_b + 1), p2(d_a + 2));
        vstd::arithmetic::div_mod::lemma_small_mod(0, p2(d_a + 2) as nat);
        assert(false);
    }
    if d_b < d_a {
        // s1 is a multiple of 2^(d_b+2), so s0 = s1 - 2^(d_b+1) is not
        let m = p2(d_b + 2);
        lemma_p2_add(d_a + 1, 0);
        assert((o_a * p2(d_a + 1)) % p2(d_a + 1) == 0) by { vstd::arithmetic::div_mod::lemma_mod_multiples_basic(o_a, p2(d_a + 1)); }
        lemma_p2_divides(s1, d_a + 1, d_b + 2);
        // s1 = s0 + 2^(d_b+1) with s0 % m == 0: (s0 + h) % m == h % m == h != 0
        vstd::arithmetic::div_mod::lemma_add_mod_noop(s0, p2(d_b + 1), m);
        vstd::arithmetic::div_mod::lemma_small_mod(p2(d_b + 1) as nat, m as nat);
        vstd::arithmetic::div_mod::lemma_small_mod(0, m as nat);
        assert(false);
    }
}

/// an even index is the leaf (0, index / 2)
pub proof fn lemma_leaf_index(x: int)
    requires x >= 0, x % 2 == 0
    ensures node_index(0, x / 2) == x
{ assert(p2(0) == 1); assert(p2(1) == 2 * p2(0)); assert((x / 2) * 2 == x); }
/// every index names a node
pub proof fn lemma_node_exists(x: int)
    requires x >= 0
    ensures exists|p: (nat, int)| p.1 >= 0 && node_index(p.0, p.1) == x
    decreases x
{
    assert(p2(0) == 1); assert(p2(1) == 2);
    if x % 2 == 0 {
        let p = (0nat, x / 2);
        assert((x / 2) * 2 == x);
        assert(p.1 >= 0 && node_index(p.0, p.1) == x);
    } else {
        lemma_node_exists((x - 1) / 2);
        let q = choose|q: (nat, int)| q.1 >= 0 && node_index(q.0, q.1) == (x - 1) / 2;
        let p = ((q.0 + 1) as nat, q.1);
        assert(p2(q.0 + 2) == 2 * p2(q.0 + 1));
        assert(p2(q.0 + 1) == 2 * p2(q.0));
        assert(q.1 * (2 * p2(q.0 + 1)) == 2 * (q.1 * p2(q.0 + 1))) by (nonlinear_arith);
        assert(p.1 >= 0 && node_index(p.0, p.1) == x);
    }
}
/// the (depth, offset) of the node with a given index (unique: lemma_node_unique)
pub open spec fn node_of(index: u64) -> (nat, int) { choose|p: (nat, int)| p.1 >= 0 && node_index(p.0, p.1) == index }
pub open spec fn depth_of(index: u64) -> nat { node_of(index).0 }
pub open spec fn offset_of(index: u64) -> int { node_of(index).1 }
/// node `a` lies in the subtree of node `b` (or is `b`)
pub open spec fn anc_idx(a: u64, b: u64) -> bool { anc(depth_of(a), offset_of(a), depth_of(b), offset_of(b)) }

pub proof fn lemma_node_of_index(index: u64)
    ensures offset_of(index) >= 0, node_index(depth_of(index), offset_of(index)) == index
{ lemma_node_exists(index as int); }
pub struct Iterator { pub index: u64, pub offset: u64, pub factor: u64, pub d: Ghost<nat> }
/// a node whose index is below 2^k is at most k levels up
pub proof fn lemma_depth_bound(it: Iterator, k: nat)
    requires it.wf(), it.index < p2(k)
    ensures it.d@ <= k
{
    lemma_p2_pos(it.d@ + 1);
    assert(it.offset * p2(it.d@ + 1) >= 0) by (nonlinear_arith) requires it.offset >= 0, p2(it.d@ + 1) >= 0;
    if it.d@ > k { lemma_p2_strict(k, it.d@); lemma_p2_pos(k); }
}
pub proof fn lemma_node_of(it: Iterator)
    requires it.wf()
    ensures depth_of(it.index) == it.d@, offset_of(it.index) == it.offset
{
    let p = (it.d@, it.offset as int);
    assert(p.1 >= 0 && node_index(p.0, p.1) == it.index);
    let q = node_of(it.index);
    lemma_node_unique(q.0, q.1, it.d@, it.offset as int);
}

impl Iterator {
    pub open spec fn wf(&self) -> bool {
        &&& self.d@ <= 61
        &&& self.factor == p2(self.d@ + 1)
        &&& self.index == node_index(self.d@, self.offset as int)
        &&& self.index + self.factor <= 0x7fff_ffff_ffff_ffff
    }
    /// `x` lies in the span of this node
    pub open spec fn spans(&self, x: int) -> bool { self.index - p2(self.d@) < x < self.index + p2(self.d@) }

    #[verifier::external_body]
    pub fn new(index: u64) -> (r: Iterator)
        requires index < 0x2000_0000_0000_0000
        ensures r.wf(), r.index == index, index % 2 == 0 ==> r.d@ == 0 && r.offset == index / 2
    { unimplemented!() }
    #[verifier::external_body]
    pub fn seek(&mut self, index: u64)
        requires index < 0x2000_0000_0000_0000
        ensures final(self).wf(), final(self).index == index, index % 2 == 0 ==> final(self).d@ == 0 && final(self).offset == index / 2
    { unimplemented!() }
    #[verifier::external_body]
    pub fn index(&self) -> (r: u64) ensures r == self.index { unimplemented!() }
    #[verifier::external_body]
    pub fn offset(&self) -> (r: u64) ensures r == self.offset { unimplemented!() }
    #[verifier::external_body]
    pub fn factor(&self) -> (r: u64) ensures r == self.factor { unimplemented!() }
    #[verifier::external_body]
    pub fn is_left(&self) -> (r: bool) ensures r == (self.offset % 2 == 0) { unimplemented!() }
    #[verifier::external_body]
    pub fn is_right(&self) -> (r: bool) ensures r == (self.offset % 2 == 1) { unimplemented!() }
    #[verifier::external_body]
    pub fn contains(&self, index: u64) -> (r: bool)
        requires self.wf()
        ensures r == self.spans(index as int)
    { unimplemented!() }
    #[verifier::external_body]
    pub fn sibling(&mut self) -> (r: u64)
        requires old(self).wf(), old(self).index + 2 * old(self).factor <= 0x7fff_ffff_ffff_ffff
        ensures final(self).wf(), final(self).d@ == old(self).d@, r == final(self).index,
            final(self).offset == (if old(self).offset % 2 == 0 { old(self).offset + 1 } else { old(self).offset - 1 }),
            final(self).index == (if old(self).offset % 2 == 0 { old(self).index + old(self).factor } else { old(self).index - old(self).factor })
    { unimplemented!() }
    #[verifier::external_body]
    pub fn parent(&mut self) -> (r: u64)
        requires old(self).wf(), old(self).d@ < 61, old(self).index + 2 * old(self).factor <= 0x7fff_ffff_ffff_ffff
        ensures final(self).wf(), final(self).d@ == old(self).d@ + 1, final(self).offset == old(self).offset / 2, r == final(self).index,
            final(self).index == (if old(self).offset % 2 == 0 { old(self).index + old(self).factor / 2 } else { old(self).index - old(self).factor / 2 })
    { unimplemented!() }
    #[verifier::external_body]
    pub fn left_child(&mut self) -> (r: u64)
        requires old(self).wf()
        ensures final(self).wf(), r == final(self).index,
            old(self).d@ == 0 ==> *final(self) == *old(self),
            old(self).d@ > 0 ==> final(self).d@ == old(self).d@ - 1 && final(self).offset == 2 * old(self).offset
                && final(self).index == old(self).index - old(self).factor / 4
    { unimplemented!() }
    #[verifier::external_body]
    pub fn right_child(&mut self) -> (r: u64)
        requires old(self).wf()
        ensures final(self).wf(), r == final(self).index,
            old(self).d@ == 0 ==> *final(self) == *old(self),
            old(self).d@ > 0 ==> final(self).d@ == old(self).d@ - 1 && final(self).offset == 2 * old(self).offset + 1
                && final(self).index == old(self).index + old(self).factor / 4
    { unimplemented!() }
    /// first leaf to the right of this node's span
    #[verifier::external_body]
    pub fn next_tree(&mut self) -> (r: u64)
        requires old(self).wf(), old(self).index + old(self).factor <= 0x3fff_ffff_ffff_ffff
        ensures final(self).wf(), final(self).d@ == 0, r == final(self).index, final(self).index == old(self).index + p2(old(self).d@) + 1
    { unimplemented!() }
    /// from a leaf L: climb to the root of the largest full tree that starts at L and ends below `index`
    #[verifier::external_body]
    pub fn full_root(&mut self, index: u64) -> (r: bool)
        requires old(self).wf(), index <= 0x1fff_ffff_ffff_ffff,
            // the leaf is aligned for every tree that fits below `index`
            old(self).d@ == 0 ==> (exists|a: nat| #[trigger] leaf_aligned(old(self).index as int, a, index as int))
        ensures
            r == (index > old(self).index && old(self).index % 2 == 0),
            !r ==> *final(self) == *old(self),
            r ==> final(self).wf() && final(self).index == old(self).index + p2(final(self).d@) - 1
                && (final(self).d@ > 0 || index % 2 == 0 ==> old(self).index + p2(final(self).d@ + 1) <= index)
                && index < old(self).index + p2(final(self).d@ + 2)
    { unimplemented!() }
}

/// flat_tree::full_roots(i, &mut nodes): appends the roots of the full trees covering leaves [0, i/2)
pub uninterp spec fn spec_full_roots(i: int) -> Seq<u64>;
#[verifier::external_body]
pub fn full_roots(i: u64, nodes: &mut Vec<u64>)
    requires i % 2 == 0      // the real function asserts this (panics otherwise)
    ensures final(nodes)@ == old(nodes)@ + spec_full_roots(i as int), spec_full_roots(i as int).len() <= 64,
        forall|k: int| 0 <= k < spec_full_roots(i as int).len() ==> (#[trigger] spec_full_roots(i as int)[k]) < i,
        // the roots it yields are the mountain range over the flat range [0, i)
        idx_mr(spec_full_roots(i as int), i as int)
{ unimplemented!() }
/// flat index at which the tree of the k-th of a list of root indices starts
pub open spec fn idx_start(idx: Seq<u64>, k: int) -> int
    decreases k
{ if k <= 0 { 0 } else { idx_start(idx, k - 1) + p2(depth_of(idx[k - 1]) + 1) } }
/// the indices are the roots of aligned full trees laid out one after the other from 0 to `end`
pub open spec fn idx_mr(idx: Seq<u64>, end: int) -> bool {
    &&& forall|k: int| 0 <= k < idx.len() ==> (#[trigger] idx[k]) == idx_start(idx, k) + p2(depth_of(idx[k])) - 1 && idx_start(idx, k) % p2(depth_of(idx[k]) + 2) == 0
    &&& idx_start(idx, idx.len() as int) == end
}
#[verifier::external_body]
pub fn right_span(i: u64) -> (r: u64)
    requires i < 0x2000_0000_0000_0000
    ensures i % 2 == 0 ==> r == i, i <= r < 2 * i + 2
{ unimplemented!() }
#[verifier::external_body]
pub fn left_span(i: u64) -> (r: u64)
    requires i < 0x2000_0000_0000_0000
    ensures i % 2 == 0 ==> r == i, r <= i, r % 2 == 0, r == offset_of(i) * p2(depth_of(i) + 1)
{ unimplemented!() }
} // mod flat_tree
