// ---- assumed contract of the `flat-tree` crate (dependency) ----
pub mod flat_tree {
use vstd::prelude::*;
pub uninterp spec fn spec_parent(i: u64) -> u64;
#[verifier::external_body]
pub fn parent(i: u64) -> (r: u64)
    ensures r == spec_parent(i)
{ unimplemented!() }
} // mod flat_tree
