// ---- assumed contract of the `flat-tree` crate (dependency) ------------------------------------------------
// A node of the flat in-order tree is (depth d, offset o): index = o * 2^(d+1) + 2^d - 1; it spans the leaves
// [o * 2^d, (o+1) * 2^d), i.e. the flat indices strictly between index - 2^d and index + 2^d.
pub mod flat_tree {
use vstd::prelude::*;

pub open spec fn p2(n: nat) -> int decreases n { if n == 0 { 1 } else { 2 * p2((n - 1) as nat) } }
pub proof fn lemma_p2_pos(n: nat) ensures p2(n) >= 1 decreases n { if n > 0 { lemma_p2_pos((n - 1) as nat); } }
pub proof fn lemma_p2_mono(a: nat, b: nat) requires a <= b ensures p2(a) <= p2(b) decreases b - a
{ if a < b { lemma_p2_mono(a, (b - 1) as nat); lemma_p2_pos((b - 1) as nat); } }
pub proof fn lemma_p2_strict(a: nat, b: nat) requires a < b ensures 2 * p2(a) <= p2(b) { lemma_p2_mono(a + 1, b); }
pub proof fn lemma_p2_62() ensures p2(62) == 0x4000_0000_0000_0000, p2(40) == 0x100_0000_0000, p2(41) == 0x200_0000_0000, p2(42) == 0x400_0000_0000
{ reveal_with_fuel(p2, 63); }

/// flat index of node (d, o)
pub open spec fn node_index(d: nat, o: int) -> int { o * p2(d + 1) + p2(d) - 1 }

/// leaf L is the start of a block of 2^a leaves that reaches at least to `upto`
pub open spec fn leaf_aligned(l: int, a: nat, upto: int) -> bool { a <= 61 && l % p2(a + 1) == 0 && upto <= l + p2(a + 1) }

pub uninterp spec fn spec_parent(i: u64) -> u64;
/// depth of a node = number of trailing one bits of its index
pub uninterp spec fn spec_depth(i: u64) -> u64;
#[verifier::external_body]
pub fn depth(i: u64) -> (r: u64)
    ensures r == spec_depth(i), r <= 64
{ unimplemented!() }
/// flat_tree::parent shifts by depth + 1 and depth + 2: it overflows (panics with overflow checks) for depth >= 62
#[verifier::external_body]
pub fn parent(i: u64) -> (r: u64)
    requires spec_depth(i) < 62
    ensures r == spec_parent(i)
{ unimplemented!() }

pub struct Iterator { pub index: u64, pub offset: u64, pub factor: u64, pub d: Ghost<nat> }

impl Iterator {
    pub open spec fn wf(&self) -> bool {
        &&& self.d@ <= 61
        &&& self.factor == p2(self.d@ + 1)
        &&& self.index == node_index(self.d@, self.offset as int)
        &&& self.index + self.factor <= 0x7fff_ffff_ffff_ffff
    }
    /// `x` lies in the span of this node
    pub open spec fn spans(&self, x: int) -> bool { self.index - p2(self.d@) < x < self.index + p2(self.d@) }

    #[verifier::external_body]
    pub fn new(index: u64) -> (r: Iterator)
        requires index < 0x2000_0000_0000_0000
        ensures r.wf(), r.index == index, index % 2 == 0 ==> r.d@ == 0 && r.offset == index / 2
    { unimplemented!() }
    #[verifier::external_body]
    pub fn seek(&mut self, index: u64)
        requires index < 0x2000_0000_0000_0000
        ensures final(self).wf(), final(self).index == index, index % 2 == 0 ==> final(self).d@ == 0 && final(self).offset == index / 2
    { unimplemented!() }
    #[verifier::external_body]
    pub fn index(&self) -> (r: u64) ensures r == self.index { unimplemented!() }
    #[verifier::external_body]
    pub fn offset(&self) -> (r: u64) ensures r == self.offset { unimplemented!() }
    #[verifier::external_body]
    pub fn factor(&self) -> (r: u64) ensures r == self.factor { unimplemented!() }
    #[verifier::external_body]
    pub fn is_left(&self) -> (r: bool) ensures r == (self.offset % 2 == 0) { unimplemented!() }
    #[verifier::external_body]
    pub fn is_right(&self) -> (r: bool) ensures r == (self.offset % 2 == 1) { unimplemented!() }
    #[verifier::external_body]
    pub fn contains(&self, index: u64) -> (r: bool)
        requires self.wf()
        ensures r == self.spans(index as int)
    { unimplemented!() }
    #[verifier::external_body]
    pub fn sibling(&mut self) -> (r: u64)
        requires old(self).wf(), old(self).index + 2 * old(self).factor <= 0x7fff_ffff_ffff_ffff
        ensures final(self).wf(), final(self).d@ == old(self).d@, r == final(self).index,
            final(self).offset == (if old(self).offset % 2 == 0 { old(self).offset + 1 } else { old(self).offset - 1 }),
            final(self).index == (if old(self).offset % 2 == 0 { old(self).index + old(self).factor } else { old(self).index - old(self).factor })
    { unimplemented!() }
    #[verifier::external_body]
    pub fn parent(&mut self) -> (r: u64)
        requires old(self).wf(), old(self).d@ < 61, old(self).index + 2 * old(self).factor <= 0x7fff_ffff_ffff_ffff
        ensures final(self).wf(), final(self).d@ == old(self).d@ + 1, final(self).offset == old(self).offset / 2, r == final(self).index,
            final(self).index == (if old(self).offset % 2 == 0 { old(self).index + old(self).factor / 2 } else { old(self).index - old(self).factor / 2 })
    { unimplemented!() }
    #[verifier::external_body]
    pub fn left_child(&mut self) -> (r: u64)
        requires old(self).wf()
        ensures final(self).wf(), r == final(self).index,
            old(self).d@ == 0 ==> *final(self) == *old(self),
            old(self).d@ > 0 ==> final(self).d@ == old(self).d@ - 1 && final(self).offset == 2 * old(self).offset
    { unimplemented!() }
    #[verifier::external_body]
    pub fn right_child(&mut self) -> (r: u64)
        requires old(self).wf()
        ensures final(self).wf(), r == final(self).index,
            old(self).d@ == 0 ==> *final(self) == *old(self),
            old(self).d@ > 0 ==> final(self).d@ == old(self).d@ - 1 && final(self).offset == 2 * old(self).offset + 1
    { unimplemented!() }
    /// first leaf to the right of this node's span
    #[verifier::external_body]
    pub fn next_tree(&mut self) -> (r: u64)
        requires old(self).wf(), old(self).index + old(self).factor <= 0x3fff_ffff_ffff_ffff
        ensures final(self).wf(), final(self).d@ == 0, r == final(self).index, final(self).index == old(self).index + p2(old(self).d@) + 1
    { unimplemented!() }
    /// from a leaf L: climb to the root of the largest full tree that starts at L and ends below `index`
    #[verifier::external_body]
    pub fn full_root(&mut self, index: u64) -> (r: bool)
        requires old(self).wf(), index <= 0x1fff_ffff_ffff_ffff,
            // the leaf is aligned for every tree that fits below `index`
            old(self).d@ == 0 ==> (exists|a: nat| #[trigger] leaf_aligned(old(self).index as int, a, index as int))
        ensures
            r == (index > old(self).index && old(self).index % 2 == 0),
            !r ==> *final(self) == *old(self),
            r ==> final(self).wf() && final(self).index == old(self).index + p2(final(self).d@) - 1
                && old(self).index + p2(final(self).d@ + 1) <= index < old(self).index + p2(final(self).d@ + 2)
    { unimplemented!() }
}

/// flat_tree::full_roots(i, &mut nodes): appends the roots of the full trees covering leaves [0, i/2)
pub uninterp spec fn spec_full_roots(i: int) -> Seq<u64>;
#[verifier::external_body]
pub fn full_roots(i: u64, nodes: &mut Vec<u64>)
    requires i % 2 == 0      // the real function asserts this (panics otherwise)
    ensures final(nodes)@ == old(nodes)@ + spec_full_roots(i as int), spec_full_roots(i as int).len() <= 64,
        forall|k: int| 0 <= k < spec_full_roots(i as int).len() ==> (#[trigger] spec_full_roots(i as int)[k]) < i
{ unimplemented!() }
#[verifier::external_body]
pub fn right_span(i: u64) -> (r: u64)
    requires i < 0x2000_0000_0000_0000
    ensures i % 2 == 0 ==> r == i, i <= r < 2 * i + 2
{ unimplemented!() }
#[verifier::external_body]
pub fn left_span(i: u64) -> (r: u64)
    ensures i % 2 == 0 ==> r == i, r <= i
{ unimplemented!() }
} // mod flat_tree
