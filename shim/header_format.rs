// ---- on-disk format of the oplog header (spec only; written from the property text / JS layout) ----
/*@ item src/oplog/header.rs struct HeaderTree @*/
/*@ item src/oplog/header.rs struct HeaderHints @*/
/*@ item src/crypto/key_pair.rs struct PartialKeypair @*/
/*@ item src/crypto/manifest.rs struct Manifest @*/
/*@ item src/crypto/manifest.rs struct ManifestSigner @*/
/*@ item src/oplog/header.rs struct Header @*/
impl Clone for PartialKeypair {
    fn clone(&self) -> (r: Self) ensures r == *self {
        PartialKeypair { public: self.public.clone(), secret: match &self.secret { Some(k) => Some(k.clone()), None => None } }
    }
}

pub open spec fn header_tree_enc(d: HeaderTree) -> Seq<u8> { u64::dec_enc(d.fork) + u64::dec_enc(d.length) + <Box<[u8]>>::dec_enc(d.root_hash) + <Box<[u8]>>::dec_enc(d.signature) }
pub open spec fn header_tree_eqv(a: HeaderTree, b: HeaderTree) -> bool { a.fork == b.fork && a.length == b.length && a.root_hash@ =~= b.root_hash@ && a.signature@ =~= b.signature@ }
pub open spec fn header_hints_enc(d: HeaderHints) -> Seq<u8> { <Vec<String>>::dec_enc(d.reorgs) + u64::dec_enc(d.contiguous_length) }
pub open spec fn header_hints_eqv(a: HeaderHints, b: HeaderHints) -> bool { a.reorgs@ =~= b.reorgs@ && a.contiguous_length == b.contiguous_length }
// public key as a 32-byte buffer, then either the single byte 0 (no secret) or a 64-byte buffer secret ++ public
pub open spec fn enc_keypair(d: PartialKeypair) -> Seq<u8> {
    seq![32u8] + d.public.bytes() + (if d.secret is Some { seq![64u8] + d.secret->Some_0.sk_bytes() + d.public.bytes() } else { seq![0u8] })
}
pub open spec fn keypair_eqv(a: PartialKeypair, b: PartialKeypair) -> bool {
    a.public.bytes() == b.public.bytes() && (a.secret is Some) == (b.secret is Some)
        && (a.secret is Some ==> a.secret->Some_0.sk_bytes() == b.secret->Some_0.sk_bytes())
}
// signature id 0 (ed25519), 32-byte namespace, 32-byte public key
pub open spec fn enc_signer(d: ManifestSigner) -> Seq<u8> { seq![0u8] + d.namespace@ + d.public_key@ }
pub open spec fn signer_eqv(a: ManifestSigner, b: ManifestSigner) -> bool { a.signature@ == b.signature@ && a.namespace@ == b.namespace@ && a.public_key@ == b.public_key@ }
/// the only signer this format version can name: signature id 0 = "ed25519"
pub open spec fn signer_std(d: ManifestSigner) -> bool { d.signature@ == "ed25519"@ }
// version 0, hash id 0 (blake2b), type 1 (signer), then the signer
pub open spec fn enc_manifest(d: Manifest) -> Seq<u8> { seq![0u8, 0u8, 1u8] + enc_signer(d.signer) }
pub open spec fn manifest_eqv(a: Manifest, b: Manifest) -> bool { a.hash@ == b.hash@ && signer_eqv(a.signer, b.signer) }
/// the only manifest this format version can name: hash id 0 = "blake2b", one ed25519 signer
pub open spec fn manifest_std(d: Manifest) -> bool { d.hash@ == "blake2b"@ && signer_std(d.signer) }
pub open spec fn header_fields(d: Header) -> Seq<u8> {
    Manifest::dec_enc(d.manifest) + PartialKeypair::dec_enc(d.key_pair) + <Vec<String>>::dec_enc(d.user_data) + HeaderTree::dec_enc(d.tree) + HeaderHints::dec_enc(d.hints)
}
// version 1, flags 2|4, 32-byte key, manifest, key pair, user data, tree, hints
pub open spec fn header_enc(d: Header) -> Seq<u8> { seq![1u8, 6u8] + (d.key@ + header_fields(d)) }
pub open spec fn header_eqv(a: Header, b: Header) -> bool {
    a.key@ =~= b.key@ && Manifest::eqv(a.manifest, b.manifest) && PartialKeypair::eqv(a.key_pair, b.key_pair)
        && a.user_data@ =~= b.user_data@ && HeaderTree::eqv(a.tree, b.tree) && HeaderHints::eqv(a.hints, b.hints)
}
