// ---- assumed contract of intmap::IntMap (dependency): a finite map u64 -> V ----
pub mod intmap {
use vstd::prelude::*;
#[verifier::external_body]
#[verifier::accept_recursive_types(V)]
pub struct IntMap<V> { inner: std::collections::HashMap<u64, V> }

impl<V> View for IntMap<V> {
    type V = Map<u64, V>;
    uninterp spec fn view(&self) -> Map<u64, V>;
}

impl<V> IntMap<V> {
    #[verifier::external_body]
    pub fn new() -> (r: Self)
        ensures r@ == Map::<u64, V>::empty()
    { IntMap { inner: std::collections::HashMap::new() } }

    #[verifier::external_body]
    pub fn with_capacity(capacity: usize) -> (r: Self)
        ensures r@ == Map::<u64, V>::empty()
    { IntMap { inner: std::collections::HashMap::new() } }

    #[verifier::external_body]
    pub fn insert(&mut self, key: u64, value: V) -> (r: Option<V>)
        ensures final(self)@ == old(self)@.insert(key, value),
            r == (if old(self)@.contains_key(key) { Some(old(self)@[key]) } else { None::<V> })
    { self.inner.insert(key, value) }

    #[verifier::external_body]
    pub fn contains_key(&self, key: u64) -> (r: bool)
        ensures r == self@.contains_key(key)
    { self.inner.contains_key(&key) }

    #[verifier::external_body]
    pub fn get(&self, key: u64) -> (r: Option<&V>)
        ensures r == (if self@.contains_key(key) { Some(&self@[key]) } else { None::<&V> })
    { self.inner.get(&key) }

    #[verifier::external_body]
    pub fn get_mut(&mut self, key: u64) -> (r: Option<&mut V>)
        ensures
            old(self)@.contains_key(key) ==> r is Some && *r->Some_0 == old(self)@[key]
                && final(self)@ == old(self)@.insert(key, *final(r->Some_0)),
            !old(self)@.contains_key(key) ==> r is None && final(self)@ == old(self)@
    { self.inner.get_mut(&key) }

    #[verifier::external_body]
    pub fn remove(&mut self, key: u64) -> (r: Option<V>)
        ensures final(self)@ == old(self)@.remove(key),
            r == (if old(self)@.contains_key(key) { Some(old(self)@[key]) } else { None::<V> })
    { self.inner.remove(&key) }

    #[verifier::external_body]
    pub fn len(&self) -> (r: usize)
        ensures r == self@.dom().len()
    { self.inner.len() }
}
/// IntMap::drain() as a function (dependency, ASSUMED): empties the map and yields the value of every key exactly once,
/// in the order `drain_keys` (an arbitrary but fixed enumeration of the keys of that map)
pub uninterp spec fn drain_keys<V>(m: Map<u64, V>) -> Seq<u64>;
#[verifier::external_body]
pub broadcast proof fn axiom_drain_keys<V>(m: Map<u64, V>)
    requires m.dom().finite()
    ensures (#[trigger] drain_keys(m)).no_duplicates(), drain_keys(m).to_set() == m.dom(), drain_keys(m).len() == m.dom().len()
{}
#[verifier::external_body]
pub fn vp_drain<V>(m: &mut IntMap<V>) -> (r: Vec<V>)
    ensures final(m)@ == Map::<u64, V>::empty(), r@.len() == drain_keys(old(m)@).len(),
        forall|i: int| 0 <= i < r@.len() ==> old(m)@.contains_key(#[trigger] drain_keys(old(m)@)[i]) && r@[i] == old(m)@[drain_keys(old(m)@)[i]]
{ unimplemented!() }
/// `m.keys().filter(|k| **k > x).collect()` followed by `sort()` (dependency + std, ASSUMED): the keys above x in ascending order
#[verifier::external_body]
pub fn vp_sorted_keys_gt<V>(m: &IntMap<V>, x: u64) -> (r: Vec<u64>)
    ensures forall|i: int, j: int| 0 <= i < j < r@.len() ==> r@[i] < r@[j],
        forall|i: int| 0 <= i < r@.len() ==> (#[trigger] r@[i]) > x && m@.contains_key(r@[i]),
        forall|k: u64| m@.contains_key(k) && k > x ==> r@.contains(k)
{ unimplemented!() }
/// `m.keys().filter(|k| **k < x).collect()` followed by `sort()` and `reverse()`: the keys below x in descending order
#[verifier::external_body]
pub fn vp_sorted_keys_lt_desc<V>(m: &IntMap<V>, x: u64) -> (r: Vec<u64>)
    ensures forall|i: int, j: int| 0 <= i < j < r@.len() ==> r@[i] > r@[j],
        forall|i: int| 0 <= i < r@.len() ==> (#[trigger] r@[i]) < x && m@.contains_key(r@[i]),
        forall|k: u64| m@.contains_key(k) && k < x ==> r@.contains(k)
{ unimplemented!() }
/// `m.iter()` consumed by a for loop (dependency, ASSUMED): yields one (key, value) pair for exactly the keys of the map
#[verifier::external_body]
pub fn vp_iter<'a, V>(m: &'a IntMap<V>) -> (r: Vec<(&'a u64, &'a V)>)
    ensures forall|i: int| 0 <= i < r@.len() ==> m@.contains_key(*(#[trigger] r@[i]).0) && *r@[i].1 == m@[*r@[i].0],
        forall|k: u64| #![trigger m@.contains_key(k)] m@.contains_key(k) ==> exists|i: int| 0 <= i < r@.len() && *(#[trigger] r@[i]).0 == k
{ unimplemented!() }
} // mod intmap
