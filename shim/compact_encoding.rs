// ---- assumed contract of the `compact-encoding` crate (dependency) --------------------------
// The byte format is written here once, from the compact-encoding specification quoted in the
// property texts: unsigned ints are 1 / 3 / 5 / 9 bytes (values < 0xfd inline, then signifier
// 0xfd + LE16, 0xfe + LE32, 0xff + LE64); byte strings are a length varint followed by the bytes;
// fixed-width ints are plain little endian; arrays are raw bytes; vectors are a length varint
// followed by the elements.
pub mod compact_encoding {
use vstd::prelude::*;

#[verifier::external_body]
#[derive(Debug)]
pub struct EncodingError { _p: () }
#[verifier::external_body]
#[derive(Debug)]
pub struct EncodingErrorKind { _p: () }
impl EncodingErrorKind {
    #[allow(non_upper_case_globals)]
    pub const InvalidData: u8 = 0;
}
impl EncodingError {
    #[verifier::external_body]
    pub fn new(kind: u8, message: &str) -> Self { EncodingError { _p: () } }
    #[verifier::external_body]
    pub fn invalid_data(message: &str) -> Self { EncodingError { _p: () } }
}

/// assumption A-size: no single encodable field (byte string, vector) is longer than 2^40 bytes
pub const SIZE_BOUND: usize = 0x100_0000_0000;

pub open spec fn le_bytes(v: u64, n: nat) -> Seq<u8>
    decreases n
{
    if n == 0 { Seq::<u8>::empty() } else { seq![(v & 0xff) as u8] + le_bytes(v >> 8, (n - 1) as nat) }
}

pub open spec fn enc_uint(v: u64) -> Seq<u8> {
    if v < 0xfd { seq![v as u8] }
    else if v <= 0xffff { seq![0xfdu8] + le_bytes(v, 2) }
    else if v <= 0xffff_ffff { seq![0xfeu8] + le_bytes(v, 4) }
    else { seq![0xffu8] + le_bytes(v, 8) }
}
pub open spec fn enc_bytes(b: Seq<u8>) -> Seq<u8> { enc_uint(b.len() as u64) + b }

/// `a` is a prefix of `b` (opaque: the index-wise definition is only revealed inside the lemmas below)
#[verifier::opaque]
pub open spec fn pfx(a: Seq<u8>, b: Seq<u8>) -> bool { a.is_prefix_of(b) }

pub trait CompactEncoding<Decode = Self>: Sized {
    /// the bytes this value is encoded to
    spec fn spec_enc(&self) -> Seq<u8>;
    /// the encoding that `decode` maps to `d`
    spec fn dec_enc(d: Decode) -> Seq<u8>;
    /// values that can be encoded at all (e.g. a Node must carry a 32-byte hash)
    spec fn enc_ok(&self) -> bool;
    /// values `decode` can produce (canonical form, e.g. Node::new normalises derived fields)
    spec fn dec_ok(d: Decode) -> bool;
    /// semantic equality of decoded values (what the derived PartialEq compares: contents of Vec / Box, not their identity)
    spec fn eqv(a: Decode, b: Decode) -> bool;

    fn encoded_size(&self) -> (r: Result<usize, EncodingError>)
        ensures
            r is Ok && self.enc_ok() ==> r->Ok_0 == self.spec_enc().len(),
            self.enc_ok() && self.spec_enc().len() <= usize::MAX ==> r is Ok;

    fn encode<'a>(&self, buffer: &'a mut [u8]) -> (r: Result<&'a mut [u8], EncodingError>)
        ensures
            r is Ok ==> old(buffer)@.len() >= self.spec_enc().len()
                && (*r->Ok_0)@ == old(buffer)@.skip(self.spec_enc().len() as int)
                && final(buffer)@ == self.spec_enc() + (*final(r->Ok_0))@,
            self.enc_ok() && old(buffer)@.len() >= self.spec_enc().len() ==> r is Ok;

    fn decode(buffer: &[u8]) -> (r: Result<(Decode, &[u8]), EncodingError>)
        ensures
            // round trip: whatever was encoded at the front of the buffer comes back, with the rest
            forall|d: Decode| Self::dec_ok(d) && #[trigger] pfx(Self::dec_enc(d), buffer@) ==>
                r is Ok && Self::eqv(r->Ok_0.0, d) && r->Ok_0.1@ == buffer@.skip(Self::dec_enc(d).len() as int),
            // truncation: a strict prefix of a valid encoding is an error
            forall|d: Decode| Self::dec_ok(d) && buffer@.len() < Self::dec_enc(d).len() && #[trigger] pfx(buffer@, Self::dec_enc(d)) ==> r is Err,
            // whatever is returned is a suffix of the input
            r is Ok ==> r->Ok_0.1@.len() <= buffer@.len()
                && r->Ok_0.1@ == buffer@.skip(buffer@.len() - r->Ok_0.1@.len());
}

// ---------------- primitives (assumed) ----------------
impl CompactEncoding for u64 {
    open spec fn spec_enc(&self) -> Seq<u8> { Self::dec_enc(*self) }
    open spec fn dec_enc(d: u64) -> Seq<u8> { enc_uint(d) }
    open spec fn enc_ok(&self) -> bool { true }
    open spec fn dec_ok(d: u64) -> bool { true }
    open spec fn eqv(a: u64, b: u64) -> bool { a == b }
    #[verifier::external_body] fn encoded_size(&self) -> (r: Result<usize, EncodingError>)
        ensures r is Ok ==> r->Ok_0 <= SIZE_BOUND   // assumption A-size
    { unimplemented!() }
    #[verifier::external_body] fn encode<'a>(&self, buffer: &'a mut [u8]) -> (r: Result<&'a mut [u8], EncodingError>) { unimplemented!() }
    #[verifier::external_body] fn decode(buffer: &[u8]) -> (r: Result<(u64, &[u8]), EncodingError>) { unimplemented!() }
}
impl CompactEncoding for usize {
    open spec fn spec_enc(&self) -> Seq<u8> { Self::dec_enc(*self) }
    open spec fn dec_enc(d: usize) -> Seq<u8> { enc_uint(d as u64) }
    open spec fn enc_ok(&self) -> bool { true }
    open spec fn dec_ok(d: usize) -> bool { true }
    open spec fn eqv(a: usize, b: usize) -> bool { a == b }
    #[verifier::external_body] fn encoded_size(&self) -> (r: Result<usize, EncodingError>)
        ensures r is Ok ==> r->Ok_0 <= SIZE_BOUND   // assumption A-size
    { unimplemented!() }
    #[verifier::external_body] fn encode<'a>(&self, buffer: &'a mut [u8]) -> (r: Result<&'a mut [u8], EncodingError>) { unimplemented!() }
    #[verifier::external_body] fn decode(buffer: &[u8]) -> (r: Result<(usize, &[u8]), EncodingError>) { unimplemented!() }
}
impl CompactEncoding for Vec<u8> {
    open spec fn spec_enc(&self) -> Seq<u8> { Self::dec_enc(*self) }
    open spec fn dec_enc(d: Vec<u8>) -> Seq<u8> { enc_bytes(d@) }
    open spec fn enc_ok(&self) -> bool { true }
    open spec fn dec_ok(d: Vec<u8>) -> bool { true }
    open spec fn eqv(a: Vec<u8>, b: Vec<u8>) -> bool { a@ == b@ }
    #[verifier::external_body] fn encoded_size(&self) -> (r: Result<usize, EncodingError>)
        ensures r is Ok ==> r->Ok_0 <= SIZE_BOUND   // assumption A-size
    { unimplemented!() }
    #[verifier::external_body] fn encode<'a>(&self, buffer: &'a mut [u8]) -> (r: Result<&'a mut [u8], EncodingError>) { unimplemented!() }
    #[verifier::external_body] fn decode(buffer: &[u8]) -> (r: Result<(Vec<u8>, &[u8]), EncodingError>) { unimplemented!() }
}
impl CompactEncoding for Box<[u8]> {
    open spec fn spec_enc(&self) -> Seq<u8> { Self::dec_enc(*self) }
    open spec fn dec_enc(d: Box<[u8]>) -> Seq<u8> { enc_bytes(d@) }
    open spec fn enc_ok(&self) -> bool { true }
    open spec fn dec_ok(d: Box<[u8]>) -> bool { true }
    open spec fn eqv(a: Box<[u8]>, b: Box<[u8]>) -> bool { a@ == b@ }
    #[verifier::external_body] fn encoded_size(&self) -> (r: Result<usize, EncodingError>)
        ensures r is Ok ==> r->Ok_0 <= SIZE_BOUND   // assumption A-size
    { unimplemented!() }
    #[verifier::external_body] fn encode<'a>(&self, buffer: &'a mut [u8]) -> (r: Result<&'a mut [u8], EncodingError>) { unimplemented!() }
    #[verifier::external_body] fn decode(buffer: &[u8]) -> (r: Result<(Box<[u8]>, &[u8]), EncodingError>) { unimplemented!() }
}
impl<const N: usize> CompactEncoding for [u8; N] {
    open spec fn spec_enc(&self) -> Seq<u8> { Self::dec_enc(*self) }
    open spec fn dec_enc(d: [u8; N]) -> Seq<u8> { d@ }
    open spec fn enc_ok(&self) -> bool { true }
    open spec fn dec_ok(d: [u8; N]) -> bool { true }
    open spec fn eqv(a: [u8; N], b: [u8; N]) -> bool { a@ == b@ }
    #[verifier::external_body] fn encoded_size(&self) -> (r: Result<usize, EncodingError>)
        ensures r is Ok ==> r->Ok_0 <= SIZE_BOUND   // assumption A-size
    { unimplemented!() }
    #[verifier::external_body] fn encode<'a>(&self, buffer: &'a mut [u8]) -> (r: Result<&'a mut [u8], EncodingError>) { unimplemented!() }
    #[verifier::external_body] fn decode(buffer: &[u8]) -> (r: Result<([u8; N], &[u8]), EncodingError>)
        ensures (buffer@.len() >= N) == (r is Ok),
            r is Ok ==> r->Ok_0.0@ == buffer@.subrange(0, N as int) && r->Ok_0.1@ == buffer@.skip(N as int)
    { unimplemented!() }
}
// &[u8; N] is encoded like the array (map_encode!(.., hash) with hash: &[u8; 32] resolves through auto-ref)
impl<'b, const N: usize> CompactEncoding<[u8; N]> for &'b [u8; N] {
    open spec fn spec_enc(&self) -> Seq<u8> { <[u8; N] as CompactEncoding>::dec_enc(**self) }
    open spec fn dec_enc(d: [u8; N]) -> Seq<u8> { d@ }
    open spec fn enc_ok(&self) -> bool { true }
    open spec fn dec_ok(d: [u8; N]) -> bool { true }
    open spec fn eqv(a: [u8; N], b: [u8; N]) -> bool { a@ == b@ }
    #[verifier::external_body] fn encoded_size(&self) -> (r: Result<usize, EncodingError>)
        ensures r is Ok ==> r->Ok_0 <= SIZE_BOUND   // assumption A-size
    { unimplemented!() }
    #[verifier::external_body] fn encode<'a>(&self, buffer: &'a mut [u8]) -> (r: Result<&'a mut [u8], EncodingError>) { unimplemented!() }
    #[verifier::external_body] fn decode(buffer: &[u8]) -> (r: Result<([u8; N], &[u8]), EncodingError>) { unimplemented!() }
}

// strings: UTF-8 byte reasoning is outside Verus; the encoding of a list of strings is an
// uninterpreted byte string (in this crate the lists are always empty: user_data / reorgs)
pub uninterp spec fn enc_strings(v: Seq<String>) -> Seq<u8>;
impl CompactEncoding for Vec<String> {
    open spec fn spec_enc(&self) -> Seq<u8> { Self::dec_enc(*self) }
    open spec fn dec_enc(d: Vec<String>) -> Seq<u8> { enc_strings(d@) }
    open spec fn enc_ok(&self) -> bool { true }
    open spec fn dec_ok(d: Vec<String>) -> bool { true }
    open spec fn eqv(a: Vec<String>, b: Vec<String>) -> bool { a@ == b@ }
    #[verifier::external_body] fn encoded_size(&self) -> (r: Result<usize, EncodingError>)
        ensures r is Ok ==> r->Ok_0 <= SIZE_BOUND   // assumption A-size
    { unimplemented!() }
    #[verifier::external_body] fn encode<'a>(&self, buffer: &'a mut [u8]) -> (r: Result<&'a mut [u8], EncodingError>) { unimplemented!() }
    #[verifier::external_body] fn decode(buffer: &[u8]) -> (r: Result<(Vec<String>, &[u8]), EncodingError>) { unimplemented!() }
}
/// an empty list of strings is the single byte 0 (length varint)
#[verifier::external_body]
pub broadcast proof fn axiom_enc_strings_empty(v: Seq<String>)
    ensures v.len() == 0 ==> #[trigger] enc_strings(v) == seq![0u8] {}

// ---------------- vectors of encodable things ----------------
pub open spec fn enc_seq<T: CompactEncoding>(s: Seq<T>) -> Seq<u8>
    decreases s.len()
{
    if s.len() == 0 { Seq::<u8>::empty() } else { T::dec_enc(s[0]) + enc_seq(s.skip(1)) }
}
pub open spec fn all_enc_ok<T: CompactEncoding>(s: Seq<T>) -> bool { forall|i: int| 0 <= i < s.len() ==> (#[trigger] s[i]).enc_ok() }

pub trait VecEncodable: CompactEncoding {
    fn vec_encoded_size(vec: &[Self]) -> (r: Result<usize, EncodingError>)
        requires vec@.len() <= SIZE_BOUND   // assumption A-size
        ensures
            r is Ok && all_enc_ok(vec@) ==> r->Ok_0 == enc_uint(vec@.len() as u64).len() + enc_seq(vec@).len(),
            all_enc_ok(vec@) && enc_uint(vec@.len() as u64).len() + enc_seq(vec@).len() <= usize::MAX ==> r is Ok;
}
impl<T: VecEncodable> CompactEncoding for Vec<T> {
    open spec fn spec_enc(&self) -> Seq<u8> { Self::dec_enc(*self) }
    open spec fn dec_enc(d: Vec<T>) -> Seq<u8> { enc_uint(d@.len() as u64) + enc_seq(d@) }
    open spec fn enc_ok(&self) -> bool { all_enc_ok(self@) }
    open spec fn dec_ok(d: Vec<T>) -> bool { forall|i: int| 0 <= i < d@.len() ==> T::dec_ok(#[trigger] d@[i]) }
    open spec fn eqv(a: Vec<T>, b: Vec<T>) -> bool { a@.len() == b@.len() && forall|i: int| 0 <= i < a@.len() ==> T::eqv(#[trigger] a@[i], b@[i]) }
    #[verifier::external_body] fn encoded_size(&self) -> (r: Result<usize, EncodingError>)
        ensures r is Ok ==> r->Ok_0 <= SIZE_BOUND   // assumption A-size
    { unimplemented!() }
    #[verifier::external_body] fn encode<'a>(&self, buffer: &'a mut [u8]) -> (r: Result<&'a mut [u8], EncodingError>) { unimplemented!() }
    #[verifier::external_body] fn decode(buffer: &[u8]) -> (r: Result<(Vec<T>, &[u8]), EncodingError>) { unimplemented!() }
}

// ---------------- helper functions of the crate (assumed) ----------------
#[verifier::external_body]
pub fn encoded_size_usize(val: usize) -> (r: usize)
    ensures r == enc_uint(val as u64).len(), r <= 9
{ unimplemented!() }

#[verifier::external_body]
pub fn as_array<const N: usize>(buffer: &[u8]) -> (r: Result<&[u8; N], EncodingError>)
    ensures (buffer@.len() == N) == (r is Ok), r is Ok ==> r->Ok_0@ == buffer@
{ unimplemented!() }
#[verifier::external_body]
pub fn take_array<const N: usize>(buffer: &[u8]) -> (r: Result<([u8; N], &[u8]), EncodingError>)
    ensures (buffer@.len() >= N) == (r is Ok),
        r is Ok ==> r->Ok_0.0@ == buffer@.subrange(0, N as int) && r->Ok_0.1@ == buffer@.skip(N as int)
{ unimplemented!() }
#[verifier::external_body]
pub fn write_array<'a, const N: usize>(source: &[u8; N], buffer: &'a mut [u8]) -> (r: Result<&'a mut [u8], EncodingError>)
    ensures (old(buffer)@.len() >= N) == (r is Ok),
        r is Ok ==> (*r->Ok_0)@ == old(buffer)@.skip(N as int) && final(buffer)@ == source@ + (*final(r->Ok_0))@
{ unimplemented!() }
#[verifier::external_body]
pub fn take_array_mut<const N: usize>(buffer: &mut [u8]) -> (r: Result<(&mut [u8; N], &mut [u8]), EncodingError>)
    ensures (old(buffer)@.len() >= N) == (r is Ok),
        r is Ok ==> (*r->Ok_0.0)@ == old(buffer)@.subrange(0, N as int) && (*r->Ok_0.1)@ == old(buffer)@.skip(N as int)
            && final(buffer)@ == (*final(r->Ok_0.0))@ + (*final(r->Ok_0.1))@
{ unimplemented!() }
#[verifier::external_body]
pub fn get_slices_mut_checked(buffer: &mut [u8], mid: usize) -> (r: Result<(&mut [u8], &mut [u8]), EncodingError>)
    ensures (old(buffer)@.len() >= mid) == (r is Ok),
        r is Ok ==> (*r->Ok_0.0)@ == old(buffer)@.subrange(0, mid as int) && (*r->Ok_0.1)@ == old(buffer)@.skip(mid as int)
            && final(buffer)@ == (*final(r->Ok_0.0))@ + (*final(r->Ok_0.1))@
{ unimplemented!() }
#[verifier::external_body]
pub fn as_array_mut<const N: usize>(buffer: &mut [u8]) -> (r: Result<&mut [u8; N], EncodingError>)
    ensures (old(buffer)@.len() == N) == (r is Ok),
        r is Ok ==> (*r->Ok_0)@ == old(buffer)@ && final(buffer)@ == (*final(r->Ok_0))@
{ unimplemented!() }
#[verifier::external_body]
pub fn write_slice<'a>(source: &[u8], buffer: &'a mut [u8]) -> (r: Result<&'a mut [u8], EncodingError>)
    ensures (old(buffer)@.len() >= source@.len()) == (r is Ok),
        r is Ok ==> (*r->Ok_0)@ == old(buffer)@.skip(source@.len() as int) && final(buffer)@ == source@ + (*final(r->Ok_0))@
{ unimplemented!() }
#[verifier::external_body]
pub fn encode_bytes_fixed<'a, const N: usize>(value: &[u8; N], buffer: &'a mut [u8]) -> (r: Result<&'a mut [u8], EncodingError>)
    ensures (old(buffer)@.len() >= N) == (r is Ok),
        r is Ok ==> (*r->Ok_0)@ == old(buffer)@.skip(N as int) && final(buffer)@ == value@ + (*final(r->Ok_0))@
{ unimplemented!() }
#[verifier::external_body]
pub fn get_slices_checked(buffer: &[u8], mid: usize) -> (r: Result<(&[u8], &[u8]), EncodingError>)
    ensures (buffer@.len() >= mid) == (r is Ok),
        r is Ok ==> r->Ok_0.0@ == buffer@.subrange(0, mid as int) && r->Ok_0.1@ == buffer@.skip(mid as int)
{ unimplemented!() }
#[verifier::external_body]
pub fn decode_usize(buffer: &[u8]) -> (r: Result<(usize, &[u8]), EncodingError>)
    ensures
        forall|d: usize| #[trigger] pfx(usize::dec_enc(d), buffer@) ==>
            r is Ok && r->Ok_0.0 == d && r->Ok_0.1@ == buffer@.skip(usize::dec_enc(d).len() as int),
        forall|d: usize| buffer@.len() < usize::dec_enc(d).len() && #[trigger] pfx(buffer@, usize::dec_enc(d)) ==> r is Err,
        r is Ok ==> r->Ok_0.1@.len() <= buffer@.len() && r->Ok_0.1@ == buffer@.skip(buffer@.len() - r->Ok_0.1@.len())
{ unimplemented!() }

// ---------------- lemmas about the format (proved) ----------------
pub proof fn lemma_enc_seq_push<T: CompactEncoding>(s: Seq<T>, x: T)
    ensures enc_seq(s.push(x)) == enc_seq(s) + T::dec_enc(x)
    decreases s.len()
{
    if s.len() == 0 {
        assert(s.push(x).skip(1) =~= Seq::<T>::empty());
        assert(enc_seq(s.push(x).skip(1)) =~= Seq::<u8>::empty());
        assert(enc_seq(s) =~= Seq::<u8>::empty());
        assert(enc_seq(s.push(x)) =~= T::dec_enc(x) + Seq::<u8>::empty());
        assert(enc_seq(s) + T::dec_enc(x) =~= T::dec_enc(x));
        assert(T::dec_enc(x) + Seq::<u8>::empty() =~= T::dec_enc(x));
    } else {
        lemma_enc_seq_push(s.skip(1), x);
        assert(s.push(x).skip(1) =~= s.skip(1).push(x));
        assert(s.push(x)[0] == s[0]);
        assert(T::dec_enc(s[0]) + (enc_seq(s.skip(1)) + T::dec_enc(x)) =~= (T::dec_enc(s[0]) + enc_seq(s.skip(1))) + T::dec_enc(x));
    }
}

pub proof fn lemma_le_bytes_len(v: u64, n: nat)
    ensures le_bytes(v, n).len() == n
    decreases n
{ if n > 0 { lemma_le_bytes_len(v >> 8, (n - 1) as nat); } }

pub broadcast proof fn lemma_enc_uint_len(v: u64)
    ensures (#[trigger] enc_uint(v)).len() == (if v < 0xfd { 1int } else if v <= 0xffff { 3 } else if v <= 0xffff_ffff { 5 } else { 9 })
{ lemma_le_bytes_len(v, 2); lemma_le_bytes_len(v, 4); lemma_le_bytes_len(v, 8); }

pub proof fn lemma_le_bytes_inj(a: u64, b: u64, n: nat)
    requires n == 2 || n == 4 || n == 8, le_bytes(a, n) == le_bytes(b, n),
        n == 2 ==> a <= 0xffff && b <= 0xffff, n == 4 ==> a <= 0xffff_ffff && b <= 0xffff_ffff
    ensures a == b
{
    reveal_with_fuel(le_bytes, 9);
    let x = le_bytes(a, n); let y = le_bytes(b, n);
    assert(x[0] == y[0]); assert(x[1] == y[1]);
    if n == 2 {
        assert(a == b) by (bit_vector) requires a <= 0xffff, b <= 0xffff,
            ((a & 0xff) as u8) == ((b & 0xff) as u8), (((a >> 8) & 0xff) as u8) == (((b >> 8) & 0xff) as u8);
    } else if n == 4 {
        assert(x[2] == y[2]); assert(x[3] == y[3]);
        assert(a == b) by (bit_vector) requires a <= 0xffff_ffff, b <= 0xffff_ffff,
            ((a & 0xff) as u8) == ((b & 0xff) as u8), (((a >> 8) & 0xff) as u8) == (((b >> 8) & 0xff) as u8),
            ((((a >> 8) >> 8) & 0xff) as u8) == ((((b >> 8) >> 8) & 0xff) as u8),
            (((((a >> 8) >> 8) >> 8) & 0xff) as u8) == (((((b >> 8) >> 8) >> 8) & 0xff) as u8);
    } else {
        assert(x[2] == y[2]); assert(x[3] == y[3]); assert(x[4] == y[4]); assert(x[5] == y[5]); assert(x[6] == y[6]); assert(x[7] == y[7]);
        assert(a == b) by (bit_vector) requires
            ((a & 0xff) as u8) == ((b & 0xff) as u8), (((a >> 8) & 0xff) as u8) == (((b >> 8) & 0xff) as u8),
            ((((a >> 8) >> 8) & 0xff) as u8) == ((((b >> 8) >> 8) & 0xff) as u8),
            (((((a >> 8) >> 8) >> 8) & 0xff) as u8) == (((((b >> 8) >> 8) >> 8) & 0xff) as u8),
            ((((((a >> 8) >> 8) >> 8) >> 8) & 0xff) as u8) == ((((((b >> 8) >> 8) >> 8) >> 8) & 0xff) as u8),
            (((((((a >> 8) >> 8) >> 8) >> 8) >> 8) & 0xff) as u8) == (((((((b >> 8) >> 8) >> 8) >> 8) >> 8) & 0xff) as u8),
            ((((((((a >> 8) >> 8) >> 8) >> 8) >> 8) >> 8) & 0xff) as u8) == ((((((((b >> 8) >> 8) >> 8) >> 8) >> 8) >> 8) & 0xff) as u8),
            (((((((((a >> 8) >> 8) >> 8) >> 8) >> 8) >> 8) >> 8) & 0xff) as u8) == (((((((((b >> 8) >> 8) >> 8) >> 8) >> 8) >> 8) >> 8) & 0xff) as u8);
    }
}

/// the varint format is prefix-free: a buffer starts with the encoding of at most one value
/// (this is what makes the assumed `decode` contracts of the primitives consistent)
pub proof fn lemma_enc_uint_prefix_free(a: u64, b: u64, buf: Seq<u8>)
    requires pfx(enc_uint(a), buf), pfx(enc_uint(b), buf)
    ensures a == b
{
    reveal(pfx);
    lemma_enc_uint_len(a); lemma_enc_uint_len(b);
    let ea = enc_uint(a); let eb = enc_uint(b);
    assert(ea[0] == buf[0] && eb[0] == buf[0]);
    if a < 0xfd { assert(ea[0] == a as u8); }
    if b < 0xfd { assert(eb[0] == b as u8); }
    if a >= 0xfd && b >= 0xfd {
        let n: nat = if a <= 0xffff { 2 } else if a <= 0xffff_ffff { 4 } else { 8 };
        lemma_le_bytes_len(a, n); lemma_le_bytes_len(b, n);
        assert(le_bytes(a, n) =~= le_bytes(b, n)) by {
            assert forall|i: int| 0 <= i < n implies le_bytes(a, n)[i] == le_bytes(b, n)[i] by {
                assert(ea[i + 1] == buf[i + 1]); assert(eb[i + 1] == buf[i + 1]);
            }
        }
        lemma_le_bytes_inj(a, b, n);
    }
}

/// (a + b) prefix of buf  ==>  a prefix of buf, b prefix of the rest
pub broadcast proof fn lemma_prefix_concat(a: Seq<u8>, b: Seq<u8>, buf: Seq<u8>)
    requires #[trigger] pfx(a + b, buf)
    ensures pfx(a, buf), pfx(b, buf.skip(a.len() as int)), a.len() + b.len() <= buf.len(),
        buf.skip((a + b).len() as int) == buf.skip(a.len() as int).skip(b.len() as int),
        a.len() > 0 ==> buf[0] == a[0]
{
    reveal(pfx);
    assert(a =~= buf.subrange(0, a.len() as int)) by {
        assert forall|i: int| 0 <= i < a.len() implies a[i] == buf[i] by { assert((a + b)[i] == buf[i]); }
    }
    assert(b =~= buf.skip(a.len() as int).subrange(0, b.len() as int)) by {
        assert forall|i: int| 0 <= i < b.len() implies b[i] == buf.skip(a.len() as int)[i] by { assert((a + b)[a.len() + i] == buf[a.len() + i]); }
    }
    assert(buf.skip((a + b).len() as int) =~= buf.skip(a.len() as int).skip(b.len() as int));
    if a.len() > 0 { assert((a + b)[0] == buf[0]); }
}

/// buf strict prefix of (a + b): either buf is a strict prefix of a, or a is a prefix of buf and the rest is a strict prefix of b
pub broadcast proof fn lemma_strict_prefix_concat(a: Seq<u8>, b: Seq<u8>, buf: Seq<u8>)
    requires buf.len() < (a + b).len(), #[trigger] pfx(buf, a + b)
    ensures
        buf.len() < a.len() ==> pfx(buf, a),
        buf.len() >= a.len() ==> pfx(a, buf) && buf.skip(a.len() as int).len() < b.len()
            && pfx(buf.skip(a.len() as int), b),
        a.len() > 0 && buf.len() > 0 ==> buf[0] == a[0]
{
    reveal(pfx);
    if buf.len() < a.len() {
        assert(buf =~= a.subrange(0, buf.len() as int)) by {
            assert forall|i: int| 0 <= i < buf.len() implies buf[i] == a[i] by { assert((a + b)[i] == a[i]); }
        }
    } else {
        assert(a =~= buf.subrange(0, a.len() as int)) by {
            assert forall|i: int| 0 <= i < a.len() implies a[i] == buf[i] by { assert((a + b)[i] == a[i]); }
        }
        let t = buf.skip(a.len() as int);
        assert(t =~= b.subrange(0, t.len() as int)) by {
            assert forall|i: int| 0 <= i < t.len() implies t[i] == b[i] by { assert((a + b)[a.len() + i] == b[i]); }
        }
    }
    if a.len() > 0 && buf.len() > 0 { assert((a + b)[0] == a[0]); }
}

pub broadcast proof fn lemma_pfx_len(a: Seq<u8>, b: Seq<u8>)
    requires #[trigger] pfx(a, b)
    ensures a.len() <= b.len()
{ reveal(pfx); }

pub proof fn lemma_pfx_subrange(a: Seq<u8>, b: Seq<u8>)
    requires pfx(a, b)
    ensures a.len() <= b.len(), a == b.subrange(0, a.len() as int)
{ reveal(pfx); assert(a =~= b.subrange(0, a.len() as int)); }

pub proof fn lemma_pfx_intro(a: Seq<u8>, b: Seq<u8>)
    requires a.len() <= b.len(), a =~= b.subrange(0, a.len() as int)
    ensures pfx(a, b)
{ reveal(pfx); }

pub broadcast proof fn lemma_pfx_empty(b: Seq<u8>)
    ensures #[trigger] pfx(Seq::<u8>::empty(), b)
{ reveal(pfx); }
} // mod compact_encoding
