// ---- ghost trace model of replication::events::Events (ASSUMED: fan-out to subscribers is async-broadcast's job).
// ---- The real `send` / `send_on_get` take &self (the channel has interior mutability); here they take &mut self so
// ---- that the ghost trace can grow -- call sites are `self.events.send(..)` with `self: &mut Hypercore` (rule R12).
pub mod replication { pub mod events {
use vstd::prelude::*;
use crate::{BitfieldUpdate, HypercoreError};
pub enum Ev { Get { index: u64 }, DataUpgrade, Have { start: u64, length: u64, drop: bool } }
pub struct Events { pub trace: Ghost<Seq<Ev>> }
pub struct DataUpgrade {}
pub struct Have { pub start: u64, pub length: u64, pub drop: bool }
pub struct Receiver { pub _p: () }
pub trait IntoEvent { spec fn ev(&self) -> Ev; }
impl IntoEvent for DataUpgrade { open spec fn ev(&self) -> Ev { Ev::DataUpgrade } }
impl IntoEvent for Have { open spec fn ev(&self) -> Ev { Ev::Have { start: self.start, length: self.length, drop: self.drop } } }
impl<'a> vstd::std_specs::convert::FromSpecImpl<&'a BitfieldUpdate> for Have {
    open spec fn obeys_from_spec() -> bool { true }
    /// C13: the have event for a bitfield update announces exactly its range
    open spec fn from_spec(b: &'a BitfieldUpdate) -> Self { Have { start: b.start, length: b.length, drop: b.drop } }
}
impl From<&BitfieldUpdate> for Have {
    /*@ fn src/replication/events.rs From<&BitfieldUpdate> for Have::from ; novis
    tags: C13
    sub `(?s)fn from\(\s*BitfieldUpdate \{\s*start,\s*length,\s*drop,\s*\}: &BitfieldUpdate,\s*\) -> Self \{` => `fn from(vp_b: &BitfieldUpdate) -> Self { let BitfieldUpdate { start, length, drop } = vp_b;`
    @*/
}
/*@ item src/replication/events.rs static MAX_EVENT_QUEUE_CAPACITY @*/
impl Events {
    #[verifier::external_body]
    pub fn new() -> (r: Events) ensures r.trace@ == Seq::<Ev>::empty() { unimplemented!() }
    #[verifier::external_body]
    pub fn send<T: IntoEvent>(&mut self, evt: T) -> (r: Result<(), HypercoreError>)
        ensures final(self).trace@ == old(self).trace@.push(evt.ev())
    { unimplemented!() }
    #[verifier::external_body]
    pub fn send_on_get(&mut self, index: u64) -> (r: Receiver)
        ensures final(self).trace@ == old(self).trace@.push(Ev::Get { index: index })
    { unimplemented!() }
}
} }
