// ---- the Hypercore v10 hashing / signing scheme as spec functions over uninterpreted BLAKE2b-256 / Ed25519 ----
// (the functions of src/crypto/hash.rs are proved against these in unit `hash` (frag/hash.rs); sign / verify of
//  src/crypto/key_pair.rs are ASSUMED: they only forward to ed25519-dalek)
pub mod crypto {
use vstd::prelude::*;
use crate::{Node, HypercoreError, Signature, SigningKey, VerifyingKey};
use crate::compact_encoding::le_bytes;

/// BLAKE2b-256 of a byte string: uninterpreted, always 32 bytes
pub uninterp spec fn blake2b(input: Seq<u8>) -> Seq<u8>;
#[verifier::external_body]
pub broadcast proof fn axiom_blake2b_len(input: Seq<u8>) ensures (#[trigger] blake2b(input)).len() == 32 {}

/// leaf: 0x00 ++ LE64(len) ++ data
pub open spec fn leaf_preimage(data: Seq<u8>) -> Seq<u8> { seq![0u8] + le_bytes(data.len() as u64, 8) + data }
/// parent: 0x01 ++ LE64(l.len + r.len) ++ l.hash ++ r.hash   (children ordered by index)
pub open spec fn parent_preimage(llen: u64, lhash: Seq<u8>, rlen: u64, rhash: Seq<u8>) -> Seq<u8> {
    seq![1u8] + le_bytes((llen + rlen) as u64, 8) + lhash + rhash
}
pub open spec fn roots_preimage(roots: Seq<Node>) -> Seq<u8>
    decreases roots.len()
{
    if roots.len() == 0 { seq![2u8] } else {
        roots_preimage(roots.drop_last()) + roots.last().hash@ + le_bytes(roots.last().index, 8) + le_bytes(roots.last().length, 8)
    }
}
pub open spec fn h_leaf(data: Seq<u8>) -> Seq<u8> { blake2b(leaf_preimage(data)) }
pub open spec fn h_parent(a: Node, b: Node) -> Seq<u8> {
    if a.index <= b.index { blake2b(parent_preimage(a.length, a.hash@, b.length, b.hash@)) } else { blake2b(parent_preimage(b.length, b.hash@, a.length, a.hash@)) }
}
pub open spec fn h_tree(roots: Seq<Node>) -> Seq<u8> { blake2b(roots_preimage(roots)) }
/// TREE namespace (BLAKE2b-256 of the `hypercore` namespace and type 0, lib/caps.js of the JS implementation) ++ hash ++ LE64(length) ++ LE64(fork)
pub open spec fn tree_namespace() -> Seq<u8> {
    seq![0x9Fu8, 0xAC, 0x70, 0xB5, 0x0C, 0xA1, 0x4E, 0xFC, 0x4E, 0x91, 0xC8, 0x33, 0xB2, 0x04, 0xE7, 0x5B,
         0x8B, 0x5A, 0xAD, 0x8B, 0x58, 0x81, 0xBF, 0xC0, 0xAD, 0xB5, 0xEF, 0x38, 0xA3, 0x27, 0x5B, 0x9C]
}
pub open spec fn spec_signable(hash: Seq<u8>, length: u64, fork: u64) -> Seq<u8> { tree_namespace() + hash + le_bytes(length, 8) + le_bytes(fork, 8) }
/// Ed25519 verification predicate and signing function (uninterpreted in the model of the dependency, shim/crypto.rs)
pub open spec fn sig_ok(pk: VerifyingKey, msg: Seq<u8>, sig: Signature) -> bool { pk.spec_verify(msg, sig) }
pub open spec fn spec_sign(sk: SigningKey, msg: Seq<u8>) -> Signature { sk.spec_sign_msg(msg) }
#[verifier::external_body]
pub broadcast proof fn axiom_sign_verifies(sk: SigningKey, msg: Seq<u8>)
    ensures sig_ok(sk.spec_verifying_key(), msg, #[trigger] spec_sign(sk, msg)) {}
} // mod crypto
