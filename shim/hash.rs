// ---- src/crypto/hash.rs and src/crypto/key_pair.rs as ASSUMED contracts over uninterpreted BLAKE2b-256 / Ed25519 ----
// (the byte layout of the hash pre-images is stated here as the spec; the functions of hash.rs build their input
//  through immediately-invoked closures and `to_encoded_bytes!`, which Verus cannot ingest)
pub mod crypto {
use vstd::prelude::*;
use crate::{Node, HypercoreError, Signature, SigningKey, VerifyingKey};
use crate::compact_encoding::le_bytes;

/// BLAKE2b-256 of a byte string: uninterpreted, always 32 bytes
pub uninterp spec fn blake2b(input: Seq<u8>) -> Seq<u8>;
#[verifier::external_body]
pub broadcast proof fn axiom_blake2b_len(input: Seq<u8>) ensures (#[trigger] blake2b(input)).len() == 32 {}

/// leaf: 0x00 ++ LE64(len) ++ data
pub open spec fn leaf_preimage(data: Seq<u8>) -> Seq<u8> { seq![0u8] + le_bytes(data.len() as u64, 8) + data }
/// parent: 0x01 ++ LE64(l.len + r.len) ++ l.hash ++ r.hash   (children ordered by index)
pub open spec fn parent_preimage(llen: u64, lhash: Seq<u8>, rlen: u64, rhash: Seq<u8>) -> Seq<u8> {
    seq![1u8] + le_bytes((llen + rlen) as u64, 8) + lhash + rhash
}
pub open spec fn roots_preimage(roots: Seq<Node>) -> Seq<u8>
    decreases roots.len()
{
    if roots.len() == 0 { seq![2u8] } else {
        roots_preimage(roots.drop_last()) + roots.last().hash@ + le_bytes(roots.last().index, 8) + le_bytes(roots.last().length, 8)
    }
}
pub open spec fn h_leaf(data: Seq<u8>) -> Seq<u8> { blake2b(leaf_preimage(data)) }
pub open spec fn h_parent(a: Node, b: Node) -> Seq<u8> {
    if a.index <= b.index { blake2b(parent_preimage(a.length, a.hash@, b.length, b.hash@)) } else { blake2b(parent_preimage(b.length, b.hash@, a.length, a.hash@)) }
}
pub open spec fn h_tree(roots: Seq<Node>) -> Seq<u8> { blake2b(roots_preimage(roots)) }
/// TREE namespace ++ hash ++ LE64(length) ++ LE64(fork)
pub uninterp spec fn tree_namespace() -> Seq<u8>;
pub open spec fn spec_signable(hash: Seq<u8>, length: u64, fork: u64) -> Seq<u8> { tree_namespace() + hash + le_bytes(length, 8) + le_bytes(fork, 8) }
/// Ed25519 verification predicate and signing function: uninterpreted
pub uninterp spec fn sig_ok(pk: VerifyingKey, msg: Seq<u8>, sig: Signature) -> bool;
pub uninterp spec fn spec_sign(sk: SigningKey, msg: Seq<u8>) -> Signature;
#[verifier::external_body]
pub broadcast proof fn axiom_sign_verifies(sk: SigningKey, msg: Seq<u8>)
    ensures sig_ok(sk.spec_verifying_key(), msg, #[trigger] spec_sign(sk, msg)) {}

pub struct Hash { pub bytes: Vec<u8> }
impl Hash {
    #[verifier::external_body]
    pub fn data(data: &[u8]) -> (r: Hash) ensures r.bytes@ == h_leaf(data@), r.bytes@.len() == 32 { unimplemented!() }
    #[verifier::external_body]
    pub fn parent(left: &Node, right: &Node) -> (r: Hash)
        requires left.length + right.length <= u64::MAX
        ensures r.bytes@ == h_parent(*left, *right), r.bytes@.len() == 32 { unimplemented!() }
    #[verifier::external_body]
    pub fn tree(roots: &[Node]) -> (r: Hash) ensures r.bytes@ == h_tree(roots@), r.bytes@.len() == 32 { unimplemented!() }
    #[verifier::external_body]
    pub fn as_bytes(&self) -> (r: &[u8]) ensures r@ == self.bytes@ { unimplemented!() }
}
#[verifier::external_body]
pub fn signable_tree(hash: &[u8], length: u64, fork: u64) -> (r: Box<[u8]>)
    requires hash@.len() == 32      // the real function expect()s a 32-byte hash
    ensures r@ == spec_signable(hash@, length, fork)
{ unimplemented!() }
#[verifier::external_body]
pub fn verify(public: &VerifyingKey, msg: &[u8], sig: Option<&Signature>) -> (r: Result<(), HypercoreError>)
    ensures (r is Ok) == (sig is Some && sig_ok(*public, msg@, *sig->Some_0))
{ unimplemented!() }
#[verifier::external_body]
pub fn sign(signing_key: &SigningKey, msg: &[u8]) -> (r: Signature)
    ensures r == spec_sign(*signing_key, msg@)
{ unimplemented!() }
} // mod crypto
pub use crypto::{sign, verify, signable_tree, Hash};
