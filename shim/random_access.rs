// ---- assumed contract of a random-access-storage backend (dependency): every call is logged, a failing call sets `failed`
// ---- (Box<dyn StorageTraits + Send> is replaced by this concrete model type, logged as a rewrite) ----
pub enum RandomAccessError {
    OutOfBounds { offset: u64, end: Option<u64>, length: u64 },
    IO { return_code: Option<i32>, context: Option<String>, source: std::io::Error },
}
pub enum BOp { Write { off: u64, data: Seq<u8> }, Del { off: u64, len: u64 }, Truncate { len: u64 }, Read { off: u64, len: u64 }, Len }
pub struct Backend { pub log: Ghost<Seq<BOp>>, pub failed: Ghost<bool> }
impl Backend {
    #[verifier::external_body]
    pub fn write(&mut self, offset: u64, data: &[u8]) -> (r: Result<(), RandomAccessError>)
        requires !old(self).failed@
        ensures r is Ok ==> !final(self).failed@ && final(self).log@ == old(self).log@.push(BOp::Write { off: offset, data: data@ }),
            r is Err ==> final(self).failed@ && final(self).log@ == old(self).log@
    { unimplemented!() }
    #[verifier::external_body]
    pub fn del(&mut self, offset: u64, length: u64) -> (r: Result<(), RandomAccessError>)
        requires !old(self).failed@
        ensures r is Ok ==> !final(self).failed@ && final(self).log@ == old(self).log@.push(BOp::Del { off: offset, len: length }),
            // a delete that starts beyond the end of the store is refused with OutOfBounds: an answer, not a fault - the store is
            // unchanged; it is journalled as the no-op it is (applying a delete beyond the end changes nothing)
            r is Err && r->Err_0 is OutOfBounds ==> !final(self).failed@ && final(self).log@ == old(self).log@.push(BOp::Del { off: offset, len: length }),
            r is Err && !(r->Err_0 is OutOfBounds) ==> final(self).failed@ && final(self).log@ == old(self).log@
    { unimplemented!() }
    #[verifier::external_body]
    pub fn truncate(&mut self, length: u64) -> (r: Result<(), RandomAccessError>)
        requires !old(self).failed@
        ensures r is Ok ==> !final(self).failed@ && final(self).log@ == old(self).log@.push(BOp::Truncate { len: length }),
            r is Err ==> final(self).failed@ && final(self).log@ == old(self).log@
    { unimplemented!() }
    #[verifier::external_body]
    pub fn read(&mut self, offset: u64, length: u64) -> (r: Result<Vec<u8>, RandomAccessError>)
        requires !old(self).failed@
        ensures final(self).log@ == old(self).log@.push(BOp::Read { off: offset, len: length }),
            r is Ok ==> !final(self).failed@ && r->Ok_0@.len() == length,
            // reading past the end is an answer (OutOfBounds), not a fault
            r is Err ==> (final(self).failed@ <==> !(r->Err_0 is OutOfBounds))
    { unimplemented!() }
    #[verifier::external_body]
    pub fn len(&mut self) -> (r: Result<u64, RandomAccessError>)
        requires !old(self).failed@
        ensures final(self).log@ == old(self).log@.push(BOp::Len), r is Ok ==> !final(self).failed@, r is Err ==> final(self).failed@
    { unimplemented!() }
}
