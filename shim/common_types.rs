// ---- src/common/store.rs, src/common/mod.rs: real type definitions and constructors (extracted) ----
/*@ item src/common/store.rs enum Store @*/
impl Clone for Store {
    fn clone(&self) -> (r: Self) ensures r == *self {
        match self { Store::Tree => Store::Tree, Store::Data => Store::Data, Store::Bitfield => Store::Bitfield, Store::Oplog => Store::Oplog }
    }
}
impl vstd::std_specs::cmp::PartialEqSpecImpl for Store {
    open spec fn obeys_eq_spec() -> bool { true }
    open spec fn eq_spec(&self, other: &Self) -> bool { *self == *other }
}
impl PartialEq for Store {
    fn eq(&self, other: &Self) -> (r: bool) {
        match (self, other) { (Store::Tree, Store::Tree) => true, (Store::Data, Store::Data) => true,
            (Store::Bitfield, Store::Bitfield) => true, (Store::Oplog, Store::Oplog) => true, _ => false }
    }
}
/*@ item src/common/store.rs enum StoreInfoType @*/
impl vstd::std_specs::cmp::PartialEqSpecImpl for StoreInfoType {
    open spec fn obeys_eq_spec() -> bool { true }
    open spec fn eq_spec(&self, other: &Self) -> bool { *self == *other }
}
impl PartialEq for StoreInfoType {
    fn eq(&self, other: &Self) -> (r: bool) {
        match (self, other) { (StoreInfoType::Content, StoreInfoType::Content) => true, (StoreInfoType::Size, StoreInfoType::Size) => true, _ => false }
    }
}
/*@ item src/common/store.rs struct StoreInfo @*/
impl StoreInfo {
    /*@ fn src/common/store.rs StoreInfo::new_content
    tags: C01 C02 C05 C06 C08 C10 C12
    result: r
    ensures:
        r.store == store, r.info_type == StoreInfoType::Content, r.index == index,
        r.length == Some(data@.len() as u64), r.data is Some, r.data->Some_0@ == data@, !r.miss
    @*/
    /*@ fn src/common/store.rs StoreInfo::new_content_miss
    tags: C10
    result: r
    ensures:
        r.store == store, r.info_type == StoreInfoType::Content, r.index == index, r.length is None, r.data is None, r.miss
    @*/
    /*@ fn src/common/store.rs StoreInfo::new_delete
    tags: C01 C02
    result: r
    ensures:
        r.store == store, r.info_type == StoreInfoType::Content, r.index == index, r.length == Some(length), r.data is None, r.miss
    @*/
    /*@ fn src/common/store.rs StoreInfo::new_truncate
    tags: C02 C12
    result: r
    ensures:
        r.store == store, r.info_type == StoreInfoType::Size, r.index == index, r.length is None, r.data is None, r.miss
    @*/
    /*@ fn src/common/store.rs StoreInfo::new_size
    tags: C10
    result: r
    ensures:
        r.store == store, r.info_type == StoreInfoType::Size, r.index == index, r.length == Some(length), r.data is None, !r.miss
    @*/
}
/*@ item src/common/store.rs struct StoreInfoInstruction @*/
impl StoreInfoInstruction {
    /*@ fn src/common/store.rs StoreInfoInstruction::new_content
    tags: C01 C10
    result: r
    ensures:
        r.store == store, r.info_type == StoreInfoType::Content, r.index == index, r.length == Some(length), !r.allow_miss
    @*/
    /*@ fn src/common/store.rs StoreInfoInstruction::new_content_allow_miss
    tags: C10
    result: r
    ensures:
        r.store == store, r.info_type == StoreInfoType::Content, r.index == index, r.length == Some(length), r.allow_miss
    @*/
    /*@ fn src/common/store.rs StoreInfoInstruction::new_all_content
    tags: C01 C10
    result: r
    ensures:
        r.store == store, r.info_type == StoreInfoType::Content, r.index == 0, r.length is None, !r.allow_miss
    @*/
    /*@ fn src/common/store.rs StoreInfoInstruction::new_size
    tags: C01 C10
    result: r
    ensures:
        r.store == store, r.info_type == StoreInfoType::Size, r.index == index, r.length is None, !r.allow_miss
    @*/
}
/*@ item src/common/mod.rs struct BitfieldUpdate @*/
impl Clone for BitfieldUpdate {
    fn clone(&self) -> (r: Self) ensures r == *self { BitfieldUpdate { drop: self.drop, start: self.start, length: self.length } }
}
