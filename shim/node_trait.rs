// ---- merkle_tree_stream::Node (dependency trait) and the crate's impl for Node (real accessors of src/common/node.rs) ----
pub trait NodeTrait {
    spec fn nt_index(&self) -> u64;
    spec fn nt_hash(&self) -> Seq<u8>;
    spec fn nt_len(&self) -> u64;
    fn index(&self) -> (r: u64) ensures r == self.nt_index();
    fn hash(&self) -> (r: &[u8]) ensures r@ == self.nt_hash();
    fn len(&self) -> (r: u64) ensures r == self.nt_len();
}
impl NodeTrait for Node {
    open spec fn nt_index(&self) -> u64 { self.index }
    open spec fn nt_hash(&self) -> Seq<u8> { self.hash@ }
    open spec fn nt_len(&self) -> u64 { self.length }
    /*@ fn src/common/node.rs NodeTrait for Node::index ; novis
    @*/
    /*@ fn src/common/node.rs NodeTrait for Node::hash ; novis
    @*/
    /*@ fn src/common/node.rs NodeTrait for Node::len ; novis
    @*/
}
