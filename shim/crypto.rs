// ---- assumed contracts of ed25519-dalek / blake2 / crc32fast (dependencies): types are opaque,
// ---- hash and signature functions are uninterpreted (collision resistance / unforgeability are NOT assumed here)
pub mod ed25519_dalek {
use vstd::prelude::*;
pub const PUBLIC_KEY_LENGTH: usize = 32;
pub const SECRET_KEY_LENGTH: usize = 32;

#[verifier::external_body]
#[derive(Debug)]
pub struct VerifyingKey { _p: [u8; 32] }
#[verifier::external_body]
#[derive(Debug)]
pub struct SigningKey { _p: [u8; 32] }
#[verifier::external_body]
#[derive(Debug)]
pub struct Signature { _p: [u8; 64] }
#[verifier::external_body]
#[derive(Debug)]
pub struct SignatureError { _p: () }

impl VerifyingKey {
    pub uninterp spec fn bytes(&self) -> Seq<u8>;
    /// Ed25519 verification predicate: uninterpreted
    pub uninterp spec fn spec_verify(&self, msg: Seq<u8>, sig: Signature) -> bool;
    /// `Verifier::verify` of the dependency
    #[verifier::external_body]
    pub fn verify(&self, msg: &[u8], sig: &Signature) -> (r: Result<(), SignatureError>) ensures (r is Ok) == self.spec_verify(msg@, *sig) { unimplemented!() }
    #[verifier::external_body]
    pub fn as_bytes(&self) -> (r: &[u8; 32]) ensures r@ == self.bytes(), self.bytes().len() == 32 { unimplemented!() }
    #[verifier::external_body]
    pub fn to_bytes(&self) -> (r: [u8; 32]) ensures r@ == self.bytes(), self.bytes().len() == 32 { unimplemented!() }
    #[verifier::external_body]
    pub fn from_bytes(b: &[u8; 32]) -> (r: Result<VerifyingKey, SignatureError>)
        ensures r is Ok ==> r->Ok_0.bytes() == b@,
            (exists|k: VerifyingKey| k.bytes() == b@) ==> r is Ok
    { unimplemented!() }
}
impl Clone for VerifyingKey {
    #[verifier::external_body]
    fn clone(&self) -> (r: Self) ensures r == *self { unimplemented!() }
}
impl SigningKey {
    pub uninterp spec fn sk_bytes(&self) -> Seq<u8>;
    pub uninterp spec fn spec_verifying_key(&self) -> VerifyingKey;
    #[verifier::external_body]
    pub fn to_bytes(&self) -> (r: [u8; 32]) ensures r@ == self.sk_bytes(), self.sk_bytes().len() == 32 { unimplemented!() }
    #[verifier::external_body]
    pub fn from_bytes(b: &[u8; 32]) -> (r: SigningKey) ensures r.sk_bytes() == b@ { unimplemented!() }
    #[verifier::external_body]
    pub fn verifying_key(&self) -> (r: VerifyingKey) ensures r == self.spec_verifying_key() { unimplemented!() }
    /// Ed25519 signing function: uninterpreted
    pub uninterp spec fn spec_sign_msg(&self, msg: Seq<u8>) -> Signature;
    /// `Signer::sign` of the dependency
    #[verifier::external_body]
    pub fn sign(&self, msg: &[u8]) -> (r: Signature) ensures r == self.spec_sign_msg(msg@) { unimplemented!() }
}
impl Clone for SigningKey {
    #[verifier::external_body]
    fn clone(&self) -> (r: Self) ensures r == *self { unimplemented!() }
}
impl Signature {
    pub uninterp spec fn sig_bytes(&self) -> Seq<u8>;
    #[verifier::external_body]
    pub fn to_bytes(&self) -> (r: [u8; 64]) ensures r@ == self.sig_bytes(), self.sig_bytes().len() == 64 { unimplemented!() }
    /// Signature::try_from(&[u8]): succeeds exactly on 64-byte inputs
    #[verifier::external_body]
    pub fn vp_try_from(b: &[u8]) -> (r: Result<Signature, SignatureError>)
        ensures (r is Ok) == (b@.len() == 64), r is Ok ==> r->Ok_0.sig_bytes() == b@
    { unimplemented!() }
}
impl Clone for Signature {
    #[verifier::external_body]
    fn clone(&self) -> (r: Self) ensures r == *self { unimplemented!() }
}
impl Copy for Signature {}
// type invariants of the key / signature types: fixed lengths
#[verifier::external_body]
pub broadcast proof fn axiom_vk_len(k: VerifyingKey) ensures (#[trigger] k.bytes()).len() == 32 {}
#[verifier::external_body]
pub broadcast proof fn axiom_sk_len(k: SigningKey) ensures (#[trigger] k.sk_bytes()).len() == 32 {}
#[verifier::external_body]
pub broadcast proof fn axiom_sig_len(k: Signature) ensures (#[trigger] k.sig_bytes()).len() == 64 {}
pub broadcast group group_key_lens { axiom_vk_len, axiom_sk_len, axiom_sig_len }
} // mod ed25519_dalek
#[verifier::external_body]
pub fn generate_signing_key() -> ed25519_dalek::SigningKey { unimplemented!() }
pub mod crc32fast {
use vstd::prelude::*;
/// CRC-32 (IEEE) of a byte string: uninterpreted
pub uninterp spec fn spec_crc(s: Seq<u8>) -> u32;
#[verifier::external_body]
pub fn hash(buf: &[u8]) -> (r: u32) ensures r == spec_crc(buf@) { unimplemented!() }
#[verifier::external_body]
pub struct Hasher { _p: () }
impl Hasher {
    pub uninterp spec fn fed(&self) -> Seq<u8>;
    #[verifier::external_body]
    pub fn new() -> (r: Hasher) ensures r.fed() == Seq::<u8>::empty() { unimplemented!() }
    #[verifier::external_body]
    pub fn update(&mut self, buf: &[u8]) ensures final(self).fed() == old(self).fed() + buf@ { unimplemented!() }
    #[verifier::external_body]
    pub fn finalize(self) -> (r: u32) ensures r == spec_crc(self.fed()) { unimplemented!() }
}
} // mod crc32fast
