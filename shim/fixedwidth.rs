// ---- compact_encoding::fixedwidth (assumed contract): plain little-endian u32 / u64 ----
pub mod fixedwidth {
use vstd::prelude::*;
use super::compact_encoding::*;
pub struct FixedWidthUint<'a, T> { pub v: &'a T }
pub type FixedWidthU32<'a> = FixedWidthUint<'a, u32>;
pub type FixedWidthU64<'a> = FixedWidthUint<'a, u64>;
pub trait FixedWidthEncoding: Sized {
    fn as_fixed_width(&self) -> (r: FixedWidthUint<'_, Self>) ensures *r.v == *self;
}
impl FixedWidthEncoding for u32 { fn as_fixed_width(&self) -> (r: FixedWidthUint<'_, u32>) { FixedWidthUint { v: self } } }
impl FixedWidthEncoding for u64 { fn as_fixed_width(&self) -> (r: FixedWidthUint<'_, u64>) { FixedWidthUint { v: self } } }
impl<'b> CompactEncoding<u32> for FixedWidthUint<'b, u32> {
    open spec fn spec_enc(&self) -> Seq<u8> { le_bytes(*self.v as u64, 4) }
    open spec fn dec_enc(d: u32) -> Seq<u8> { le_bytes(d as u64, 4) }
    open spec fn enc_ok(&self) -> bool { true }
    open spec fn dec_ok(d: u32) -> bool { true }
    open spec fn eqv(a: u32, b: u32) -> bool { a == b }
    #[verifier::external_body] fn encoded_size(&self) -> (r: Result<usize, EncodingError>) ensures r is Ok ==> r->Ok_0 == 4 { unimplemented!() }
    #[verifier::external_body] fn encode<'a>(&self, buffer: &'a mut [u8]) -> (r: Result<&'a mut [u8], EncodingError>) { unimplemented!() }
    #[verifier::external_body] fn decode(buffer: &[u8]) -> (r: Result<(u32, &[u8]), EncodingError>)
        ensures (buffer@.len() >= 4) == (r is Ok),
            r is Ok ==> le_bytes(r->Ok_0.0 as u64, 4) == buffer@.subrange(0, 4) && r->Ok_0.1@ == buffer@.skip(4)
    { unimplemented!() }
}
impl<'b> CompactEncoding<u64> for FixedWidthUint<'b, u64> {
    open spec fn spec_enc(&self) -> Seq<u8> { le_bytes(*self.v, 8) }
    open spec fn dec_enc(d: u64) -> Seq<u8> { le_bytes(d, 8) }
    open spec fn enc_ok(&self) -> bool { true }
    open spec fn dec_ok(d: u64) -> bool { true }
    open spec fn eqv(a: u64, b: u64) -> bool { a == b }
    #[verifier::external_body] fn encoded_size(&self) -> (r: Result<usize, EncodingError>) ensures r is Ok ==> r->Ok_0 == 8 { unimplemented!() }
    #[verifier::external_body] fn encode<'a>(&self, buffer: &'a mut [u8]) -> (r: Result<&'a mut [u8], EncodingError>) { unimplemented!() }
    #[verifier::external_body] fn decode(buffer: &[u8]) -> (r: Result<(u64, &[u8]), EncodingError>)
        ensures (buffer@.len() >= 8) == (r is Ok),
            r is Ok ==> le_bytes(r->Ok_0.0, 8) == buffer@.subrange(0, 8) && r->Ok_0.1@ == buffer@.skip(8)
    { unimplemented!() }
}
} // mod fixedwidth
pub use fixedwidth::*;
