// ---------------- Node (src/common/node.rs) ----------------
/*@ item src/common/node.rs struct Node @*/
pub open spec fn all_zero(s: Seq<u8>) -> bool { forall|i: int| 0 <= i < s.len() ==> s[i] == 0u8 }
impl Node {
    /// what Node::new produces: derived fields are functions of (index, hash)
    pub open spec fn canonical(&self) -> bool {
        &&& self.parent == (if flat_tree::spec_depth(self.index) < 62 { flat_tree::spec_parent(self.index) } else { u64::MAX })
        &&& self.data is Some && self.data->Some_0@.len() == 0
        &&& self.blank == all_zero(self.hash@)
    }
    /*@ fn src/common/node.rs Node::new
    tags: C11 C05 C04 C03 C01
    result: r
    ensures:
        r.index == index, r.hash@ == hash@, r.length == length, r.canonical()
    sub `for byte in &hash \{` => `for byte in it: hash.iter() {`
    loop 1:
        invariant_except_break
            blank,
            forall|i: int| 0 <= i < it.index@ ==> hash@[i] == 0u8
        ensures
            blank == all_zero(hash@)
    after `blank = false;`:
        assert(hash@[it.index@ as int] != 0u8);
    @*/
}
impl Node {
    /*@ fn src/common/node.rs Node::new_blank
    tags: C11 C01
    result: r
    ensures:
        // a placeholder written while a truncation is pending: never a protocol value (observation: its `hash` has 2 bytes)
        r.index == index, r.blank, r.length == 0, r.data is None
    @*/
}
impl CompactEncoding for Node {
    open spec fn spec_enc(&self) -> Seq<u8> { Self::dec_enc(*self) }
    open spec fn dec_enc(d: Self) -> Seq<u8> { u64::dec_enc(d.index) + u64::dec_enc(d.length) + d.hash@ }
    open spec fn enc_ok(&self) -> bool { self.hash@.len() == 32 }
    open spec fn dec_ok(d: Self) -> bool { d.hash@.len() == 32 && d.canonical() }
    open spec fn eqv(a: Self, b: Self) -> bool { a.index == b.index && a.length == b.length && a.hash@ =~= b.hash@ && a.parent == b.parent && a.blank == b.blank && a.data is Some == b.data is Some && (a.data is Some ==> a.data->Some_0@ =~= b.data->Some_0@) }
    /*@ fn src/encoding.rs CompactEncoding for Node::encoded_size ; novis
    tags: C11
    result: r
    ensures:
        r is Ok ==> r->Ok_0 <= 50
    @*/
    /*@ fn src/encoding.rs CompactEncoding for Node::encode ; novis
    tags: C11
    @*/
    /*@ fn src/encoding.rs CompactEncoding for Node::decode ; novis
    tags: C11
    last:
        proof {
            assert forall|d: Node| Self::dec_ok(d) && #[trigger] pfx(Self::dec_enc(d), buffer@) implies
                index == d.index && length == d.length && hash@ == d.hash@ by {
                let a = u64::dec_enc(d.index); let b = u64::dec_enc(d.length);
                assert(pfx(a + b, buffer@));
                assert(pfx(d.hash@, buffer@.skip((a + b).len() as int)));
                lemma_pfx_subrange(d.hash@, buffer@.skip((a + b).len() as int));
            }
        }
    @*/
}

impl VecEncodable for Node {
    /*@ fn src/encoding.rs VecEncodable for Node::vec_encoded_size ; novis
    tags: C11
    sub `for x in vec \{` => `for x in it: vec.iter() {`
    loop 1:
        invariant
            out <= 9 + it.index@ * 50,
            vec@.len() <= SIZE_BOUND,
            all_enc_ok(vec@) ==> out == enc_uint(vec@.len() as u64).len() + enc_seq(vec@.subrange(0, it.index@ as int)).len()
    before `out += x.encoded_size()?;`:
        proof {
            lemma_enc_seq_push(vec@.subrange(0, it.index@ as int), *x);
            assert(vec@.subrange(0, it.index@ + 1) =~= vec@.subrange(0, it.index@ as int).push(*x));
        }
    last:
        assert(vec@.subrange(0, vec@.len() as int) =~= vec@);
    @*/
}

