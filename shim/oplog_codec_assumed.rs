// ---- CompactEncoding impls of src/oplog/entry.rs: ASSUMED in this unit, PROVED in unit codec_oplog ----
impl CompactEncoding for EntryTreeUpgrade {
    open spec fn spec_enc(&self) -> Seq<u8> { Self::dec_enc(*self) }
    open spec fn dec_enc(d: Self) -> Seq<u8> { upgrade_enc(d) }
    open spec fn enc_ok(&self) -> bool { true }
    open spec fn dec_ok(d: Self) -> bool { true }
    open spec fn eqv(a: Self, b: Self) -> bool { upgrade_eqv(a, b) }
    #[verifier::external_body] fn encoded_size(&self) -> (r: Result<usize, EncodingError>)
        ensures r is Ok ==> r->Ok_0 <= 4 * SIZE_BOUND
    { unimplemented!() }
    #[verifier::external_body] fn encode<'a>(&self, buffer: &'a mut [u8]) -> (r: Result<&'a mut [u8], EncodingError>) { unimplemented!() }
    #[verifier::external_body] fn decode(buffer: &[u8]) -> (r: Result<(Self, &[u8]), EncodingError>) { unimplemented!() }
}
impl CompactEncoding for BitfieldUpdate {
    open spec fn spec_enc(&self) -> Seq<u8> { Self::dec_enc(*self) }
    open spec fn dec_enc(d: Self) -> Seq<u8> { bitfield_update_enc(d) }
    open spec fn enc_ok(&self) -> bool { true }
    open spec fn dec_ok(d: Self) -> bool { true }
    open spec fn eqv(a: Self, b: Self) -> bool { a == b }
    #[verifier::external_body] fn encoded_size(&self) -> (r: Result<usize, EncodingError>)
        ensures r is Ok ==> r->Ok_0 <= 1 + 2 * SIZE_BOUND
    { unimplemented!() }
    #[verifier::external_body] fn encode<'a>(&self, buffer: &'a mut [u8]) -> (r: Result<&'a mut [u8], EncodingError>) { unimplemented!() }
    #[verifier::external_body] fn decode(buffer: &[u8]) -> (r: Result<(Self, &[u8]), EncodingError>) { unimplemented!() }
}
impl CompactEncoding for Entry {
    open spec fn spec_enc(&self) -> Seq<u8> { Self::dec_enc(*self) }
    open spec fn dec_enc(d: Self) -> Seq<u8> { entry_enc(d) }
    open spec fn enc_ok(&self) -> bool { self.tree_nodes.enc_ok() }
    open spec fn dec_ok(d: Self) -> bool { <Vec<Node>>::dec_ok(d.tree_nodes) }
    open spec fn eqv(a: Self, b: Self) -> bool { entry_eqv(a, b) }
    #[verifier::external_body] fn encoded_size(&self) -> (r: Result<usize, EncodingError>)
    { unimplemented!() }
    #[verifier::external_body] fn encode<'a>(&self, buffer: &'a mut [u8]) -> (r: Result<&'a mut [u8], EncodingError>) { unimplemented!() }
    #[verifier::external_body] fn decode(buffer: &[u8]) -> (r: Result<(Self, &[u8]), EncodingError>) { unimplemented!() }
}
// the header codecs: contracts of frag/codec_header.rs, ASSUMED here, PROVED in unit codec_header
//@include-assumed frag/codec_header.rs
