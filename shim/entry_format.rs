// ---- on-disk format of oplog entries and headers (spec only; written from the property text / JS layout) ----
/*@ item src/oplog/entry.rs struct EntryTreeUpgrade @*/
/*@ item src/oplog/entry.rs struct Entry @*/
pub open spec fn upgrade_enc(d: EntryTreeUpgrade) -> Seq<u8> { u64::dec_enc(d.fork) + u64::dec_enc(d.ancestors) + u64::dec_enc(d.length) + <Box<[u8]>>::dec_enc(d.signature) }
pub open spec fn upgrade_eqv(a: EntryTreeUpgrade, b: EntryTreeUpgrade) -> bool { a.fork == b.fork && a.ancestors == b.ancestors && a.length == b.length && a.signature@ =~= b.signature@ }
// drop flag is one byte (bit 0), then start and length varints
pub open spec fn bitfield_update_enc(d: BitfieldUpdate) -> Seq<u8> { seq![if d.drop { 1u8 } else { 0u8 }] + u64::dec_enc(d.start) + u64::dec_enc(d.length) }

pub open spec fn entry_flags(e: Entry) -> u8 {
    (if e.user_data@.len() > 0 { 1u8 } else { 0u8 }) | (if e.tree_nodes@.len() > 0 { 2u8 } else { 0u8 })
        | (if e.tree_upgrade is Some { 4u8 } else { 0u8 }) | (if e.bitfield is Some { 8u8 } else { 0u8 })
}
pub open spec fn opt_seq(c: bool, s: Seq<u8>) -> Seq<u8> { if c { s } else { Seq::<u8>::empty() } }
// section k of an entry (1 user data, 2 tree nodes, 3 tree upgrade, 4 bitfield): present flag, flag bit, bytes
pub open spec fn entry_present(k: int, d: Entry) -> bool {
    if k == 1 { d.user_data@.len() > 0 } else if k == 2 { d.tree_nodes@.len() > 0 } else if k == 3 { d.tree_upgrade is Some } else { d.bitfield is Some }
}
pub open spec fn entry_bit(k: int) -> u8 { if k == 1 { 1u8 } else if k == 2 { 2u8 } else if k == 3 { 4u8 } else { 8u8 } }
pub open spec fn entry_sec(k: int, d: Entry) -> Seq<u8> {
    if k == 1 { <Vec<String>>::dec_enc(d.user_data) } else if k == 2 { <Vec<Node>>::dec_enc(d.tree_nodes) }
    else if k == 3 { EntryTreeUpgrade::dec_enc(d.tree_upgrade->Some_0) } else { BitfieldUpdate::dec_enc(d.bitfield->Some_0) }
}
pub open spec fn entry_tail(k: int, d: Entry) -> Seq<u8>
    decreases 5 - k
{
    if k < 1 || k > 4 { Seq::<u8>::empty() } else { opt_seq(entry_present(k, d), entry_sec(k, d)) + entry_tail(k + 1, d) }
}
// flags byte (1 user data, 2 tree nodes, 4 tree upgrade, 8 bitfield), then the present sections in that order
pub open spec fn entry_enc(d: Entry) -> Seq<u8> { seq![entry_flags(d)] + entry_tail(1, d) }
pub open spec fn entry_eqv(a: Entry, b: Entry) -> bool {
    &&& a.user_data@ =~= b.user_data@
    &&& <Vec<Node>>::eqv(a.tree_nodes, b.tree_nodes)
    &&& a.tree_upgrade is Some == b.tree_upgrade is Some
    &&& (a.tree_upgrade is Some ==> EntryTreeUpgrade::eqv(a.tree_upgrade->Some_0, b.tree_upgrade->Some_0))
    &&& a.bitfield == b.bitfield
}

