// ---- std gaps (assumed specifications of std functions Verus has no spec for) ----
