// ---- std gaps (assumed specifications of std functions Verus has no spec for) ----
global size_of usize == 8;   // assumption: 64-bit target
pub mod vp_std {
use vstd::prelude::*;
pub uninterp spec fn vp_spec_min<T>(a: T, b: T) -> T;
pub assume_specification<T: core::cmp::Ord>[ core::cmp::min::<T> ](a: T, b: T) -> (r: T)
    ensures r == vp_spec_min(a, b);
#[verifier::external_body]
pub broadcast proof fn axiom_min_i64(a: i64, b: i64)
    ensures #[trigger] vp_spec_min(a, b) == (if a <= b { a } else { b }) {}
#[verifier::external_body]
pub broadcast proof fn axiom_min_u64(a: u64, b: u64)
    ensures #[trigger] vp_spec_min(a, b) == (if a <= b { a } else { b }) {}
#[verifier::external_body]
pub broadcast proof fn axiom_min_usize(a: usize, b: usize)
    ensures #[trigger] vp_spec_min(a, b) == (if a <= b { a } else { b }) {}
pub broadcast group group_std_gaps { axiom_min_i64, axiom_min_u64, axiom_min_usize }
pub assume_specification[ <i64 as core::convert::From<u32>>::from ](a: u32) -> (r: i64)
    ensures r == a as i64;
pub open spec fn byte_of(w: u32, n: u32) -> u8 { ((w >> (8 * n)) & 0xff) as u8 }
// u32::to_le_bytes has an anonymous const in its signature that assume_specification cannot name:
// the call is routed (logged rewrite) through this wrapper whose contract is assumed.
#[verifier::external_body]
pub fn vp_u32_to_le_bytes(x: u32) -> (r: [u8; 4])
    ensures r@[0] == byte_of(x, 0), r@[1] == byte_of(x, 1), r@[2] == byte_of(x, 2), r@[3] == byte_of(x, 3)
{ x.to_le_bytes() }
pub assume_specification<T, const N: usize>[ <Box<[T]> as core::convert::From<[T; N]>>::from ](a: [T; N]) -> (r: Box<[T]>)
    ensures r@ == a@;
pub assume_specification<T: Clone>[ <[T]>::to_vec ](s: &[T]) -> (r: Vec<T>)
    ensures r@ == s@;
pub assume_specification<T, A: core::alloc::Allocator>[ Vec::<T, A>::into_boxed_slice ](v: Vec<T, A>) -> (r: Box<[T], A>)
    ensures r@ == v@;
pub assume_specification<'a, T: Clone>[ <Box<[T]> as core::convert::From<&'a [T]>>::from ](a: &[T]) -> (r: Box<[T]>)
    ensures r@ == a@;
pub assume_specification<T, A: core::alloc::Allocator>[ <Box<[T], A> as core::convert::From<Vec<T, A>>>::from ](v: Vec<T, A>) -> (r: Box<[T], A>)
    ensures r@ == v@;
pub assume_specification<T: Clone, A: core::alloc::Allocator + Clone>[ <Box<[T], A> as Clone>::clone ](b: &Box<[T], A>) -> (r: Box<[T], A>)
    ensures r@ == b@;
pub assume_specification[ u32::pow ](b: u32, e: u32) -> (r: u32)
    requires vstd::arithmetic::power::pow(b as int, e as nat) <= u32::MAX,
    ensures  r == vstd::arithmetic::power::pow(b as int, e as nat);
} // mod vp_std
pub use vp_std::*;
/// `v.iter().position(|x| f(x))`: index of the first element the closure accepts (proved; the closure is the one in the source)
pub fn vp_position<T, F: Fn(&T) -> bool>(v: &Vec<T>, f: F, Ghost(p): Ghost<spec_fn(T) -> bool>) -> (r: Option<usize>)
    requires forall|i: int| 0 <= i < v@.len() ==> call_requires(f, (&#[trigger] v@[i],)), forall|x: T, ret: bool| call_ensures(f, (&x,), ret) ==> ret == p(x)
    ensures
        r is Some ==> r->Some_0 < v@.len() && p(v@[r->Some_0 as int]) && forall|j: int| 0 <= j < r->Some_0 ==> !p(#[trigger] v@[j]),
        r is None ==> forall|j: int| 0 <= j < v@.len() ==> !p(#[trigger] v@[j])
{
    let mut i: usize = 0;
    while i < v.len()
        invariant i <= v@.len(), forall|k: int| 0 <= k < v@.len() ==> call_requires(f, (&#[trigger] v@[k],)), forall|x: T, ret: bool| call_ensures(f, (&x,), ret) ==> ret == p(x),
            forall|j: int| 0 <= j < i ==> !p(#[trigger] v@[j])
        decreases v@.len() - i
    {
        if f(&v[i]) { return Some(i); }
        i += 1;
    }
    None
}
/// `&String == &str` (std's PartialEq<str> for String: same characters); Verus has no specification for it
#[verifier::external_body]
pub fn vp_str_eq(a: &String, b: &str) -> (r: bool)
    ensures r == (a@ == b@)
{ a == b }
// Vec::drain(0..1).collect() and Vec::extend(Vec) are outside Verus' std specs: routed (logged rewrites) through these
#[verifier::external_body]
pub fn vp_take_first<T>(v: Vec<T>) -> (r: Vec<T>)
    requires v@.len() >= 1
    ensures r@ == v@.subrange(0, 1)
{ let mut v = v; v.drain(0..1).collect() }
#[verifier::external_body]
pub fn vp_extend<T>(a: &mut Vec<T>, b: Vec<T>)
    ensures final(a)@ == old(a)@ + b@
{ a.extend(b) }
pub open spec fn spec_sum_u64(s: Seq<u64>) -> int
    decreases s.len()
{ if s.len() == 0 { 0 } else { spec_sum_u64(s.drop_last()) + s.last() } }
pub proof fn lemma_sum_u64_nonneg(s: Seq<u64>)
    ensures spec_sum_u64(s) >= 0
    decreases s.len()
{ if s.len() > 0 { lemma_sum_u64_nonneg(s.drop_last()); } }
pub proof fn lemma_sum_u64_lower(s: Seq<u64>, c: int)
    requires forall|i: int| 0 <= i < s.len() ==> s[i] >= c
    ensures spec_sum_u64(s) >= c * s.len()
    decreases s.len()
{
    if s.len() > 0 {
        lemma_sum_u64_lower(s.drop_last(), c);
        assert(c * s.len() == c * (s.len() - 1) + c) by (nonlinear_arith);
    }
}
/// `v.iter().sum()` on u64 (iterator adapters are outside Verus' std specs)
#[verifier::external_body]
pub fn vp_sum_u64(v: &Vec<u64>) -> (r: u64)
    requires spec_sum_u64(v@) <= u64::MAX
    ensures r == spec_sum_u64(v@)
{ v.iter().sum() }
#[verifier::external_type_specification]
#[verifier::external_body]
pub struct ExIoError(std::io::Error);

// ---- `(a..b).find(|&i| P)` and `(a..b).rev().find(|&i| P)` (iterator adapters over integer ranges, std): PROVED loops taking the
// closure of the source; the overlay adds a type and a spec to the closure's parameter list and a ghost predicate p that the
// closure is shown to compute
pub fn vp_find_up<F: Fn(u32) -> bool>(a: u32, b: u32, f: F, Ghost(p): Ghost<spec_fn(u32) -> bool>) -> (r: Option<u32>)
    requires forall|i: u32| a <= i < b ==> call_requires(f, (i,)), forall|i: u32, ret: bool| call_ensures(f, (i,), ret) ==> ret == p(i)
    ensures
        r is Some ==> a <= r->Some_0 < b && p(r->Some_0) && forall|j: u32| a <= j < r->Some_0 ==> !(#[trigger] p(j)),
        r is None ==> forall|j: u32| a <= j < b ==> !(#[trigger] p(j))
{
    let mut i = a;
    while i < b
        invariant a <= i, a <= b ==> i <= b, forall|k: u32| a <= k < b ==> call_requires(f, (k,)), forall|i: u32, ret: bool| call_ensures(f, (i,), ret) ==> ret == p(i), forall|j: u32| a <= j < i ==> !(#[trigger] p(j))
        decreases (if i < b { b - i } else { 0 })
    {
        if f(i) { return Some(i); }
        i += 1;
    }
    None
}
pub fn vp_find_down<F: Fn(u32) -> bool>(a: u32, b: u32, f: F, Ghost(p): Ghost<spec_fn(u32) -> bool>) -> (r: Option<u32>)
    requires forall|i: u32| a <= i < b ==> call_requires(f, (i,)), forall|i: u32, ret: bool| call_ensures(f, (i,), ret) ==> ret == p(i)
    ensures
        r is Some ==> a <= r->Some_0 < b && p(r->Some_0) && forall|j: u32| r->Some_0 < j < b ==> !(#[trigger] p(j)),
        r is None ==> forall|j: u32| a <= j < b ==> !(#[trigger] p(j))
{
    if b <= a { return None; }
    let mut i = b;
    while i > a
        invariant a <= i <= b, forall|k: u32| a <= k < b ==> call_requires(f, (k,)), forall|i: u32, ret: bool| call_ensures(f, (i,), ret) ==> ret == p(i), forall|j: u32| i <= j < b ==> !(#[trigger] p(j))
        decreases i
    {
        i -= 1;
        if f(i) { return Some(i); }
    }
    None
}
