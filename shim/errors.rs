// ---- src/common/error.rs (real enum, extracted) ----
/*@ item src/common/error.rs enum HypercoreError @*/
#[verifier::external_body]
pub fn vp_fmt() -> String { String::new() }
#[verifier::external_body]
pub fn vp_str() -> String { String::new() }
impl vstd::std_specs::convert::FromSpecImpl<EncodingError> for HypercoreError {
    open spec fn obeys_from_spec() -> bool { false }
    open spec fn from_spec(v: EncodingError) -> Self { arbitrary() }
}
impl From<EncodingError> for HypercoreError {
    /*@ fn src/common/error.rs From<EncodingError> for HypercoreError::from ; novis
    tags: C10
    @*/
}
