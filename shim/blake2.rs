// ---- blake2 crate (dependency, ASSUMED): a hasher absorbs byte strings in call order; finalize() is BLAKE2b-256 of their concatenation ----
pub mod blake2 {
use vstd::prelude::*;
use crate::crypto::blake2b;
/// what `update` accepts (impl AsRef<[u8]> in the real crate): its bytes
pub trait VpBytes { spec fn vb(&self) -> Seq<u8>; }
impl<const N: usize> VpBytes for [u8; N] { open spec fn vb(&self) -> Seq<u8> { self@ } }
impl<'a> VpBytes for &'a [u8] { open spec fn vb(&self) -> Seq<u8> { self@ } }
impl<'a> VpBytes for &'a Box<[u8]> { open spec fn vb(&self) -> Seq<u8> { self@ } }
impl<'a> VpBytes for &'a Vec<u8> { open spec fn vb(&self) -> Seq<u8> { self@ } }

#[verifier::external_body]
pub struct Blake2bResult { b: [u8; 32] }
impl View for Blake2bResult { type V = Seq<u8>; uninterp spec fn view(&self) -> Seq<u8>; }
impl Blake2bResult {
    #[verifier::external_body]
    pub fn as_slice(&self) -> (r: &[u8]) ensures r@ == self@ { unimplemented!() }
}
#[verifier::external_body]
pub struct Blake2b256 { st: u8 }
impl Blake2b256 {
    pub uninterp spec fn absorbed(&self) -> Seq<u8>;
    #[verifier::external_body]
    pub fn new() -> (r: Self) ensures r.absorbed() == Seq::<u8>::empty() { unimplemented!() }
    #[verifier::external_body]
    pub fn update<T: VpBytes>(&mut self, data: T) ensures final(self).absorbed() == old(self).absorbed() + data.vb() { unimplemented!() }
    #[verifier::external_body]
    pub fn finalize(self) -> (r: Blake2bResult) ensures r@ == blake2b(self.absorbed()), r@.len() == 32 { unimplemented!() }
}
/// `(|| Ok::<_, EncodingError>(to_encoded_bytes!(a, ..)))().expect(..)` of src/crypto/hash.rs: the compact encodings of the
/// arguments, concatenated in argument order (compact-encoding crate, ASSUMED); an argument `e?` is vp_expect_ok(e)
#[verifier::external_body]
pub fn vp_enc1<D1, A1: crate::CompactEncoding<D1>>(a1: A1) -> (r: Box<[u8]>)
    requires a1.enc_ok()
    ensures r@ == a1.spec_enc()
{ unimplemented!() }
#[verifier::external_body]
pub fn vp_enc2<D1, A1: crate::CompactEncoding<D1>, D2, A2: crate::CompactEncoding<D2>>(a1: A1, a2: A2) -> (r: Box<[u8]>)
    requires a1.enc_ok(), a2.enc_ok()
    ensures r@ == a1.spec_enc() + a2.spec_enc()
{ unimplemented!() }
#[verifier::external_body]
pub fn vp_enc4<D1, A1: crate::CompactEncoding<D1>, D2, A2: crate::CompactEncoding<D2>, D3, A3: crate::CompactEncoding<D3>, D4, A4: crate::CompactEncoding<D4>>(a1: A1, a2: A2, a3: A3, a4: A4) -> (r: Box<[u8]>)
    requires a1.enc_ok(), a2.enc_ok(), a3.enc_ok(), a4.enc_ok()
    ensures r@ == a1.spec_enc() + a2.spec_enc() + a3.spec_enc() + a4.spec_enc()
{ unimplemented!() }
/// the `?` inside the closure followed by `.expect(..)` outside it: a failing argument panics
#[verifier::external_body]
pub fn vp_expect_ok<T, E>(x: Result<T, E>) -> (r: T)
    requires x is Ok
    ensures r == x->Ok_0
{ unimplemented!() }
#[verifier::external_body]
pub fn vp_slice_to(b: &Box<[u8]>, n: usize) -> (r: &[u8]) requires n <= b@.len() ensures r@ == b@.subrange(0, n as int) { unimplemented!() }
#[verifier::external_body]
pub fn vp_slice_from(b: &Box<[u8]>, n: usize) -> (r: &[u8]) requires n <= b@.len() ensures r@ == b@.subrange(n as int, b@.len() as int) { unimplemented!() }
} // mod blake2
pub use blake2::{Blake2b256, Blake2bResult, vp_enc1, vp_enc2, vp_enc4, vp_expect_ok, vp_slice_to, vp_slice_from};
