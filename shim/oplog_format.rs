// ---- on-disk format of oplog entries and headers (spec only; written from the property text / JS layout) ----
/*@ item src/oplog/entry.rs struct EntryTreeUpgrade @*/
/*@ item src/oplog/entry.rs struct Entry @*/
/*@ item src/oplog/header.rs struct HeaderTree @*/
/*@ item src/oplog/header.rs struct HeaderHints @*/
/*@ item src/crypto/key_pair.rs struct PartialKeypair @*/
/*@ item src/crypto/manifest.rs struct Manifest @*/
/*@ item src/crypto/manifest.rs struct ManifestSigner @*/
/*@ item src/oplog/header.rs struct Header @*/
impl Clone for PartialKeypair {
    fn clone(&self) -> (r: Self) ensures r == *self {
        PartialKeypair { public: self.public.clone(), secret: match &self.secret { Some(k) => Some(k.clone()), None => None } }
    }
}

pub open spec fn upgrade_enc(d: EntryTreeUpgrade) -> Seq<u8> { u64::dec_enc(d.fork) + u64::dec_enc(d.ancestors) + u64::dec_enc(d.length) + <Box<[u8]>>::dec_enc(d.signature) }
pub open spec fn upgrade_eqv(a: EntryTreeUpgrade, b: EntryTreeUpgrade) -> bool { a.fork == b.fork && a.ancestors == b.ancestors && a.length == b.length && a.signature@ =~= b.signature@ }
// drop flag is one byte (bit 0), then start and length varints
pub open spec fn bitfield_update_enc(d: BitfieldUpdate) -> Seq<u8> { seq![if d.drop { 1u8 } else { 0u8 }] + u64::dec_enc(d.start) + u64::dec_enc(d.length) }

pub open spec fn entry_flags(e: Entry) -> u8 {
    (if e.user_data@.len() > 0 { 1u8 } else { 0u8 }) | (if e.tree_nodes@.len() > 0 { 2u8 } else { 0u8 })
        | (if e.tree_upgrade is Some { 4u8 } else { 0u8 }) | (if e.bitfield is Some { 8u8 } else { 0u8 })
}
pub open spec fn opt_seq(c: bool, s: Seq<u8>) -> Seq<u8> { if c { s } else { Seq::<u8>::empty() } }
// section k of an entry (1 user data, 2 tree nodes, 3 tree upgrade, 4 bitfield): present flag, flag bit, bytes
pub open spec fn entry_present(k: int, d: Entry) -> bool {
    if k == 1 { d.user_data@.len() > 0 } else if k == 2 { d.tree_nodes@.len() > 0 } else if k == 3 { d.tree_upgrade is Some } else { d.bitfield is Some }
}
pub open spec fn entry_bit(k: int) -> u8 { if k == 1 { 1u8 } else if k == 2 { 2u8 } else if k == 3 { 4u8 } else { 8u8 } }
pub open spec fn entry_sec(k: int, d: Entry) -> Seq<u8> {
    if k == 1 { <Vec<String>>::dec_enc(d.user_data) } else if k == 2 { <Vec<Node>>::dec_enc(d.tree_nodes) }
    else if k == 3 { EntryTreeUpgrade::dec_enc(d.tree_upgrade->Some_0) } else { BitfieldUpdate::dec_enc(d.bitfield->Some_0) }
}
pub open spec fn entry_tail(k: int, d: Entry) -> Seq<u8>
    decreases 5 - k
{
    if k < 1 || k > 4 { Seq::<u8>::empty() } else { opt_seq(entry_present(k, d), entry_sec(k, d)) + entry_tail(k + 1, d) }
}
// flags byte (1 user data, 2 tree nodes, 4 tree upgrade, 8 bitfield), then the present sections in that order
pub open spec fn entry_enc(d: Entry) -> Seq<u8> { seq![entry_flags(d)] + entry_tail(1, d) }
pub open spec fn entry_eqv(a: Entry, b: Entry) -> bool {
    &&& a.user_data@ =~= b.user_data@
    &&& <Vec<Node>>::eqv(a.tree_nodes, b.tree_nodes)
    &&& a.tree_upgrade is Some == b.tree_upgrade is Some
    &&& (a.tree_upgrade is Some ==> EntryTreeUpgrade::eqv(a.tree_upgrade->Some_0, b.tree_upgrade->Some_0))
    &&& a.bitfield == b.bitfield
}

pub open spec fn header_tree_enc(d: HeaderTree) -> Seq<u8> { u64::dec_enc(d.fork) + u64::dec_enc(d.length) + <Box<[u8]>>::dec_enc(d.root_hash) + <Box<[u8]>>::dec_enc(d.signature) }
pub open spec fn header_tree_eqv(a: HeaderTree, b: HeaderTree) -> bool { a.fork == b.fork && a.length == b.length && a.root_hash@ =~= b.root_hash@ && a.signature@ =~= b.signature@ }
pub open spec fn header_hints_enc(d: HeaderHints) -> Seq<u8> { <Vec<String>>::dec_enc(d.reorgs) + u64::dec_enc(d.contiguous_length) }
pub open spec fn header_hints_eqv(a: HeaderHints, b: HeaderHints) -> bool { a.reorgs@ =~= b.reorgs@ && a.contiguous_length == b.contiguous_length }
// public key as a 32-byte buffer, then either the single byte 0 (no secret) or a 64-byte buffer secret ++ public
pub open spec fn enc_keypair(d: PartialKeypair) -> Seq<u8> {
    seq![32u8] + d.public.bytes() + (if d.secret is Some { seq![64u8] + d.secret->Some_0.sk_bytes() + d.public.bytes() } else { seq![0u8] })
}
pub open spec fn keypair_eqv(a: PartialKeypair, b: PartialKeypair) -> bool {
    a.public.bytes() == b.public.bytes() && (a.secret is Some) == (b.secret is Some)
        && (a.secret is Some ==> a.secret->Some_0.sk_bytes() == b.secret->Some_0.sk_bytes())
}
// version 0, hash id 0 (blake2b), type 1, signature id 0 (ed25519), 32-byte namespace, 32-byte public key
pub open spec fn enc_manifest(d: Manifest) -> Seq<u8> { seq![0u8, 0u8, 1u8, 0u8] + d.signer.namespace@ + d.signer.public_key@ }
pub open spec fn manifest_eqv(a: Manifest, b: Manifest) -> bool { a.hash@ == b.hash@ && a.signer.signature@ == b.signer.signature@ && a.signer.namespace@ == b.signer.namespace@ && a.signer.public_key@ == b.signer.public_key@ }
pub open spec fn header_fields(d: Header) -> Seq<u8> {
    Manifest::dec_enc(d.manifest) + PartialKeypair::dec_enc(d.key_pair) + <Vec<String>>::dec_enc(d.user_data) + HeaderTree::dec_enc(d.tree) + HeaderHints::dec_enc(d.hints)
}
// version 1, flags 2|4, 32-byte key, manifest, key pair, user data, tree, hints
pub open spec fn header_enc(d: Header) -> Seq<u8> { seq![1u8, 6u8] + (d.key@ + header_fields(d)) }
pub open spec fn header_eqv(a: Header, b: Header) -> bool {
    a.key@ =~= b.key@ && Manifest::eqv(a.manifest, b.manifest) && PartialKeypair::eqv(a.key_pair, b.key_pair)
        && a.user_data@ =~= b.user_data@ && HeaderTree::eqv(a.tree, b.tree) && HeaderHints::eqv(a.hints, b.hints)
}
