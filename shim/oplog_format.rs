//@include shim/entry_format.rs
//@include shim/header_format.rs
