"""Replay files: one per violated function.  Names the failed obligation(s), the real source
location, the verifier output and, when the native executable contract finds one, a concrete
failing input together with the command that re-executes it on the real code."""
import json
import os
import re
import subprocess

from . import assemble

VERIF = assemble.VERIF


def write_replay(prop, unit, info, failed, seed, pre_native=None):
    os.makedirs(os.path.join(VERIF, "replay_out"), exist_ok=True)
    safe = re.sub(r"[^A-Za-z0-9_.-]+", "_", "%s-%s-%s" % (prop, unit, info.name))
    path = os.path.join(VERIF, "replay_out", safe + ".json")
    doc = {
        "property": prop, "unit": unit, "function": info.name,
        "source": "%s:%d" % (info.file, info.repo_line),
        "failed_obligations": [{k: f[k] for k in ("obligation", "clause", "verus_message", "at")} for f in failed],
        "verifier_output": "\n".join(f["rendered"] for f in failed)[:8000],
        "failing_input_found": False, "native": None,
        "how_to_replay": "./check --replay " + path,
    }
    try:
        from . import native
        nat = pre_native if pre_native is not None else native.search(prop, unit, info, failed, seed)
    except Exception as e:  # native replay is best effort; the verifier verdict stands on its own
        nat = {"ran": False, "reason": "native replay unavailable: %s" % e}
    doc["native"] = nat
    if nat and nat.get("failing_input") is not None:
        doc["failing_input_found"] = True
    with open(path, "w") as f:
        json.dump(doc, f, indent=1)
    return {"path": path, "failing_input_found": doc["failing_input_found"]}


def run_replay(path):
    with open(path) as f:
        doc = json.load(f)
    print("replay of %s (%s)" % (doc["function"], doc["source"]))
    for fo in doc["failed_obligations"]:
        print("  obligation %s: %s  [%s]" % (fo["obligation"], fo["clause"], fo["verus_message"]))
    nat = doc.get("native") or {}
    if nat.get("failing_input") is not None:
        from . import native
        return native.rerun(doc)
    print(doc["verifier_output"])
    print("no concrete failing input recorded (no-failing-input-found); re-run ./check %s to re-verify" % doc["property"])
    return 1
