"""Extract named items from Rust source text *by name* (bytes of /repo, not a re-typed copy).

Item specs:
    fn NAME                      top-level function
    IMPL::NAME                   method NAME inside the impl block whose header (text between
                                 `impl` and `{`, whitespace-normalised, generics kept) equals IMPL,
                                 e.g. `FixedBitfield::get`, `CompactEncoding for Node::decode`
    struct NAME / enum NAME / const NAME / static NAME / type NAME / macro NAME / invoke NAME (consecutive NAME!(..); items)
"""
import re
from . import lex


class ExtractError(Exception):
    pass


class Source:
    def __init__(self, path, text):
        self.path = path
        self.text = text
        self.masked = lex.mask(text)
        self._depth = None

    def depth_at(self, idx):
        if self._depth is None:
            d = 0
            arr = []
            for c in self.masked:
                arr.append(d)
                if c == "{":
                    d += 1
                elif c == "}":
                    d -= 1
                    arr[-1] = d
            self._depth = arr
        return self._depth[idx]

    # ------------------------------------------------------------------
    def impl_blocks(self):
        """yield (header, open_idx, close_idx) for every impl block at depth 0 (or inside `mod` at any depth)"""
        for m in re.finditer(r"\bimpl\b", self.masked):
            # header runs to first '{' at bracket depth 0
            ob = lex.find_top_level(self.masked, m.end(), len(self.masked), "{;")
            if ob < 0 or self.masked[ob] != "{":
                continue
            header = self.text[m.end():ob]
            header = re.sub(r"\bwhere\b.*", "", header, flags=re.S)
            header = " ".join(header.split())
            # strip leading generics `<...>`
            if header.startswith("<"):
                d = 0
                for k, c in enumerate(header):
                    if c == "<":
                        d += 1
                    elif c == ">":
                        d -= 1
                        if d == 0:
                            header = header[k + 1:].strip()
                            break
            yield header, ob, lex.match_close(self.masked, ob)

    def _item_start(self, kw_idx):
        """walk back from the keyword over visibility / qualifiers on the same item"""
        i = kw_idx
        while True:
            j = i
            # skip whitespace backwards
            while j > 0 and self.masked[j - 1] in " \t\n":
                j -= 1
            m = re.search(r"(pub\s*\([^)]*\)|pub|async|const|unsafe|extern)$", self.masked[max(0, j - 24):j])
            if not m:
                return i
            i = j - len(m.group(0))

    def _with_attrs(self, start):
        """extend an item start backwards over the attribute / doc-comment lines directly above it"""
        ls = self.text.rfind("\n", 0, start) + 1
        if self.text[ls:start].strip() != "":
            return start
        cur = ls
        while cur > 0:
            pe = cur - 1
            ps = self.text.rfind("\n", 0, pe) + 1
            line = self.text[ps:pe].strip()
            if line.startswith("#[") or line.startswith("///") or line.startswith("//!"):
                cur = ps
            else:
                break
        return cur if cur < ls else start

    def find_fn(self, name, lo=0, hi=None, depth=None):
        hi = len(self.masked) if hi is None else hi
        hits = []
        for m in re.finditer(r"\bfn\s+%s\b" % re.escape(name), self.masked[lo:hi]):
            idx = lo + m.start()
            if depth is not None and self.depth_at(idx) != depth:
                continue
            hits.append(idx)
        if not hits:
            raise ExtractError("fn %s not found in %s" % (name, self.path))
        if len(hits) > 1:
            raise ExtractError("fn %s ambiguous in %s (%d hits)" % (name, self.path, len(hits)))
        kw = hits[0]
        start = self._item_start(kw)
        ob = lex.find_top_level(self.masked, kw, hi, "{;")
        if ob < 0:
            raise ExtractError("fn %s: no body" % name)
        if self.masked[ob] == ";":
            end = ob + 1
        else:
            end = lex.match_close(self.masked, ob) + 1
        return self._with_attrs(start), end

    def find_method(self, impl_header, name):
        want = " ".join(impl_header.split())
        cands = [(h, a, b) for (h, a, b) in self.impl_blocks() if h == want]
        if not cands:
            raise ExtractError("impl `%s` not found in %s" % (want, self.path))
        hits = []
        for h, a, b in cands:
            base = self.depth_at(a) + 1
            try:
                hits.append(self.find_fn(name, a, b, depth=base))
            except ExtractError:
                pass
        if len(hits) != 1:
            raise ExtractError("method %s::%s: %d hits in %s" % (want, name, len(hits), self.path))
        return hits[0]

    def find_decl(self, kind, name):
        kw = {"macro": r"macro_rules!\s*"}.get(kind, kind + r"\s+")
        hits = []
        for m in re.finditer(r"\b%s%s\b" % (kw, re.escape(name)), self.masked):
            hits.append(m.start())
        # a `const` inside a fn body would be at depth>0; prefer the shallowest
        if not hits:
            raise ExtractError("%s %s not found in %s" % (kind, name, self.path))
        hits.sort(key=lambda i: self.depth_at(i))
        kwi = hits[0]
        start = self._item_start(kwi) if kind != "macro" else kwi
        t = lex.find_top_level(self.masked, kwi, len(self.masked), "{;")
        if t < 0:
            raise ExtractError("%s %s: no end" % (kind, name))
        if self.masked[t] == "{" and kind in ("const", "static", "type"):
            # e.g. const X: [u8; 3] = { ... };  -- find the ';' after
            t = lex.find_top_level(self.masked, kwi, len(self.masked), ";")
        if self.masked[t] == ";":
            end = t + 1
        else:
            end = lex.match_close(self.masked, t) + 1
            # tuple struct `struct X(..);`
        return (self._with_attrs(start) if kind != "macro" else start), end

    def find_invocations(self, name):
        """the run of consecutive top-level `NAME!(..);` invocations of a macro (nothing but white space in between)"""
        spans = []
        for m in re.finditer(r"\b%s!\s*\(" % re.escape(name), self.masked):
            if self.depth_at(m.start()) != 0:
                continue
            close = lex.match_close(self.masked, m.end() - 1)
            t = close + 1
            while t < len(self.masked) and self.masked[t] in " \t":
                t += 1
            if t < len(self.masked) and self.masked[t] == ";":
                spans.append((m.start(), t + 1))
        if not spans:
            raise ExtractError("no top-level invocation of %s! in %s" % (name, self.path))
        for (a, b), (c, d) in zip(spans, spans[1:]):
            if self.text[b:c].strip():
                raise ExtractError("invocations of %s! are not consecutive in %s" % (name, self.path))
        return spans[0][0], spans[-1][1]

    def find(self, spec):
        spec = spec.strip()
        m = re.match(r"(struct|enum|const|static|type|macro|fn|invoke)\s+(\w+)$", spec)
        if m:
            kind, name = m.groups()
            if kind == "invoke":
                return self.find_invocations(name)
            if kind == "fn":
                return self.find_fn(name, depth=0)
            return self.find_decl(kind, name)
        if "::" in spec:
            impl_header, name = spec.rsplit("::", 1)
            return self.find_method(impl_header, name)
        raise ExtractError("bad item spec `%s`" % spec)
