"""Thorough tier: the quick proof run plus a native sweep of the executable contracts that cover the property
(bounded exploration on the REAL code: it must find nothing on the unchanged tree; a failing input is a violation
with a replay file), with a larger search budget and the run's seed."""
import json
import os
import time

from . import native, replaylib, assemble

VERIF = assemble.VERIF

NATIVE = {
    "C01": ["e2e.list_model", "e2e.list_model_pages", "bitfield.ranges", "bitfield.open", "bitfield.from_data", "bitfield.searches", "oplog.open_js_layout"],
    "C02": ["e2e.crash_prefixes", "e2e.crash_read_only", "oplog.open_js_layout"],
    "C03": ["proofs.honest_replication", "dep.flat_tree_model"],
    "C04": ["proofs.arbitrary_proofs_refused", "proofs.altered_proofs_refused", "dep.flat_tree_model"],
    "C05": ["merkle.reference_tree", "dep.flat_tree_model"],
    "C06": ["oplog.open_js_layout", "bitfield.open", "bitfield.from_data", "merkle.reference_tree"],
    "C07": ["e2e.torn_writes", "oplog.open_js_layout"],
    "C08": ["bitfield.ranges", "bitfield.open", "bitfield.from_data", "e2e.list_model_pages", "e2e.list_model", "e2e.replica_contiguous", "bitfield.searches"],
    "C09": ["proofs.requests_no_panic", "proofs.requests_exhaustive_small", "proofs.arbitrary_proofs_refused", "dep.flat_tree_model"],
    "C10": ["e2e.fault_injection"],
    "C11": ["codec.wire_reference"],
    "C12": ["e2e.read_only_hygiene", "e2e.crash_read_only"],
    "C13": ["e2e.events"],
}


def run(prop, seed, results, quick_code, t0):
    names = NATIVE.get(prop, [])
    budget = int(os.environ.get("VERIF_NATIVE_BUDGET", "400"))
    res = native.run_search(names, seed, budget, timeout=3000) if names else {}
    code = quick_code
    evp = os.path.join(VERIF, "evidence", prop + ".json")
    with open(evp) as f:
        ev = json.load(f)
    ev["tier"] = "thorough"
    sweep = {}
    if "error" in res:
        sweep["error"] = res["error"][-600:]
        if code == 0:
            code = 2
            print("CANNOT-DECIDE: native sweep unavailable: %s" % res["error"][-200:])
    for n in names:
        if n in res:
            st, detail = res[n]
            sweep[n] = st if st == "pass" else {"status": st, "failing_input": detail[:2000]}
            if st == "FAIL":
                os.makedirs(os.path.join(VERIF, "replay_out"), exist_ok=True)
                path = os.path.join(VERIF, "replay_out", "%s-native-%s.json" % (prop, n.replace(".", "_")))
                with open(path, "w") as f:
                    json.dump({"property": prop, "unit": "native", "function": n, "source": "replay/exec_*.rs (executable contract on the real code)",
                               "failed_obligations": [{"obligation": "native::" + n, "clause": "executable contract", "verus_message": "failing input found", "at": ""}],
                               "verifier_output": detail, "failing_input_found": True,
                               "native": {"ran": True, "contract": n, "failing_input": detail},
                               "how_to_replay": "./check --replay " + path}, f, indent=1)
                print("VIOLATION property=%s replay=%s obligation=native::%s" % (prop, path, n))
                ev["violations"] = ev.get("violations", 0) + 1
                code = 1
        elif "error" not in res:
            sweep[n] = "not built yet"
    ev["coverage"]["native_sweep"] = {"contracts": sweep, "budget_per_contract": budget, "seed": seed,
                                      "note": "bounded exploration by executable contracts on the real code (scratch copy of /repo/src, overflow checks on); not counted as proof"}
    ev["wall_s"] = round(time.time() - t0, 2)
    with open(evp, "w") as f:
        json.dump(ev, f, indent=1)
    native.cleanup()
    print("%s tier=thorough native=%s exit=%d" % (prop, {k: (v if isinstance(v, str) else v.get("status")) for k, v in sweep.items()}, code))
    return code
