"""Native replay: executable contracts run against the real code (filled in later)."""


def search(prop, unit, info, failed, seed):
    return {"ran": False, "reason": "no executable contract registered for " + info.name}


def rerun(doc):
    print("native rerun not available")
    return 1
