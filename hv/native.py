"""Native replay: executable contracts compiled INTO a scratch copy of /repo/src and run on the real code.

The scratch copy is made from /repo's working tree on every build (outside /repo and /verif).
Appended to the copy (and to nothing else):
  * lib.rs:            `#[path=".../exec_root.rs"] pub mod verif_exec;` + e2e module
  * src/<x>/mod.rs...: `#[path=".../exec_<x>.rs"] pub(crate) mod verif_exec;` for private-item access
  * src/bin/verif_replay.rs: the driver
The cargo target dir is cached under /verif/.cache (ignored by git) so that later builds are incremental.
"""
import os
import re
import shutil
import subprocess
import tempfile
import time

from . import assemble

VERIF = assemble.VERIF
REPO = assemble.REPO
CACHE = os.path.join(VERIF, ".cache")

# (file in src, module declaration appended)
CHILD_MODULES = [
    ("lib.rs", '#[path = "%(R)s/exec_root.rs"] pub mod verif_exec;\n#[path = "%(R)s/exec_e2e.rs"] pub mod verif_exec_e2e;\n#[path = "%(R)s/exec_proofs.rs"] pub mod verif_exec_proofs;\n#[path = "%(R)s/exec_crash.rs"] pub mod verif_exec_crash;\n#[path = "%(R)s/exec_misc.rs"] pub mod verif_exec_misc;\n#[path = "%(R)s/exec_merkle.rs"] pub mod verif_exec_merkle;\n#[path = "%(R)s/exec_deps.rs"] pub mod verif_exec_deps;\n'),
    ("bitfield/mod.rs", '#[path = "%(R)s/exec_bitfield.rs"] pub(crate) mod verif_exec;\n'),
    ("oplog/mod.rs", '#[path = "%(R)s/exec_oplog.rs"] pub(crate) mod verif_exec;\n'),
]

_BUILD = {}


def build(verbose=False):
    """-> (binary path or None, log)"""
    if "bin" in _BUILD:
        return _BUILD["bin"], _BUILD["log"]
    t0 = time.time()
    os.makedirs(CACHE, exist_ok=True)
    base = os.environ.get("TMPDIR", "/tmp")
    wd = tempfile.mkdtemp(prefix="hcverif-native.", dir=base)
    try:
        shutil.copytree(os.path.join(REPO, "src"), os.path.join(wd, "src"))
        lock = os.path.join(REPO, "Cargo.lock")
        if not os.path.exists(lock):
            lock = "/repo/Cargo.lock"     # Cargo.lock is not tracked by git: worktrees do not have it
        shutil.copy(lock, wd)
        with open(os.path.join(REPO, "Cargo.toml")) as f:
            toml = f.read()
        # drop benches / dev-deps sections that reference files we do not copy
        toml = re.sub(r"\[\[bench\]\][^\[]*", "", toml)
        toml += '\n[[bin]]\nname = "verif_replay"\npath = "src/bin/verif_replay.rs"\n'
        with open(os.path.join(wd, "Cargo.toml"), "w") as f:
            f.write(toml)
        # lint levels only: `#![forbid(missing_docs, ...)]` would reject the appended test modules
        lp = os.path.join(wd, "src", "lib.rs")
        with open(lp) as f:
            ls = f.read()
        with open(lp, "w") as f:
            f.write(ls.replace("#![forbid(", "#![warn(").replace("#![cfg_attr(test, deny(warnings))]", ""))
        rdir = os.path.join(VERIF, "replay")
        for rel, decl in CHILD_MODULES:
            p = os.path.join(wd, "src", rel)
            with open(p, "a") as f:
                f.write("\n" + decl % {"R": rdir})
        os.makedirs(os.path.join(wd, "src", "bin"), exist_ok=True)
        shutil.copy(os.path.join(rdir, "bin_verif_replay.rs"), os.path.join(wd, "src", "bin", "verif_replay.rs"))
        env = dict(os.environ)
        env["CARGO_TARGET_DIR"] = os.path.join(CACHE, "target")
        env["CARGO_NET_OFFLINE"] = "true"
        env.setdefault("RUSTFLAGS", "-Awarnings -C overflow-checks=on")   # arithmetic overflow panics, as in debug builds
        p = subprocess.run(["cargo", "build", "--offline", "--release", "--bin", "verif_replay"], cwd=wd, env=env,
                           capture_output=True, text=True, timeout=1800)
        log = (p.stdout + p.stderr)[-6000:]
        binp = os.path.join(CACHE, "target", "release", "verif_replay")
        if p.returncode != 0 or not os.path.exists(binp):
            _BUILD["bin"], _BUILD["log"] = None, "native build failed (%.0fs):\n%s" % (time.time() - t0, log)
        else:
            # copy the binary so that a later build cannot change what we run
            dst = os.path.join(CACHE, "verif_replay.%d" % os.getpid())
            shutil.copy(binp, dst)
            _BUILD["bin"], _BUILD["log"] = dst, "native build ok (%.0fs)" % (time.time() - t0)
    finally:
        shutil.rmtree(wd, ignore_errors=True)
    return _BUILD["bin"], _BUILD["log"]


def cleanup():
    b = _BUILD.get("bin")
    if b and os.path.exists(b):
        os.unlink(b)
    _BUILD.clear()


def run_search(selectors, seed, budget, timeout=900):
    """-> dict name -> ('pass'|'FAIL', detail) or {'error':..}"""
    binp, log = build()
    if not binp:
        return {"error": log}
    try:
        p = subprocess.run([binp, "search", str(seed), str(budget)] + selectors, capture_output=True, text=True, timeout=timeout)
    except subprocess.TimeoutExpired:
        return {"error": "native search did not finish within %d s" % timeout}
    res = {}
    for ln in p.stdout.splitlines():
        f = ln.split("\t")
        if f[0] == "RESULT":
            res[f[1]] = (f[2], f[3] if len(f) > 3 else "")
    if p.returncode not in (0, 1):
        res["error"] = "replay binary exit %d: %s" % (p.returncode, p.stderr[-500:])
    return res


_PRE = {}


def covers():
    """contract name -> list of function item specs it covers"""
    binp, log = build()
    if not binp:
        return {}
    p = subprocess.run([binp, "list"], capture_output=True, text=True, timeout=60)
    out = {}
    for ln in p.stdout.splitlines():
        f = ln.split("\t")
        if len(f) >= 2:
            out[f[0]] = f[1].split(",")
    return out


def search(prop, unit, info, failed, seed):
    """called for a function whose proof failed: run the executable contracts that cover it"""
    sel = ["fn:" + info.name]
    res = run_search(sel, seed, 300)
    if "error" in res:
        return {"ran": False, "reason": res["error"]}
    if not res:
        return {"ran": False, "reason": "no executable contract covers " + info.name}
    out = {"ran": True, "contracts": {k: v[0] for k, v in res.items()}, "failing_input": None}
    for name, (st, detail) in res.items():
        if st == "FAIL":
            out["failing_input"] = detail
            out["contract"] = name
            out["rerun_cmd"] = "verif_replay rerun %s '<failing_input>'" % name
            break
    return out


def rerun(doc):
    nat = doc["native"]
    binp, log = build()
    if not binp:
        print(log)
        return 2
    p = subprocess.run([binp, "rerun", nat["contract"], nat["failing_input"]], capture_output=True, text=True, timeout=900)
    print(p.stdout.strip())
    print("replayed on the real code of /repo (scratch copy of the current working tree): %s" %
          ("still failing" if p.returncode == 1 else "passes now"))
    cleanup()
    return 1 if p.returncode == 1 else 0
