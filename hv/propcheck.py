"""Decide one property: assemble the units that serve it from /repo's current tree, run Verus,
map diagnostics to obligations, write evidence/<id>.json, print VIOLATION / KNOWN-FINDING lines.

exit 0  every obligation tagged with the property discharged (known findings printed)
exit 1  at least one obligation refuted that known_findings.json does not list
exit 2  cannot decide (lost anchor, unsupported construct, rlimit, tool failure, vacuous precondition)
"""
import concurrent.futures as cf
import json
import os
import re
import shutil
import sys
import time

from . import assemble, verus, lex
from .cli import scratch_dir

VERIF = assemble.VERIF
SPEC_FILE = os.path.join(VERIF, "properties_map.json")


def load_map():
    with open(SPEC_FILE) as f:
        return json.load(f)


def scan_trusted(text):
    """mechanical scan of the assembled unit for assumption constructs"""
    masked = lex.mask(text)
    found = []
    for pat, what in [(r"\bassume\s*\(", "assume("), (r"\badmit\s*\(", "admit("),
                      (r"external_body", "external_body"), (r"\bassume_specification\b", "assume_specification"),
                      (r"exec_allows_no_decreases_clause", "exec_allows_no_decreases_clause"),
                      (r"\buninterp\b", "uninterp spec fn"), (r"external_type_specification", "external_type_specification"),
                      (r"external_trait_specification", "external_trait_specification"),
                      (r"#\[verifier::external\]", "verifier::external"), (r"\baxiom\b", "axiom")]:
        for m in re.finditer(pat, masked):
            ln = lex.line_of(text, m.start())
            line = text.split("\n")[ln - 1].strip()
            # name the item: look ahead for fn / struct name
            tail = text[m.start():m.start() + 400]
            nm = re.search(r"(?:fn|struct|trait|enum)\s+([A-Za-z_]\w*)|\[\s*([^\]]+?)\s*\]", tail)
            name = (nm.group(1) or nm.group(2)).strip() if nm else line[:60]
            found.append((what, name))
    return found


def _fn_of_line(infos, line):
    for i in infos:
        if i.line_start <= line <= i.line_end:
            return i
    return None


def run_unit(unit, workdir):
    """-> dict with per-function status"""
    t0 = time.time()
    res = {"unit": unit, "status": "ok", "reason": None, "functions": [], "verus_cmd": None,
           "rewrites": {}, "trusted": [], "times": {}, "wall_s": 0.0, "probe": {}}
    try:
        text, infos, log = assemble.assemble(unit)
        ptext, pinfos, _ = assemble.assemble(unit, probes=True)
    except assemble.AssembleError as e:
        res["status"] = "undecided"
        res["reason"] = "assemble: %s" % e
        res["wall_s"] = time.time() - t0
        return res, [], ""
    res["rewrites"] = log
    res["trusted"] = scan_trusted(text)
    res["trusted"] += [("assumed contract of a /repo function (proved in its home unit)", i.name) for i in infos if getattr(i, "assumed", False)]
    path = os.path.join(workdir, unit + ".rs")
    ppath = os.path.join(workdir, unit + "_probes.rs")
    with open(path, "w") as f:
        f.write(text)
    with open(ppath, "w") as f:
        f.write(ptext)
    with cf.ThreadPoolExecutor(2) as ex:
        fut = ex.submit(verus.run, path, workdir)
        pfut = ex.submit(verus.run, ppath, workdir, None, 900, 2, 3)
        vr = fut.result()
        pr = pfut.result()
    res["verus_cmd"] = vr["cmd"]
    res["verus_wall_s"] = vr["wall_s"]
    summ = vr["summary"] or {}
    vres = summ.get("verification-results", {})
    hard = [d for d in vr["diags"] if d.level == "error" and d.kind == "other"]
    compile_failed = (vr["summary"] is None) or vres.get("encountered-vir-error") or \
        (vres.get("encountered-error") and not vr["funcs"])
    if hard or compile_failed:
        # errors that are not verification failures (unsupported construct, type error...): cannot decide
        msg = "; ".join(sorted(set(d.message.split("\n")[0] for d in hard)))[:600] or vr["stderr_other"][-400:]
        if hard and not compile_failed and all(_fn_of_line(infos, l[0]) for d in hard for l in d.lines[:1]):
            pass  # verification-time 'other' diagnostics located in functions: handled per function below
        else:
            res["status"] = "undecided"
            res["reason"] = "verus could not ingest the unit: " + msg
    # per function
    lines_text = text.split("\n")
    by_fn = {}
    unplaced = []
    for d in vr["diags"]:
        if d.level != "error" or d.kind == "noise":
            continue
        placed = False
        prim = [l for l in d.lines if l[3]] + [l for l in d.lines if not l[3]]
        for (ls, le, label, isprim) in prim:
            fi = _fn_of_line(infos, ls)
            if fi is not None:
                by_fn.setdefault(id(fi), []).append(d)
                placed = True
                break
        if not placed:
            unplaced.append(d)
    if unplaced and res["status"] == "ok":
        # a failure outside every extracted function (lemma / shim): a proof-engineering problem, not the code
        res["status"] = "undecided"
        res["reason"] = "failure outside extracted functions: " + unplaced[0].message.split("\n")[0]
        res["unplaced"] = [d.rendered for d in unplaced[:3]]
    # verus function names -> times
    for i in infos:
        if getattr(i, "assumed", False):
            continue
        st = "verified"
        failed = []
        for d in by_fn.get(id(i), []):
            if i.unproved_regions and d.kind in ("refuted", "undecided"):
                prim = [l[0] for l in d.lines if l[3]] or [l[0] for l in d.lines]
                inside = [l for l in prim if i.line_start <= l <= i.line_end]
                reg = [r for r in i.unproved_regions if inside and all(r[0] <= l <= r[1] for l in inside)]
                if reg:
                    res.setdefault("unproved", []).append({"function": i.name, "reason": reg[0][2],
                                                           "verus_message": d.message.split("\n")[0]})
                    continue
            kind = d.kind
            alll = [l[0] for l in d.lines]
            cl = None
            for c in i.clauses:
                if any(l in c.get("lines", []) for l in alll):
                    cl = c
                    break
            if cl is None and "postcondition" in d.message:
                tcs = [c for c in i.clauses if c["kind"] == "trait-contract"]
                if tcs:
                    failed_line = ""
                    for (ls, le, label, isprim) in d.lines:
                        if label and "failed this postcondition" in label and 0 < ls <= len(lines_text):
                            failed_line = lines_text[ls - 1].strip()
                    cl = dict(tcs[0])
                    cl["id"] = "trait-contract"
                    cl["text"] = "trait-level contract clause: " + failed_line
            if cl is None:
                cl = [c for c in i.clauses if c["kind"] == "safety"][0]
            snippet = ""
            for (ls, le, label, isprim) in d.lines:
                if isprim and 0 < ls <= len(lines_text):
                    snippet = lines_text[ls - 1].strip()
            failed.append({"obligation": "%s::%s::%s" % (unit, i.name, cl["id"]), "clause": cl["text"],
                           "verus_message": d.message.split("\n")[0], "kind": kind, "at": snippet,
                           "rendered": d.rendered})
            if kind == "refuted":
                st = "refuted"
            elif st != "refuted":
                st = "undecided"
        if res["status"] == "undecided" and st == "verified":
            st = "undecided"
        if getattr(i, "lost_obligations", None) and st == "verified":
            # in-body obligations of the overlay could not be placed in the changed source: not proved, not refuted
            st = "undecided"
            cl0 = [c for c in i.clauses if c["kind"] == "safety"][0]
            failed.append({"obligation": "%s::%s::in-body" % (unit, i.name), "clause": "in-body obligations of the contract",
                           "verus_message": "in-body obligation lost: %s (%s)" % ("; ".join(i.lost_obligations), "; ".join(i.lost)),
                           "kind": "undecided", "at": "", "rendered": ""})
        if i.lost and st == "refuted":
            # a proof hint could not be placed: the failure may be the lost hint, not the code
            st = "undecided"
            for f in failed:
                f["kind"] = "undecided"
                f["verus_message"] += " (proof hint lost: %s)" % "; ".join(i.lost)
        res["functions"].append({"info": i, "status": st, "failed": failed})
    # solver times
    for k, v in vr["funcs"].items():
        res["times"][k] = v["ms"]
    # probes: every probe assertion must FAIL
    # a probe is satisfied when Verus could NOT prove `false` there: either "assertion failed" at the probe
    # line, or the (deliberately tiny) resource limit of the probe run was hit inside that function
    pdiag_lines = set()
    undecided_fns = set()
    for d in pr["diags"]:
        if d.level != "error":
            continue
        if "assertion failed" in d.message:
            for l in d.lines:
                pdiag_lines.add(l[0])
        elif d.kind == "undecided":
            for l in d.lines:
                fi = _fn_of_line(pinfos, l[0])
                if fi is not None:
                    undecided_fns.add(id(fi))
    n_probe = 0
    vacuous = []
    for pi in pinfos:
        for c in pi.probes:
            n_probe += 1
            if not any(l in pdiag_lines for l in c.get("lines", [])) and id(pi) not in undecided_fns:
                vacuous.append("%s::%s::%s" % (unit, pi.name, c["text"]))
    psumm = (pr["summary"] or {}).get("verification-results", {})
    if n_probe and (pr["summary"] is None or psumm.get("encountered-vir-error")):
        if res["status"] == "ok":
            res["status"] = "undecided"
            res["reason"] = "probe unit could not be ingested"
    res["probe"] = {"run": n_probe, "failed_as_required": n_probe - len(vacuous), "vacuous": vacuous}
    if vacuous and res["status"] == "ok":
        res["status"] = "undecided"
        res["reason"] = "vacuity: precondition/invariant not satisfiable for " + ", ".join(vacuous[:5])
    res["wall_s"] = time.time() - t0
    return res, infos, text


def _default_natives(file_spec):
    """end-to-end executable contracts that exercise the code of a source file (used for functions no contract lists)"""
    f = file_spec or ""
    if f.startswith("src/oplog") or "manifest" in f:
        return ["e2e.list_model", "oplog.open_js_layout", "e2e.crash_prefixes"]
    if f.startswith("src/storage") or f.startswith("src/data") or f.endswith("common/store.rs"):
        return ["e2e.list_model", "e2e.fault_injection"]
    if f.startswith("src/bitfield"):
        return ["bitfield.ranges", "e2e.list_model", "e2e.list_model_pages"]
    if f.startswith("src/tree") or f.startswith("src/crypto") or f.endswith("common/node.rs"):
        return ["proofs.honest_replication", "merkle.reference_tree", "e2e.list_model", "proofs.altered_proofs_refused"]
    if f.startswith("src/replication"):
        return ["e2e.events"]
    if f.endswith("src/encoding.rs") or f == "src/encoding.rs":
        return ["codec.wire_reference", "e2e.list_model", "oplog.open_js_layout"]
    return ["e2e.list_model", "proofs.honest_replication", "e2e.read_only_hygiene"]


def load_known():
    p = os.path.join(VERIF, "known_findings.json")
    if not os.path.exists(p):
        return {"findings": [], "fixed": []}
    with open(p) as f:
        return json.load(f)


def run(prop, tier):
    t0 = time.time()
    seed = int(os.environ.get("VERIF_SEED", "0") or 0)
    pm = load_map()
    if prop not in pm["properties"]:
        print("property %s is not claimed (see MANIFEST.not_applicable)" % prop)
        return 2
    units = pm["properties"][prop]["units"]
    wd = scratch_dir()
    results = []
    try:
        with cf.ThreadPoolExecutor(max(1, min(len(units), 6))) as ex:
            futs = [ex.submit(run_unit, u, wd) for u in units]
            for f in futs:
                results.append(f.result())
        code = report(prop, tier, seed, results, time.time() - t0, pm)
        if tier == "thorough":
            from . import thorough
            code = thorough.run(prop, seed, results, code, t0)
        return code
    finally:
        shutil.rmtree(wd, ignore_errors=True)
        try:
            from . import native as _n
            _n.cleanup()
        except Exception:
            pass


def report(prop, tier, seed, results, wall, pm):
    known = load_known()
    obligations = 0
    discharged = 0
    violations = []
    undecided = []
    fn_rows = []
    samples = []
    trusted = set()
    rewrites = {}
    times = {}
    probes = {"run": 0, "failed_as_required": 0}
    checker_cmds = []
    unproved_regions = set()
    for res, infos, text in results:
        if res["verus_cmd"]:
            checker_cmds.append("(cd <scratch>; %s)" % res["verus_cmd"])
        for what, name in res["trusted"]:
            trusted.add("%s: %s [%s]" % (what, name, res["unit"]))
        for k, v in res["rewrites"].items():
            rewrites[k] = rewrites.get(k, 0) + v
        probes["run"] += res["probe"].get("run", 0)
        probes["failed_as_required"] += res["probe"].get("failed_as_required", 0)
        if res["status"] == "undecided":
            undecided.append("%s: %s" % (res["unit"], res["reason"]))
        for u in res.get("unproved", []):
            unproved_regions.add("%s: region not proved (%s); covered by the native contracts only" % (u["function"], u["reason"]))
        for fr in res["functions"]:
            i = fr["info"]
            if prop not in i.tags:
                continue
            n = len(i.clauses)
            obligations += n
            bad = set(f["obligation"] for f in fr["failed"])
            if fr["status"] == "verified":
                discharged += n
            else:
                discharged += max(0, n - len(bad)) if fr["status"] == "refuted" else 0
            # solver time: best-effort match on the function name
            short = i.name.split("::")[-1]
            ms = sum(v for k, v in res["times"].items() if k.endswith("::" + short))
            fn_rows.append({"function": "%s (%s:%d)" % (i.name, i.file, i.repo_line), "unit": res["unit"],
                            "status": fr["status"], "obligations": n, "solver_ms": ms})
            if len(samples) < 6 and i.clauses:
                c = i.clauses[0]
                samples.append({"obligation": "%s::%s::%s" % (res["unit"], i.name, c["id"]), "clause": c["text"],
                                "source": "%s:%d" % (i.file, i.repo_line), "status": fr["status"]})
            if fr["status"] == "refuted":
                violations.append((res["unit"], i, [f for f in fr["failed"] if f["kind"] == "refuted"]))
            elif fr["status"] == "undecided":
                for f in fr["failed"]:
                    undecided.append("%s: %s" % (f["obligation"], f["verus_message"]))
    out_lines = []
    exit_code = 0
    nviol = 0
    # undecided functions: the executable contracts are an independent, sound detector (a concrete failing
    # input on the real code is a violation whatever the reason the proof could not be completed)
    from . import native as _native
    und_fns = []
    for res, infos, text in results:
        for fr in res["functions"]:
            if prop in fr["info"].tags and fr["status"] == "undecided":
                und_fns.append((res["unit"], fr))
    if und_fns and os.environ.get("HV_NO_NATIVE") != "1":
        sels = set("fn:" + fr["info"].name for _, fr in und_fns)
        # functions that no contract names in its `covers` list are still exercised by the end-to-end contracts of their
        # source file: those are run as well (a failing input on the real code is a violation whatever function is named)
        cover0 = _native.covers()
        named = set(x for v in cover0.values() for x in v)
        dflt = {}
        for _, fr in und_fns:
            if fr["info"].name not in named:
                dflt[fr["info"].name] = _default_natives(fr["info"].file)
                sels.update(dflt[fr["info"].name])
        sels = sorted(sels)
        nres = _native.run_search(sels, seed, 300, timeout=3000)
        failing = {k: v[1] for k, v in nres.items() if isinstance(v, tuple) and v[0] == "FAIL"}
        if failing:
            cover = cover0
            for unit, fr in und_fns:
                hit = [c for c in failing if fr["info"].name in cover.get(c, []) or c in dflt.get(fr["info"].name, [])]
                if not hit:
                    continue
                f0 = fr["failed"] or [{"obligation": "%s::%s::safety" % (unit, fr["info"].name), "clause": "", "verus_message": "undecided", "at": "", "rendered": ""}]
                for f in f0:
                    f["kind"] = "refuted"
                fr["native_hit"] = {"ran": True, "contracts": {c: "FAIL" for c in hit}, "contract": hit[0], "failing_input": failing[hit[0]]}
                violations.append((unit, fr["info"], f0))
                undecided[:] = [u for u in undecided if not u.startswith("%s::%s::" % (unit, fr["info"].name))]
    os.makedirs(os.path.join(VERIF, "replay_out"), exist_ok=True)
    from . import replaylib
    for unit, i, failed in violations:
        obl = failed[0]["obligation"]
        kf = [k for k in known.get("findings", []) if k.get("property") == prop and k.get("obligation") in [f["obligation"] for f in failed]]
        unlisted = [f for f in failed if not any(k.get("obligation") == f["obligation"] for k in kf)]
        for k in kf:
            out_lines.append("KNOWN-FINDING: property=%s %s" % (prop, k.get("what", k.get("obligation"))))
        if not unlisted:
            continue
        nviol += 1
        pre = None
        for _u, _fr in und_fns:
            if _fr["info"] is i and _fr.get("native_hit"):
                pre = _fr["native_hit"]
        rp = replaylib.write_replay(prop, unit, i, unlisted, seed, pre)
        suffix = "" if rp["failing_input_found"] else " no-failing-input-found"
        out_lines.append("VIOLATION property=%s replay=%s obligation=%s%s" % (prop, rp["path"], unlisted[0]["obligation"], suffix))
        exit_code = 1
    if exit_code == 0 and undecided:
        exit_code = 2
    ev = {
        "property_id": prop, "tier": tier, "seed": seed, "level": "proof",
        "coverage": {
            "obligations": obligations, "discharged": discharged,
            "checker_cmd": " && ".join(checker_cmds) or "verus <unit>.rs",
            "trusted_base": sorted(trusted) + ["rewrite %s: %d site(s)" % (k, v) for k, v in sorted(rewrites.items())]
            + ["machine integers are machine integers: Verus checks every arithmetic operation for overflow",
               "unsafe code: none in /repo/src (#![forbid(unsafe_code)] in src/lib.rs); the dependencies are outside the proofs (assumed contracts)"],
            "samples": samples,
            "functions_under_contract": fn_rows,
            "backend": "Verus 0.2026.09.13 / Z3 (bit_vector queries: Z3 bit-vector theory)",
            "solver_ms_total": sum(r["solver_ms"] for r in fn_rows),
            "vacuity_probes": probes,
            "undecided": undecided,
            "not_decided": pm["properties"][prop].get("not_decided", []),
            "bounded": pm["properties"][prop].get("bounded", []) + sorted(unproved_regions),
            "explanation": pm["properties"][prop].get("explanation", ""),
        },
        "assumptions": pm["properties"][prop].get("assumptions", []),
        "wall_s": round(wall, 2),
        "violations": nviol,
    }
    os.makedirs(os.path.join(VERIF, "evidence"), exist_ok=True)
    with open(os.path.join(VERIF, "evidence", prop + ".json"), "w") as f:
        json.dump(ev, f, indent=1)
    for ln in out_lines:
        print(ln)
    print("%s tier=%s obligations=%d discharged=%d functions=%d probes=%d/%d wall=%.1fs exit=%d" % (
        prop, tier, obligations, discharged, len(fn_rows), probes["failed_as_required"], probes["run"], wall, exit_code))
    if undecided:
        for u in undecided[:20]:
            print("CANNOT-DECIDE: %s" % u)
    return exit_code


def replay(path):
    from . import replaylib
    return replaylib.run_replay(path)
