"""Run Verus on an assembled unit and classify the outcome per function / clause."""
import json
import os
import re
import subprocess
import time

RLIMIT = "30"      # verus --rlimit (seconds-ish); fixed so that runs are comparable

REFUTED_MSGS = (
    "postcondition not satisfied", "precondition not satisfied", "assertion failed",
    "invariant not satisfied", "possible arithmetic underflow/overflow", "possible division by zero",
    "decreases not satisfied", "possible bit shift underflow/overflow", "unreachable",
    "recommendation not met", "precondition not met", "loop invariant not satisfied", "assertion failed in",
    "could not prove termination", "possible arithmetic", "may not terminate",
)
UNDECIDED_MSGS = ("rlimit exceeded", "Resource limit", "resource limit", "timed out", "while loop: Resource limit")


class Diagnostic:
    def __init__(self, d, unit_file):
        self.level = d.get("level")
        self.message = d.get("message", "")
        self.rendered = d.get("rendered") or ""
        self.lines = []        # (line_start, line_end, label, is_primary) in the unit file
        self._collect(d.get("spans", []), unit_file)
        for ch in d.get("children", []):
            self._collect(ch.get("spans", []), unit_file)

    def _collect(self, spans, unit_file):
        for s in spans:
            cur = s
            while cur is not None:
                if os.path.basename(cur.get("file_name", "")) == os.path.basename(unit_file):
                    self.lines.append((cur["line_start"], cur["line_end"], s.get("label"), s.get("is_primary")))
                    break
                exp = cur.get("expansion")
                cur = exp.get("span") if exp else None

    @property
    def kind(self):
        m = self.message
        if any(u in m for u in UNDECIDED_MSGS):
            return "undecided"
        if any(r in m for r in REFUTED_MSGS):
            return "refuted"
        if m.startswith("aborting due to") or m.startswith("could not compile"):
            return "noise"
        return "other"


def run(unit_path, workdir, extra=None, timeout=900, multiple_errors=20, rlimit=None):
    cmd = ["verus", os.path.basename(unit_path), "--output-json", "--time-expanded", "--multiple-errors", str(multiple_errors),
           "--error-format=json", "--rlimit", str(rlimit or RLIMIT), "--num-threads", "4"] + (extra or [])
    t0 = time.time()
    try:
        p = subprocess.run(cmd, cwd=workdir, capture_output=True, text=True, timeout=timeout)
        out, err, rc = p.stdout, p.stderr, p.returncode
    except subprocess.TimeoutExpired as e:
        out, err, rc = (e.stdout or ""), (e.stderr or ""), 124
        if isinstance(out, bytes):
            out = out.decode("utf-8", "replace")
        if isinstance(err, bytes):
            err = err.decode("utf-8", "replace")
        err += "\nTIMEOUT"
        if isinstance(err, bytes):
            err = err.decode("utf-8", "replace")
    wall = time.time() - t0
    summary = None
    try:
        i = out.index("{")
        summary = json.loads(out[i:])
    except Exception:
        summary = None
    diags = []
    other_stderr = []
    for ln in err.splitlines():
        if ln.startswith("{"):
            try:
                d = json.loads(ln)
            except Exception:
                other_stderr.append(ln)
                continue
            if d.get("$message_type") == "diagnostic":
                diags.append(Diagnostic(d, unit_path))
        else:
            other_stderr.append(ln)
    funcs = {}
    if summary:
        try:
            for mod in summary["times-ms"]["smt"]["smt-run-module-times"]:
                for f in mod.get("function-breakdown", []):
                    funcs[f["function"]] = {"ms": f["time"], "rlimit": f.get("rlimit"), "success": f["success"],
                                            "mode": f.get("mode:")}
        except Exception:
            pass
    return {"cmd": " ".join(cmd), "rc": rc, "wall_s": wall, "summary": summary, "diags": diags,
            "funcs": funcs, "stderr_other": "\n".join(other_stderr)}
