"""Fixed, syntax-directed rewrites applied to every extracted item (DESIGN §2.1, R1-R9).

Each rule is local and logged with the number of sites it touched.  Nothing here
replaces executable logic: attributes / docs / visibility are dropped, cfg is
resolved for the default feature set, async is erased, error *texts* become
opaque, slice patterns are desugared.
"""
import re
from . import lex

FEATURES = {"replication": True, "cache": False, "shared-core": False, "tokio": True,
            "sparse": True, "async-std": False, "js_interop_tests": False}


class RewriteError(Exception):
    pass


class Log:
    def __init__(self):
        self.counts = {}

    def hit(self, rule, n=1):
        if n:
            self.counts[rule] = self.counts.get(rule, 0) + n


# ---------------------------------------------------------------- cfg (R3)
def _eval_cfg(pred: str) -> bool:
    pred = pred.strip()
    m = re.match(r'feature\s*=\s*"([^"]+)"$', pred)
    if m:
        if m.group(1) not in FEATURES:
            raise RewriteError("unknown feature in cfg: " + pred)
        return FEATURES[m.group(1)]
    if pred == "test":
        return False
    m = re.match(r'target_arch\s*=\s*"([^"]+)"$', pred)
    if m:
        return m.group(1) == "x86_64"
    m = re.match(r"(not|all|any)\s*\((.*)\)$", pred, re.S)
    if m:
        args = [_eval_cfg(a) for a in lex.split_top_level(m.group(2))]
        if m.group(1) == "not":
            return not args[0]
        return all(args) if m.group(1) == "all" else any(args)
    raise RewriteError("cannot evaluate cfg(%s)" % pred)


def _end_of_thing(masked, i):
    """index just past the syntactic thing (statement / block / field / param / item) starting at i"""
    n = len(masked)
    depth = 0
    k = i
    opened_brace = False
    typed = re.match(r"\w+\s*:(?!:)", masked[i:i + 80]) is not None   # field / parameter: `<..>` are generics
    angle = 0
    while k < n:
        c = masked[k]
        if typed and c == "<":
            angle += 1
        elif typed and c == ">" and angle > 0 and masked[k - 1] != "-":
            angle -= 1
        elif typed and angle > 0 and c in ",;":
            k += 1
            continue
        if c in "([{":
            if c == "{" and depth == 0:
                opened_brace = True
            depth += 1
        elif c in ")]}":
            depth -= 1
            if depth < 0:
                return k  # end of enclosing construct
            if depth == 0 and c == "}" and opened_brace:
                # block ended: statement ends here unless followed by else / method chain / ; / ,
                j = k + 1
                while j < n and masked[j] in " \t\n":
                    j += 1
                if masked.startswith("else", j):
                    k = j + 4
                    opened_brace = False
                    continue
                if j < n and masked[j] in ";,":
                    return j + 1
                if j < n and masked[j] in ".?":
                    opened_brace = False
                    k = j
                    continue
                return k + 1
        elif depth == 0 and c in ";,":
            return k + 1
        k += 1
    return n


def resolve_cfg(text, log):
    while True:
        masked = lex.mask(text)
        m = re.search(r"#\s*\[\s*cfg\s*\(", masked)
        if not m:
            return text
        ob = masked.index("[", m.start())
        cb = lex.match_close(masked, ob)
        pred = text[masked.index("(", ob) + 1: lex.match_close(masked, masked.index("(", ob))]
        keep = _eval_cfg(pred)
        if keep:
            text = text[:m.start()] + text[cb + 1:]
            log.hit("R3 cfg(true) attribute dropped")
        else:
            j = cb + 1
            while j < len(masked) and masked[j] in " \t\n":
                j += 1
            # further attributes / doc comments on the same thing
            while True:
                if masked.startswith("#[", j):
                    j = lex.match_close(masked, j + 1) + 1
                elif text.startswith("//", j):
                    j = text.index("\n", j)
                else:
                    break
                while j < len(masked) and masked[j] in " \t\n":
                    j += 1
            e = _end_of_thing(masked, j)
            text = text[:m.start()] + text[e:]
            log.hit("R3 cfg(false) item/statement removed")


# ---------------------------------------------------------------- R1 attributes and docs
def drop_attrs_and_docs(text, log):
    n_attr = 0
    while True:
        masked = lex.mask(text)
        m = re.search(r"#\s*!?\s*\[", masked)
        if not m:
            break
        ob = masked.index("[", m.start())
        cb = lex.match_close(masked, ob)
        attr = text[ob + 1:cb]
        keep = ""
        nm = re.search(r"\b(?:struct|enum)\s+(\w+)", masked[cb:cb + 400])
        if re.match(r"\s*derive\s*\(", attr) and re.search(r"\bDebug\b", attr) and nm and (nm.group(1).endswith("Error") or nm.group(1) == "Store"):
            keep = "\x00[derive(Debug)]"   # re-inserted below; Clone/PartialEq are re-declared with specs in the shim
        if re.match(r"\s*repr\s*\(", attr):
            keep = "\x00[" + attr.strip() + "]"
        text = text[:m.start()] + keep + text[cb + 1:]
        n_attr += 1
    text = text.replace("\x00[", "#[")
    log.hit("R1 attribute dropped", n_attr)
    # doc comments
    out = []
    n_doc = 0
    masked = lex.mask(text)
    pos = 0
    for m in re.finditer(r"^[ \t]*//[/!].*\n", text, re.M):
        # make sure it really is a comment (masked there is blank after the slashes)
        if masked[m.start():m.end()].strip().strip("/!") == "":
            out.append(text[pos:m.start()])
            pos = m.end()
            n_doc += 1
    out.append(text[pos:])
    log.hit("R1 doc comment dropped", n_doc)
    return "".join(out)


# ---------------------------------------------------------------- R2 visibility
def strip_visibility(text, log):
    masked = lex.mask(text)
    n = 0
    out = []
    pos = 0
    for m in re.finditer(r"\bpub\b\s*(\([^)]*\))?\s*", masked):
        out.append(text[pos:m.start()])
        pos = m.end()
        n += 1
    out.append(text[pos:])
    log.hit("R2 visibility normalised", n)
    return "".join(out)


def publicise_fields(text):
    """`struct X { a: T, b: U }` -> all fields pub (text has no visibility left)"""
    masked = lex.mask(text)
    ob = masked.find("{")
    if ob < 0:
        return text
    cb = lex.match_close(masked, ob)
    body = text[ob + 1:cb]
    mb = masked[ob + 1:cb]
    parts = []
    depth = 0
    last = 0
    angle = 0
    for k, c in enumerate(mb):
        if c in "([{":
            depth += 1
        elif c in ")]}":
            depth -= 1
        elif c == "<":
            angle += 1
        elif c == ">" and angle > 0 and mb[k - 1] != "-":
            angle -= 1
        elif c == "," and depth == 0 and angle == 0:
            parts.append(body[last:k + 1])
            last = k + 1
    parts.append(body[last:])
    new = []
    for p in parts:
        m = re.search(r"[A-Za-z_]\w*\s*:", lex.mask(p))
        if m:
            p = p[:m.start()] + "pub " + p[m.start():]
        new.append(p)
    return text[:ob + 1] + "".join(new) + text[cb:]


# ---------------------------------------------------------------- R4 async erasure
def erase_async(text, log):
    masked = lex.mask(text)
    out = []
    pos = 0
    n = 0
    for m in re.finditer(r"\basync\s+(?=fn\b)|\s*\.\s*await\b", masked):
        out.append(text[pos:m.start()])
        pos = m.end()
        n += 1
    out.append(text[pos:])
    log.hit("R4 async/await erased", n)
    return "".join(out)


# ---------------------------------------------------------------- R5 RefCell erasure (opt-in)
def erase_refcell(text, log):
    n = 0
    for pat, rep in [(r"RefCell<((?:[^<>]|<[^<>]*>)*)>", r"\1"),
                     (r"RefCell::new\(((?:[^()]|\((?:[^()]|\([^()]*\))*\))*)\)", r"\1"),
                     (r"\s*\.\s*borrow_mut\(\)", ""),
                     (r"\s*\.\s*borrow\(\)", "")]:
        text, k = re.subn(pat, rep, text)
        n += k
    log.hit("R5 RefCell erased", n)
    return text


# ---------------------------------------------------------------- R6 slice patterns
def desugar_slice_patterns(text, log):
    n = 0

    def rep(m):
        nonlocal n
        n += 1
        ind, names, rest, expr = m.group(1), m.group(2), m.group(3), m.group(4)
        names = [x.strip() for x in names.split(",")]
        tmp = "vp_arr_%s" % names[0].strip("_")
        lines = ["%slet (%s, %s) = %s;" % (ind, tmp, rest, expr)]
        for k, nm in enumerate(names):
            lines.append("%slet %s = %s[%d];" % (ind, nm, tmp, k))
        return "\n".join(lines)

    text = re.sub(r"^([ \t]*)let \(\[([\w, ]+)\], (\w+)\) = ([^;]+);", rep, text, flags=re.M)
    log.hit("R6 slice pattern desugared", n)
    return text


# ---------------------------------------------------------------- R7 error texts
def opaque_error_text(text, log):
    n = 0
    while True:
        masked = lex.mask(text)
        m = re.search(r"\bformat!\s*\(", masked)
        if not m:
            break
        ob = masked.index("(", m.start())
        cb = lex.match_close(masked, ob)
        text = text[:m.start()] + "vp_fmt()" + text[cb + 1:]
        n += 1
    log.hit("R7 format!() made opaque", n)
    masked = lex.mask(text)
    out = []
    pos = 0
    k = 0
    for m in re.finditer(r'"\s*"\s*\.\s*to_string\(\)', masked):
        # only error *texts*: the literal must be the value of a `context:` field
        if not re.search(r"context\s*:\s*(Some\s*\(\s*)?$", masked[max(0, m.start() - 160):m.start()]):
            continue
        out.append(text[pos:m.start()])
        out.append("vp_str()")
        pos = m.end()
        k += 1
    out.append(text[pos:])
    log.hit("R7 literal.to_string() made opaque", k)
    return "".join(out)


# ---------------- R11 enumerate() desugaring
def desugar_enumerate(text, log):
    """`for (i, x) in E.iter().enumerate() { B }`  ->  `let mut i: usize = 0; for x in E.iter() { B i += 1; }`
    (refused when B contains `continue`, which would skip the increment)"""
    n = 0
    start = 0
    while True:
        masked = lex.mask(text)
        m = re.compile(r"for \((\w+), (\w+)\) in ([^\n{]+?)\.enumerate\(\) \{").search(masked, start)
        if not m:
            break
        ob = m.end() - 1
        cb = lex.match_close(masked, ob)
        body = masked[ob:cb]
        if re.search(r"\bcontinue\b", body):
            # `continue` would skip the increment: left to a per-function `sub` (or to Verus, which then refuses the loop)
            log.hit("R11 enumerate() loop with `continue` left as is", 1)
            start = m.end()
            continue
        ind = re.search(r"[ \t]*$", text[:m.start()]).group(0)
        i, x, e = m.group(1), m.group(2), text[m.start(3):m.end(3)]
        text = (text[:m.start()] + "let mut %s: usize = 0;\n%sfor %s in %s {" % (i, ind, x, e)
                + text[ob + 1:cb] + "    %s += 1;\n%s" % (i, ind) + text[cb:])
        n += 1
    log.hit("R11 enumerate() loop desugared to an index counter", n)
    return text


# ---------------- R13 wildcard closure parameters
def name_wildcard_closure_params(text, log):
    masked = lex.mask(text)
    out = []
    pos = 0
    n = 0
    for m in re.finditer(r"\|_\|", masked):
        out.append(text[pos:m.start()])
        out.append("|_vp_unused|")
        pos = m.end()
        n += 1
    out.append(text[pos:])
    log.hit("R13 wildcard closure parameter named", n)
    return "".join(out)


# ---------------- R14 integer statics
def exec_statics(text, log):
    """`static NAME: T = <integer literal>;`  ->  `exec static NAME: T ensures NAME == <literal> { <literal> }`
    (Verus wants the value of a static stated as an ensures clause)"""
    n = 0
    def rep(m):
        nonlocal n
        n += 1
        return "pub exec static %s: %s ensures %s == %s { %s }" % (m.group(2), m.group(3), m.group(2), m.group(4), m.group(4))
    text = re.sub(r"^(pub(?:\([a-z]+\))? )?static (\w+): (\w+) = ([0-9][0-9_xa-fA-F]*);", rep, text, flags=re.M)
    log.hit("R14 integer static restated as exec static with ensures", n)
    return text


def apply_all(text, log, refcell=False, keep_vis=False):
    text = resolve_cfg(text, log)
    text = drop_attrs_and_docs(text, log)
    if not keep_vis:
        text = strip_visibility(text, log)
    text = erase_async(text, log)
    if refcell:
        text = erase_refcell(text, log)
    text = desugar_slice_patterns(text, log)
    text = desugar_enumerate(text, log)
    text = name_wildcard_closure_params(text, log)
    text = opaque_error_text(text, log)
    text = exec_statics(text, log)
    return text
