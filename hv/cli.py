import argparse
import os
import shutil
import sys
import tempfile

from . import assemble, verus


def scratch_dir():
    base = os.environ.get("TMPDIR", "/tmp")
    return tempfile.mkdtemp(prefix="hcverif.", dir=base)


def dev_unit(unit, keep=False, show=False, verbose=False, only_fail=True):
    try:
        text, infos, log = assemble.assemble(unit)
    except assemble.AssembleError as e:
        print("CANNOT-DECIDE (assemble): %s" % e)
        return 2
    d = scratch_dir()
    try:
        path = os.path.join(d, unit + ".rs")
        with open(path, "w") as f:
            f.write(text)
        if show:
            for i, ln in enumerate(text.split("\n"), 1):
                print("%5d %s" % (i, ln))
        res = verus.run(path, d)
        tl = text.split("\n")
        for dg in res["diags"]:
            if dg.kind == "noise" or dg.level not in ("error",):
                continue
            reg = [i for i in infos if dg.lines and any(all(r[0] <= l[0] <= r[1] for l in dg.lines if l[3]) for r in i.unproved_regions)]
            if reg and dg.kind in ("refuted", "undecided"):
                print("[in declared-unproved region of %s] %s" % (reg[0].name, dg.message.split("\n")[0]))
                continue
            if verbose or dg.kind == "other":
                print("[%s] %s" % (dg.kind, dg.rendered.rstrip()))
            else:
                locs = ["%d: %s%s" % (l[0], tl[l[0] - 1].strip()[:150], (" <" + l[2] + ">") if l[2] else "") for l in dg.lines[:3]]
                print("[%s] %s\n      %s" % (dg.kind, dg.message.split("\n")[0], "\n      ".join(locs)))
        if res["stderr_other"].strip():
            print(res["stderr_other"][-3000:])
        s = res["summary"]
        if s:
            print("verification-results:", s.get("verification-results"))
        fs = res["funcs"]
        for k in sorted(fs):
            if not fs[k]["success"] or fs[k]["ms"] > 2000 or not only_fail:
                print("  %-70s %6d ms %s" % (k, fs[k]["ms"], "ok" if fs[k]["success"] else "FAIL"))
        print("wall %.1fs rc=%s" % (res["wall_s"], res["rc"]))
        if keep:
            shutil.copy(path, "/tmp/%s.rs" % unit)
            print("kept /tmp/%s.rs" % unit)
        return 0 if res["rc"] == 0 else 1
    finally:
        shutil.rmtree(d, ignore_errors=True)


def main(argv):
    ap = argparse.ArgumentParser()
    ap.add_argument("prop", nargs="?")
    ap.add_argument("--tier", default=os.environ.get("VERIF_TIER", "quick"))
    ap.add_argument("--unit")
    ap.add_argument("--keep", action="store_true")
    ap.add_argument("--show", action="store_true")
    ap.add_argument("--replay")
    ap.add_argument("-v", action="store_true")
    ap.add_argument("--all", action="store_true")
    a = ap.parse_args(argv)
    if a.unit:
        return dev_unit(a.unit, a.keep, a.show, a.v, not a.all)
    from . import propcheck
    if a.replay:
        return propcheck.replay(a.replay)
    if not a.prop:
        ap.print_usage()
        return 2
    return propcheck.run(a.prop, a.tier)
