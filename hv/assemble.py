"""Assemble a Verus unit from a template (units/<unit>.rs) and the *current* /repo sources.

Template language (everything else is copied verbatim):

  //@include <path relative to /verif>
  /*@ item <file> <item spec> [; opts] @*/          struct / enum / const / macro, no contract
  /*@ fn <file> <item spec> [; opts]
  tags: C08 C01
  result: r
  requires:
      <clauses, comma separated>
  ensures:
      <clauses>
  decreases: <expr>
  loop 1:
      invariant
          ...,
      decreases ...,
  after `<unique substring of a source line>`[#k]:
      <proof text inserted on the line after>
  before `<...>`[#k]:
      <proof text inserted on the line before>
  first:
      <proof text inserted as first statement(s) of the body>
  sub `<regex>` => `<replacement>`        (logged, per function; for R8-style instantiation only)
  @*/

<file> is relative to the repository root, or `dep:<crate>-<version>/<path>` for a vendored
dependency in the cargo registry.  opts: `refcell` (R5), `novis` (do not add `pub`), `name=<new fn name>`, `mutself` (R15).
"""
import glob
import os
import re

from . import lex, rewrite
from .extract import Source, ExtractError

VERIF = os.path.dirname(os.path.dirname(os.path.abspath(__file__)))
REPO = os.environ.get("HV_REPO", "/repo")


class AssembleError(Exception):
    """anything that makes the unit impossible to build: exit 2, never a violation"""


class FnInfo:
    def __init__(self):
        self.unit = None
        self.name = None          # qualified item spec
        self.file = None
        self.repo_line = None
        self.tags = []
        self.clauses = []         # dicts: id, kind, text, line_start, line_end
        self.line_start = None    # in the assembled file
        self.line_end = None
        self.orig_text = None
        self.has_contract = False
        self.verus_names = []
        self.probes = []
        self.lost = []
        self.lost_subs = []
        self.assumed = False
        self.unproved_anchor = None
        self.unproved_reason = None
        self.unproved_from_line = None
        self.unproved_specs = []
        self.unproved_regions = []
        self.lost_obligations = []
        self.unproved_end_anchor = None
        self.unproved_to_line = None


def _registry_path(spec):
    # dep:compact-encoding-2.2.0/src/lib.rs
    rel = spec[4:]
    cands = glob.glob(os.path.expanduser("~/.cargo/registry/src/*/" + rel))
    if not cands:
        raise AssembleError("dependency source not found: " + spec)
    return cands[0]


_SRC_CACHE = {}


def load_source(file_spec):
    path = _registry_path(file_spec) if file_spec.startswith("dep:") else os.path.join(REPO, file_spec)
    key = path
    if key not in _SRC_CACHE:
        try:
            with open(path, encoding="utf-8") as f:
                _SRC_CACHE[key] = Source(file_spec, f.read())
        except OSError as e:
            raise AssembleError("cannot read %s: %s" % (path, e))
    return _SRC_CACHE[key]


_SECTION = re.compile(
    r"^(tags|result|requires|ensures|decreases|first|last|opens|loop\s+\d+|"
    r"(?:after|before)\s+`[^`]+`(?:#\d+)?|unproved-from\s+`[^`]+`(?:\s+to\s+`[^`]+`)?|sub\s+`.*`\s*=>\s*`.*`)\s*:?(.*)$")


def parse_directive(body):
    """-> (head, sections[list of (key, text)])"""
    lines = body.strip("\n").split("\n")
    head = lines[0].strip()
    rest = [l for l in lines[1:] if l.strip()]
    ind = min((len(l) - len(l.lstrip()) for l in rest), default=0)
    lines = [lines[0]] + [l[ind:] if l.strip() else "" for l in lines[1:]]
    sections = []
    cur = None
    for ln in lines[1:]:
        if ln and not ln[0].isspace():
            m = _SECTION.match(ln.rstrip())
            if not m:
                raise AssembleError("bad directive line: %r" % ln)
            cur = [m.group(1), []]
            if m.group(2).strip():
                cur[1].append(m.group(2).strip())
            sections.append(cur)
        else:
            if cur is None:
                if ln.strip():
                    raise AssembleError("text before first section: %r" % ln)
                continue
            cur[1].append(ln)
    return head, [(k, "\n".join(v)) for k, v in sections]


def _sig_end(masked):
    """index of the body-opening '{' of a fn item (masked text of the item)"""
    kw = re.search(r"\bfn\b", masked).start()
    ob = lex.find_top_level(masked, kw, len(masked), "{;")
    if ob < 0 or masked[ob] != "{":
        raise AssembleError("function without body")
    return ob


def _loops(masked, body_open):
    """indices of the '{' opening the body of each loop, in source order"""
    res = []
    for m in re.finditer(r"\b(while|for|loop)\b", masked[body_open:]):
        k = body_open + m.start()
        # `for<'a>` HRTB or `impl .. for ..` cannot occur inside bodies we extract; guard anyway
        after = masked[k + len(m.group(1)):k + len(m.group(1)) + 1]
        if m.group(1) == "for" and after == "<":
            continue
        ob = lex.find_top_level(masked, k + len(m.group(1)), len(masked), "{")
        if ob < 0:
            raise AssembleError("loop without body")
        res.append(ob)
    return res


def _tail_pos(masked, ob):
    """position where a `last:` proof block goes: before the tail expression of the body if the
    function has one, else just before the closing brace"""
    cb = lex.match_close(masked, ob)
    has_ret = "->" in masked[:ob]
    # last top-level ';'
    k = ob + 1
    depth = 0
    last_semi = ob
    while k < cb:
        c = masked[k]
        if c in "([{":
            depth += 1
        elif c in ")]}":
            depth -= 1
        elif c == ";" and depth == 0:
            last_semi = k
        k += 1
    pos = last_semi + 1
    while True:
        m = re.match(r"\s*", masked[pos:cb])
        q = pos + m.end()
        if q >= cb:
            return cb
        km = re.match(r"(if|while|for|loop|match|unsafe)\b|\{", masked[q:cb])
        if not km:
            return q
        # skip this block statement (with else chains); if nothing follows it *is* the tail
        b = lex.find_top_level(masked, q, cb, "{")
        if b < 0:
            return q
        e = lex.match_close(masked, b) + 1
        while True:
            em = re.match(r"\s*else\b", masked[e:cb])
            if not em:
                break
            b = lex.find_top_level(masked, e + em.end(), cb, "{")
            e = lex.match_close(masked, b) + 1
        rest = masked[e:cb].strip()
        if rest == "":
            return q if has_ret else cb     # the block is the tail expression (unit-valued when there is no return type)
        pos = e


def _count_asserts(text):
    return len(re.findall(r"\bassert\s*\(|\bassert\s+forall\b", lex.mask(text)))


def build_fn(unit, file_spec, item_spec, opts, sections, log, probes=False):
    src = load_source(file_spec)
    try:
        a, b = src.find(item_spec)
    except ExtractError as e:
        raise AssembleError("lost anchor: " + str(e))
    info = FnInfo()
    info.unit = unit
    info.name = item_spec
    info.file = file_spec
    info.repo_line = lex.line_of(src.text, a)
    text = src.text[a:b]
    info.orig_text = text
    text = rewrite.apply_all(text, log, refcell="refcell" in opts)
    for key, val in sections:
        if key.startswith("sub"):
            m = re.match(r"sub\s+`(.*)`\s*=>\s*`(.*)`", key, re.S)
            text, n = re.subn(m.group(1), m.group(2), text)
            if n == 0:
                # a sub only makes a construct ingestible; if the construct is gone and Verus still ingests the
                # function, nothing is lost for the proof
                info.lost_subs.append("sub `%s` matched nothing" % m.group(1))
                # (the replacement is written with `\n` escapes: expand them, or a `//` comment in it would mask the asserts after it)
                if _count_asserts(m.group(2).replace("\\n", "\n")):
                    # ... unless the replacement carries an obligation of the contract
                    info.lost.append("sub `%s` matched nothing" % m.group(1))
                    info.lost_obligations.append("the assert(s) carried by sub `%s`" % m.group(1))
            log.hit("R8 per-function substitution `%s` => `%s`" % (m.group(1), m.group(2)), n)
    if "mutself" in opts:
        # R15: Verus has no `mut self` parameter: the parameter becomes `self` and the body works on a local rebinding
        mm = re.search(r"\(\s*mut\s+self\b", text)
        if mm:
            ob0 = text.index("{", mm.end())
            head = text[:ob0 + 1].replace(mm.group(0), "(self", 1)
            body = re.sub(r"\bself\b", "vp_self", text[ob0 + 1:])
            text = head + "\n        let mut vp_self = self;" + body
            log.hit("R15 `mut self` parameter rebound to a mutable local (Verus has no `mut self`)", 1)
    # leading attributes kept by R1 (derive(Debug), repr) stay in front of the item
    lead = ""
    while True:
        am = re.match(r"\s*#\[[^\]]*\]\s*", text)
        if not am:
            break
        lead += am.group(0).strip() + "\n"
        text = text[am.end():]
    is_fn = re.match(r"\s*(const\s+)?(unsafe\s+)?fn\b", text) is not None
    newname = None
    for o in opts:
        if o.startswith("name="):
            newname = o[5:]
    if is_fn and newname:
        text = re.sub(r"\bfn\s+\w+", "fn " + newname, text, count=1)
    if is_fn and "noisolation" in opts:
        lead += "#[verifier::loop_isolation(false)]\n"
    if is_fn and "nodecreases" in opts:
        lead += "#[verifier::exec_allows_no_decreases_clause]\n"
    if "novis" not in opts:
        if is_fn or re.match(r"\s*(struct|enum|const|static|type)\b", text):
            text = "pub " + text.lstrip()
        if re.match(r"pub (struct)\b", text):
            text = rewrite.publicise_fields(text)
    if not is_fn:
        if any(not k.startswith("sub") for k, _ in sections):
            raise AssembleError("contract sections on a non-fn item " + item_spec)
        return lead + text, info, []

    masked = lex.mask(text)
    ob = _sig_end(masked)
    edits = []   # (pos, order, text, clause or None)
    secd = {}
    for key, val in sections:
        secd.setdefault(key, []).append(val)

    def clause(kind, idx, txt):
        c = {"id": "%s#%d" % (kind, idx) if idx else kind, "kind": kind, "text": " ".join(txt.split())}
        info.clauses.append(c)
        return c

    # result name
    if "result" in secd:
        rname = secd["result"][0].strip()
        arrow = lex.find_top_level(masked, masked.index("(", re.search(r"\bfn\b", masked).start()), ob, "-")
        # find '->' at top level before ob
        sig = masked[:ob]
        k = -1
        depth = 0
        for i, c in enumerate(sig):
            if c in "([":
                depth += 1
            elif c in ")]":
                depth -= 1
            elif c == "-" and depth == 0 and sig[i:i + 2] == "->":
                k = i
        if k < 0:
            raise AssembleError("result: given but %s has no return type" % item_spec)
        wm = re.search(r"\bwhere\b", sig[k:])
        rend = k + wm.start() if wm else ob
        rtype = text[k + 2:rend].strip()
        text = text[:k] + "-> (%s: %s)\n" % (rname, rtype) + text[rend:]
        masked = lex.mask(text)
        ob = _sig_end(masked)

    spec_lines = []
    for kind in ("requires", "ensures"):
        if kind in secd:
            cl = lex.split_top_level("\n".join(secd[kind]))
            if cl:
                spec_lines.append(("    %s" % kind, None))
                for i, c in enumerate(cl, 1):
                    spec_lines.append(("        %s," % c, clause(kind, i, c) if kind == "ensures" else None))
    if "decreases" in secd:
        d = secd["decreases"][0].strip().rstrip(",")
        spec_lines.append(("    decreases %s," % d, clause("decreases", 0, d)))
    if "opens" in secd:
        spec_lines.append(("    opens_invariants none", None))
    if spec_lines:
        info.has_contract = True
        edits.append((ob, 0, [("", None)] + spec_lines + [("", None)]))

    info.assumed = "assumed" in opts
    if info.assumed:
        # keep signature + requires/ensures, drop the body: the contract is proved in the function's home unit
        spec_txt = "\n".join(ln for ln, _ in spec_lines)
        cb0 = lex.match_close(masked, ob)
        sig = text[:ob].rstrip()
        info.clauses = []
        info.has_contract = True
        final = lead + "#[verifier::external_body]\n" + sig + "\n" + spec_txt + "\n{ unimplemented!() }" + text[cb0 + 1:]
        return final, info, []
    loops = _loops(masked, ob)
    for key in secd:
        m = re.match(r"loop\s+(\d+)$", key)
        if not m:
            continue
        n = int(m.group(1))
        if n < 1 or n > len(loops):
            # the loop this section annotates is gone: the hint is lost (the function is then undecided unless it still
            # verifies, or a native contract finds a failing input), the rest of the unit is still checked
            info.lost.append("loop %d of %s not found (function has %d loops)" % (n, item_spec, len(loops)))
            continue
        body = "\n".join(secd[key])
        # split into `invariant` / `invariant_except_break` / `ensures` / `decreases` groups
        lines = []
        marks = [(m.start(), m.end(), m.group(1)) for m in re.finditer(r"\b(invariant_except_break|invariant|ensures|decreases)\b", lex.mask(body))]
        for gi, (ms, me, kw) in enumerate(marks):
            gend = marks[gi + 1][0] if gi + 1 < len(marks) else len(body)
            gtxt = body[me:gend]
            if kw == "decreases":
                d = gtxt.strip().rstrip(",")
                lines.append(("        decreases %s," % d, clause("loop%d.decreases" % n, 0, d)))
            else:
                lines.append(("        %s" % kw, None))
                for i, c in enumerate(lex.split_top_level(gtxt), 1):
                    lines.append(("            %s," % c, clause("loop%d.%s" % (n, kw), i, c)))
        edits.append((loops[n - 1], 0, [("", None)] + lines + [("    ", None)]))

    def line_bounds(pos):
        s = text.rfind("\n", 0, pos) + 1
        e = text.find("\n", pos)
        return s, (len(text) if e < 0 else e + 1)

    nproof = 0
    for key in secd:
        m = re.match(r"(after|before)\s+`([^`]+)`(?:#(\d+))?$", key)
        if not m:
            continue
        where, anchor, occ = m.group(1), m.group(2), int(m.group(3) or 1)
        pos = -1
        start = 0
        cnt = 0
        for _ in range(occ):
            pos = text.find(anchor, start)
            if pos < 0:
                break
            start = pos + 1
            cnt += 1
        total = text.count(anchor)
        if pos < 0 or (m.group(3) is None and total != 1):
            info.lost.append(("anchor `%s`#%d not found" % (anchor, occ)) if pos < 0 else ("anchor `%s` occurs %d times" % (anchor, total)))
            # in-body obligations (assert) that could not be placed: the function can no longer be reported as proved
            na = sum(_count_asserts(b) for b in secd[key])
            if na:
                info.lost_obligations.append("%d assert(s) of the section %s `%s`" % (na, where, anchor))
            continue
        for body in secd[key]:
            nproof += 1
            na = _count_asserts(body)
            c = clause("proof%d" % nproof, 0, "%s `%s`: %d assert(s)" % (where, anchor, na))
            c["asserts"] = na
            ls, le = line_bounds(pos if where == "before" else pos + len(anchor) - 1)
            p = ls if where == "before" else le
            edits.append((p, 1 if where == "after" else 0, [(ln, c) for ln in body.split("\n")]))
    for key in ("first", "last"):
        if key in secd:
            for body in secd[key]:
                nproof += 1
                na = _count_asserts(body)
                c = clause("proof%d" % nproof, 0, "%s: %d assert(s)" % (key, na))
                c["asserts"] = na
                if key == "first":
                    p = ob + 1
                    edits.append((p, 0, [("", None)] + [(ln, c) for ln in body.split("\n")]))
                else:
                    p = _tail_pos(masked, ob)
                    ls = text.rfind("\n", 0, p) + 1
                    if text[ls:p].strip() == "":
                        p = ls
                    edits.append((p, 0, [(ln, c) for ln in body.split("\n")] + [("", None)]))

    tm = re.match(r"(CompactEncoding|VecEncodable) for .*::(\w+)$", item_spec)
    if tm:
        TRAIT = {"encoded_size": ["Ok ==> result == |spec_enc(self)|", "encodable value of representable size ==> Ok"],
                 "encode": ["Ok ==> buffer = spec_enc(self) ++ rest, rest = untouched tail", "encodable value and |buffer| >= |spec_enc| ==> Ok"],
                 "decode": ["forall d. enc(d) prefix of buffer ==> Ok((d', rest)) with d' = d, rest = buffer after enc(d)",
                            "forall d. buffer strict prefix of enc(d) ==> Err", "Ok ==> rest is a suffix of buffer"],
                 "vec_encoded_size": ["Ok ==> result == |varint(len)| + sum |enc(elem)|", "encodable ==> Ok"]}
        for i, t in enumerate(TRAIT.get(tm.group(2), []), 1):
            info.clauses.append({"id": "trait-contract#%d" % i, "kind": "trait-contract", "text": t})
    info.probes = []
    if probes:
        def probe(pos, what):
            c = {"id": "probe:" + what, "kind": "probe", "text": what}
            info.probes.append(c)
            edits.append((pos, 9, [("", None), ("assert(false); // VP-PROBE %s" % what, c)]))
        want = ("requires" in secd) or any(re.match(r"loop\s+\d+$", k) for k in secd) or ("probe" in opts)
        tp = _tail_pos(masked, ob) if want else -1
        ups = [re.match(r"unproved-from\s+`([^`]+)`", k) for k in secd]
        ups = [text.find(m.group(1), ob) for m in ups if m]
        ups = [u for u in ups if u >= 0]
        if not want:
            pass
        elif ups:
            # failing obligations inside a declared-unproved region are assumed by Verus afterwards (and hide later errors):
            # probe the part of the body that is proved, just before the first region
            u = min(ups)
            ls = text.rfind("\n", 0, u) + 1
            c = {"id": "probe:before-unproved", "kind": "probe", "text": "before the first declared-unproved region (precondition, axioms and callee contracts used so far are consistent)"}
            info.probes.append(c)
            edits.append((ls, 8, [("assert(false); // VP-PROBE before-unproved", c), ("", None)]))
        elif tp > ob + 1:
            ls = text.rfind("\n", 0, tp) + 1
            if text[ls:tp].strip() == "":
                tp = ls
            c = {"id": "probe:exit", "kind": "probe", "text": "exit (precondition, axioms in scope and callee contracts used in the body are consistent)"}
            info.probes.append(c)
            edits.append((tp, 8, [("assert(false); // VP-PROBE exit", c), ("", None)]))
        else:
            probe(ob + 1, "entry (precondition and axioms in scope are satisfiable)")
        for key in secd:
            if "noisolation" in opts:
                break       # one query for the whole body: a failing loop probe would make the exit probe vacuous
            m = re.match(r"loop\s+(\d+)$", key)
            if m and "invariant" in "\n".join(secd[key]) and int(m.group(1)) <= len(loops):
                probe(loops[int(m.group(1)) - 1] + 1, "loop%s.invariant" % m.group(1))

    for key in secd:
        um = re.match(r"unproved-from\s+`([^`]+)`(?:\s+to\s+`([^`]+)`)?$", key)
        if um:
            info.unproved_specs.append((um.group(1), um.group(2), " ".join(" ".join(secd[key]).split())))
            info.unproved_anchor = um.group(1)
            info.unproved_reason = " ".join(" ".join(secd[key]).split())
    info.clauses.append({"id": "safety", "kind": "safety",
                         "text": "no overflow / out-of-bounds index / failed unwrap-expect / reachable panic! / violated callee precondition in the body"})

    # apply edits front to back, tracking lines
    edits.sort(key=lambda e: (e[0], e[1]))
    out = []
    pos = 0
    cur_line = 0  # number of newlines emitted so far (relative to fn start)
    rel = []      # (clause, rel_line_start, rel_line_end)
    for p, _, lines in edits:
        seg = text[pos:p]
        out.append(seg)
        cur_line += seg.count("\n")
        pos = p
        # inserted block: make sure it starts on its own line where needed
        blk = []
        for ln, c in lines:
            blk.append((ln, c))
        s = "\n".join(ln for ln, _ in blk)
        if not s.endswith("\n") and not (lines and lines[-1][0].strip() == ""):
            s += "\n"
        # compute per-line clause mapping
        ln_no = cur_line
        for ln, c in blk:
            span = ln.count("\n") + 1
            if c is not None:
                for k in range(span):
                    rel.append((c, ln_no + k))
            ln_no += span
        out.append(s)
        cur_line += s.count("\n")
    out.append(text[pos:])
    final = "".join(out)
    if lead:
        final = lead + final
        rel = [(c, ln + lead.count("\n")) for (c, ln) in rel]
    return final, info, rel


def assemble(unit, template_text=None, probes=False):
    """-> (assembled_text, [FnInfo], rewrite log counts)"""
    tpath = os.path.join(VERIF, "units", unit + ".rs")
    if template_text is None:
        with open(tpath, encoding="utf-8") as f:
            template_text = f.read()
    log = rewrite.Log()
    # includes first
    def inc(m):
        p = os.path.join(VERIF, m.group(1).strip())
        with open(p, encoding="utf-8") as f:
            return f.read()
    def inc_assumed(m):
        p = os.path.join(VERIF, m.group(1).strip())
        with open(p, encoding="utf-8") as f:
            t = f.read()
        # every fn directive of the fragment becomes an assumed contract (body dropped, external_body)
        def mark(dm):
            head = dm.group(1)
            if ";" in head:
                return "/*@ fn" + head + " assumed" + dm.group(2)
            return "/*@ fn" + head + " ; assumed" + dm.group(2)
        return re.sub(r"/\*@ fn([^\n]*)(\n|\s*@\*/)", mark, t)
    for _ in range(4):
        template_text, n1 = re.subn(r"^[ \t]*//@include-assumed\s+(\S+)[ \t]*$", inc_assumed, template_text, flags=re.M)
        template_text, n = re.subn(r"^[ \t]*//@include\s+(\S+)[ \t]*$", inc, template_text, flags=re.M)
        if not n and not n1:
            break
    out = []
    infos = []
    pos = 0
    cur_line = 1
    default_first = None
    for m in re.finditer(r"/\*@(.*?)@\*/", template_text, re.S):
        seg = template_text[pos:m.start()]
        out.append(seg)
        cur_line += seg.count("\n")
        pos = m.end()
        head, sections = parse_directive(m.group(1))
        dm = re.match(r"default-first\s*(.*)$", head, re.S)
        if dm:
            default_first = dm.group(1).strip() or None
            continue
        em = re.match(r"enum-cast\s+(\S+)\s+(\w+)\s+(\w+)$", head)
        if em:
            # generate, from the extracted enum text, a function returning the declared discriminant of a
            # `#[repr(..)]` enum (Verus does not model `enum as int` casts); cast sites are routed to it by `sub`
            src = load_source(em.group(1))
            try:
                a0, b0 = src.find("enum " + em.group(2))
            except ExtractError as e:
                raise AssembleError("lost anchor: " + str(e))
            etxt = src.text[a0:b0]
            body = etxt[etxt.index("{") + 1:etxt.rindex("}")]
            arms = []
            for part in lex.split_top_level(body):
                vm = re.match(r"(?:#\[[^\]]*\]\s*|///[^\n]*\n\s*)*(\w+)\s*=\s*(.+)$", part.strip(), re.S)
                if not vm:
                    raise AssembleError("enum-cast: variant without explicit discriminant in " + em.group(2))
                arms.append((vm.group(1), vm.group(2).strip()))
            fn = em.group(3)
            en = em.group(2)
            gen = "pub open spec fn spec_%s(s: %s) -> u64 { match s { %s } }\n" % (
                fn, en, " ".join("%s::%s => (%s) as u64," % (en, v, x) for v, x in arms))
            gen += "pub fn %s(s: &%s) -> (r: u64) ensures r == spec_%s(*s) { match s { %s } }\n" % (
                fn, en, fn, " ".join("%s::%s => (%s) as u64," % (en, v, x) for v, x in arms))
            log.hit("R10 enum discriminant function generated from the enum definition (%s)" % en)
            out.append(gen)
            cur_line += gen.count("\n")
            continue
        hm = re.match(r"(fn|item)\s+(\S+)\s+([^;]+?)\s*(?:;\s*(.*))?$", head)
        if not hm:
            raise AssembleError("bad directive head: %r" % head)
        kind, file_spec, item_spec, opts = hm.group(1), hm.group(2), hm.group(3), (hm.group(4) or "").split()
        if kind == "fn" and default_first and "nofirst" not in opts:
            sections = [("first", default_first)] + list(sections)
        text, info, rel = build_fn(unit, file_spec, item_spec, opts, sections, log, probes)
        # indent to the directive's column
        col = len(seg) - (seg.rfind("\n") + 1) if "\n" in seg else 0
        info.line_start = cur_line
        for c, rl in rel:
            c.setdefault("lines", []).append(cur_line + rl)
        out.append(text)
        cur_line += text.count("\n")
        info.line_end = cur_line
        for (a1, a2, why) in info.unproved_specs:
            k = text.find(a1)
            if k < 0:
                info.lost.append("unproved-from anchor `%s` not found" % a1)
                continue
            l1 = info.line_start + text.count("\n", 0, k)
            l2 = info.line_end
            if a2:
                k2 = text.find(a2, k)
                if k2 >= 0:
                    l2 = info.line_start + text.count("\n", 0, k2)
                else:
                    info.lost.append("unproved-from end anchor `%s` not found" % a2)
            info.unproved_regions.append((l1, l2, why))
            info.unproved_from_line, info.unproved_to_line = l1, l2
        if kind == "fn":
            for key, val in sections:
                if key == "tags":
                    info.tags = val.split()
            infos.append(info)
    out.append(template_text[pos:])
    text_all = "".join(out)
    if probes:
        k = text_all.rfind("} // verus!")
        if k >= 0:
            uinfo = FnInfo()
            uinfo.unit = unit
            uinfo.name = "<unit-level axioms>"
            uinfo.file = "units/%s.rs" % unit
            uinfo.repo_line = 0
            uinfo.tags = []
            add = "pub proof fn vp_unit_probe() {\nassert(false); // VP-PROBE unit\n}\n"
            ln = text_all.count("\n", 0, k) + 1
            uinfo.line_start = ln
            uinfo.line_end = ln + 2
            uinfo.probes = [{"id": "probe:unit", "kind": "probe", "text": "unit-level axioms and broadcast lemmas are consistent", "lines": [ln + 1]}]
            text_all = text_all[:k] + add + text_all[k:]
            infos.append(uinfo)
    return text_all, infos, log.counts
