"""Minimal Rust lexing helpers (no parser dependency).

`mask(text)` returns a string of the same length in which the *contents* of
comments, string literals and char literals are replaced by blanks (newlines are
kept), so that brace matching / keyword search can be done with plain string
operations on the masked text while slicing the original text with the same
indices.
"""
import re

_IDENT = re.compile(r"[A-Za-z_][A-Za-z0-9_]*")


def mask(text: str) -> str:
    out = list(text)
    n = len(text)
    i = 0

    def blank(a, b):
        for k in range(a, b):
            if out[k] != "\n":
                out[k] = " "

    while i < n:
        c = text[i]
        if c == "/" and i + 1 < n and text[i + 1] == "/":
            j = text.find("\n", i)
            if j < 0:
                j = n
            blank(i, j)
            i = j
        elif c == "/" and i + 1 < n and text[i + 1] == "*":
            depth = 1
            j = i + 2
            while j < n and depth:
                if text.startswith("/*", j):
                    depth += 1
                    j += 2
                elif text.startswith("*/", j):
                    depth -= 1
                    j += 2
                else:
                    j += 1
            blank(i, j)
            i = j
        elif c == '"' or (c in "rb" and _raw_or_byte_string_start(text, i)):
            j = _string_end(text, i)
            # keep the delimiters, blank the contents
            blank(i + 1, j - 1)
            # also blank prefix letters/hashes so they do not look like idents
            i = j
        elif c == "'":
            j = _char_end(text, i)
            if j is not None:
                blank(i + 1, j - 1)
                i = j
            else:
                i += 1  # lifetime
        else:
            i += 1
    return "".join(out)


def _raw_or_byte_string_start(text, i):
    # r"..", r#".."#, b"..", br"..", b'..' handled elsewhere
    if i > 0 and (text[i - 1].isalnum() or text[i - 1] == "_"):
        return False
    m = re.match(r'(?:br|rb|r|b)(#*)"', text[i:i + 12])
    if not m:
        return False
    if m.group(1) and "r" not in m.group(0)[:2]:
        return False
    return True


def _string_end(text, i):
    """index just past the closing quote of the string literal starting at i"""
    m = re.match(r'(br|rb|r|b)?(#*)"', text[i:i + 12])
    prefix, hashes = m.group(1) or "", m.group(2)
    j = i + len(m.group(0))
    if "r" in prefix:
        close = '"' + hashes
        k = text.find(close, j)
        return len(text) if k < 0 else k + len(close)
    while j < len(text):
        if text[j] == "\\":
            j += 2
        elif text[j] == '"':
            return j + 1
        else:
            j += 1
    return len(text)


def _char_end(text, i):
    """if a char literal starts at i return index past its closing quote, else None (lifetime)"""
    n = len(text)
    if i + 1 >= n:
        return None
    if text[i + 1] == "\\":
        k = text.find("'", i + 3)
        if k < 0 or k - i > 12:
            return None
        return k + 1
    # 'x' : one char (possibly multibyte) followed by quote
    if i + 2 < n and text[i + 2] == "'":
        return i + 3
    return None


OPEN = {"{": "}", "(": ")", "[": "]"}
CLOSE = {v: k for k, v in OPEN.items()}


def match_close(masked: str, i: int) -> int:
    """masked[i] is an opening bracket; return index of the matching closer"""
    stack = []
    n = len(masked)
    k = i
    while k < n:
        c = masked[k]
        if c in OPEN:
            stack.append(c)
        elif c in CLOSE:
            if not stack or stack[-1] != CLOSE[c]:
                raise ValueError("unbalanced bracket at %d" % k)
            stack.pop()
            if not stack:
                return k
        k += 1
    raise ValueError("no closing bracket for %d" % i)


def find_top_level(masked: str, start: int, end: int, chars: str):
    """first index in [start,end) of any of `chars` at bracket depth 0 (angle brackets ignored)"""
    depth = 0
    k = start
    while k < end:
        c = masked[k]
        if depth == 0 and c in chars:
            return k
        if c in OPEN:
            depth += 1
        elif c in CLOSE:
            depth -= 1
            if depth < 0:
                return -1
        k += 1
    return -1


def split_top_level(s: str, sep: str = ","):
    """split s at top-level separators (ignoring nested brackets, strings, comments, generics are not tracked)"""
    m = mask(s)
    parts = []
    depth = 0
    last = 0
    k = 0
    n = len(s)
    while k < n:
        c = m[k]
        if c in OPEN:
            depth += 1
        elif c in CLOSE:
            depth -= 1
        elif c == "|" and depth == 0:
            pass
        elif c == sep and depth == 0:
            parts.append(s[last:k])
            last = k + 1
        k += 1
    parts.append(s[last:])
    return [p for p in (x.strip() for x in parts) if p]


def line_of(text: str, idx: int) -> int:
    return text.count("\n", 0, idx) + 1
