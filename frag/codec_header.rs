// ======================= src/oplog/header.rs =======================
impl CompactEncoding for HeaderTree {
    open spec fn spec_enc(&self) -> Seq<u8> { Self::dec_enc(*self) }
    open spec fn dec_enc(d: Self) -> Seq<u8> { header_tree_enc(d) }
    open spec fn enc_ok(&self) -> bool { true }
    open spec fn dec_ok(d: Self) -> bool { true }
    open spec fn eqv(a: Self, b: Self) -> bool { header_tree_eqv(a, b) }
    /*@ fn src/oplog/header.rs CompactEncoding for HeaderTree::encoded_size ; novis
    tags: C01 C06 C02 C05
    result: r
    ensures:
        r is Ok ==> r->Ok_0 <= 4 * SIZE_BOUND
    @*/
    /*@ fn src/oplog/header.rs CompactEncoding for HeaderTree::encode ; novis
    tags: C01 C06 C02 C05
    @*/
    /*@ fn src/oplog/header.rs CompactEncoding for HeaderTree::decode ; novis
    tags: C01 C06 C02 C05
    @*/
}
impl CompactEncoding for HeaderHints {
    open spec fn spec_enc(&self) -> Seq<u8> { Self::dec_enc(*self) }
    open spec fn dec_enc(d: Self) -> Seq<u8> { header_hints_enc(d) }
    open spec fn enc_ok(&self) -> bool { true }
    open spec fn dec_ok(d: Self) -> bool { true }
    open spec fn eqv(a: Self, b: Self) -> bool { header_hints_eqv(a, b) }
    /*@ fn src/oplog/header.rs CompactEncoding for HeaderHints::encoded_size ; novis
    tags: C01 C06 C02 C08
    result: r
    ensures:
        r is Ok ==> r->Ok_0 <= 2 * SIZE_BOUND
    @*/
    /*@ fn src/oplog/header.rs CompactEncoding for HeaderHints::encode ; novis
    tags: C01 C06 C02 C08
    @*/
    /*@ fn src/oplog/header.rs CompactEncoding for HeaderHints::decode ; novis
    tags: C01 C06 C02 C08
    @*/
}

// the key pair of the header (src/oplog/header.rs).  Format from the property text / JS: public key as a
// 32-byte buffer, then either the single byte 0 (no secret) or a 64-byte buffer secret ++ public.
impl CompactEncoding for PartialKeypair {
    open spec fn spec_enc(&self) -> Seq<u8> { Self::dec_enc(*self) }
    open spec fn dec_enc(d: Self) -> Seq<u8> { enc_keypair(d) }
    open spec fn enc_ok(&self) -> bool { true }
    open spec fn dec_ok(d: Self) -> bool { true }
    open spec fn eqv(a: Self, b: Self) -> bool { keypair_eqv(a, b) }
    /*@ fn src/oplog/header.rs CompactEncoding for PartialKeypair::encoded_size ; novis
    tags: C06 C12
    result: r
    ensures:
        r is Ok ==> r->Ok_0 <= 99
    last:
        proof { lemma_keypair_enc(*self); }
    @*/
    /*@ fn src/oplog/header.rs CompactEncoding for PartialKeypair::encode ; novis
    tags: C06 C12
    sub `\[&(.*?)\[\.\.\], &(.*?)\[\.\.\]\]\.concat\(\)` => `vp_concat2(&\1, &\2)`
    first:
        proof { lemma_keypair_enc(*self); assert(enc_uint(32) =~= seq![32u8]); assert(enc_uint(64) =~= seq![64u8]); }
    @*/
    /*@ fn src/oplog/header.rs CompactEncoding for PartialKeypair::decode ; novis
    tags: C06 C12
    first:
        proof {
            assert forall|d: PartialKeypair| #[trigger] pfx(Self::dec_enc(d), buffer@) implies kp_layout(d, buffer@) by { lemma_keypair_layout(d, buffer@); }
            assert forall|d: PartialKeypair| buffer@.len() < Self::dec_enc(d).len() && #[trigger] pfx(buffer@, Self::dec_enc(d)) implies kp_short(d, buffer@) by { lemma_keypair_short(d, buffer@); }
            assert(enc_uint(32) =~= seq![32u8]); assert(enc_uint(0) =~= seq![0u8]); assert(enc_uint(64) =~= seq![64u8]);
        }
    @*/
}
/// what a buffer that starts with the encoding of `d` looks like to the decoder, step by step
pub open spec fn kp_layout(d: PartialKeypair, buf: Seq<u8>) -> bool {
    &&& pfx(usize::dec_enc(32usize), buf)
    &&& buf.len() >= 34
    &&& buf.skip(1).subrange(0, 32) == d.public.bytes()
    &&& d.secret is None ==> pfx(usize::dec_enc(0usize), buf.skip(1).skip(32)) && buf.skip(1).skip(32).skip(1) == buf.skip(enc_keypair(d).len() as int)
    &&& d.secret is Some ==> pfx(usize::dec_enc(64usize), buf.skip(1).skip(32)) && buf.len() >= 98
            && buf.skip(1).skip(32).skip(1).subrange(0, 64).subrange(0, 32) == d.secret->Some_0.sk_bytes()
            && buf.skip(1).skip(32).skip(1).skip(64) == buf.skip(enc_keypair(d).len() as int)
}
/// what a buffer that is a strict prefix of the encoding of `d` looks like to the decoder: one of its steps must fail
pub open spec fn kp_short(d: PartialKeypair, buf: Seq<u8>) -> bool {
    &&& buf.len() < 1 ==> pfx(buf, usize::dec_enc(32usize)) && buf.len() < usize::dec_enc(32usize).len()
    &&& buf.len() >= 1 ==> pfx(usize::dec_enc(32usize), buf)
    &&& buf.len() == 33 ==> (d.secret is None ==> pfx(buf.skip(1).skip(32), usize::dec_enc(0usize)) && buf.skip(1).skip(32).len() < usize::dec_enc(0usize).len())
        && (d.secret is Some ==> pfx(buf.skip(1).skip(32), usize::dec_enc(64usize)) && buf.skip(1).skip(32).len() < usize::dec_enc(64usize).len())
    &&& buf.len() >= 34 ==> d.secret is Some && pfx(usize::dec_enc(64usize), buf.skip(1).skip(32)) && buf.len() < 98
}
pub proof fn lemma_keypair_short(d: PartialKeypair, buf: Seq<u8>)
    requires buf.len() < enc_keypair(d).len(), pfx(buf, enc_keypair(d))
    ensures kp_short(d, buf)
{
    broadcast use ed25519_dalek::group_key_lens;
    reveal(pfx);
    let e = enc_keypair(d);
    assert(buf =~= e.subrange(0, buf.len() as int));
    assert(enc_uint(32) =~= seq![32u8]);
    assert(enc_uint(0) =~= seq![0u8]);
    assert(enc_uint(64) =~= seq![64u8]);
    assert forall|i: int| 0 <= i < buf.len() implies buf[i] == e[i] by { assert(e.subrange(0, buf.len() as int)[i] == e[i]); }
    if buf.len() < 1 {
        assert(buf =~= usize::dec_enc(32usize).subrange(0, buf.len() as int));
    } else {
        assert(buf[0] == e[0]);
        assert(usize::dec_enc(32usize) =~= buf.subrange(0, 1));
        if buf.len() == 33 {
            assert(buf.skip(1).skip(32) =~= Seq::<u8>::empty());
            assert(buf.skip(1).skip(32) =~= usize::dec_enc(0usize).subrange(0, 0));
            assert(buf.skip(1).skip(32) =~= usize::dec_enc(64usize).subrange(0, 0));
        }
        if buf.len() >= 34 {
            assert(buf[33] == e[33]);
            assert(usize::dec_enc(64usize) =~= buf.skip(1).skip(32).subrange(0, 1));
        }
    }
}
pub proof fn lemma_keypair_layout(d: PartialKeypair, buf: Seq<u8>)
    requires pfx(enc_keypair(d), buf)
    ensures kp_layout(d, buf)
{
    broadcast use ed25519_dalek::group_key_lens;
    reveal(pfx);
    let e = enc_keypair(d);
    assert(e =~= buf.subrange(0, e.len() as int));
    assert(enc_uint(32) =~= seq![32u8]);
    assert(enc_uint(0) =~= seq![0u8]);
    assert(enc_uint(64) =~= seq![64u8]);
    assert forall|i: int| 0 <= i < e.len() implies buf[i] == e[i] by { assert(buf.subrange(0, e.len() as int)[i] == buf[i]); }
    assert(buf[0] == e[0]);
    assert(usize::dec_enc(32usize) =~= buf.subrange(0, 1));
    assert(buf.skip(1).subrange(0, 32) =~= d.public.bytes()) by {
        assert forall|i: int| 0 <= i < 32 implies buf.skip(1).subrange(0, 32)[i] == d.public.bytes()[i] by { assert(buf[i + 1] == e[i + 1]); }
    }
    assert(buf[33] == e[33]);
    if d.secret is None {
        assert(usize::dec_enc(0usize) =~= buf.skip(1).skip(32).subrange(0, 1));
        assert(buf.skip(1).skip(32).skip(1) =~= buf.skip(34));
    } else {
        assert(usize::dec_enc(64usize) =~= buf.skip(1).skip(32).subrange(0, 1));
        assert(buf.skip(1).skip(32).skip(1).subrange(0, 64).subrange(0, 32) =~= d.secret->Some_0.sk_bytes()) by {
            assert forall|i: int| 0 <= i < 32 implies buf.skip(1).skip(32).skip(1).subrange(0, 64).subrange(0, 32)[i] == d.secret->Some_0.sk_bytes()[i] by { assert(buf[i + 34] == e[i + 34]); }
        }
        assert(buf.skip(1).skip(32).skip(1).skip(64) =~= buf.skip(98));
    }
}
/// the key pair of a header: the public key as a 32-byte buffer, then the secret key as a 64-byte buffer (secret ++ public)
/// or, when the core holds no secret key, a single zero byte - in particular no secret key bytes at all (C12)
pub proof fn lemma_keypair_enc(d: PartialKeypair)
    ensures enc_keypair(d).len() == (if d.secret is Some { 98int } else { 34int }),
        d.secret is None ==> enc_keypair(d) == seq![32u8] + d.public.bytes() + seq![0u8]
{ broadcast use ed25519_dalek::group_key_lens; }
/// `[a, b].concat()` of two byte strings
#[verifier::external_body]
pub fn vp_concat2(a: &[u8; 32], b: &Vec<u8>) -> (r: Vec<u8>)
    ensures r@ == a@ + b@
{ [&a[..], &b[..]].concat() }

// ---- the manifest (src/encoding.rs): fixed layout, 68 bytes ----
pub open spec fn signer_layout(d: ManifestSigner, buf: Seq<u8>) -> bool {
    &&& buf.len() >= 65
    &&& buf[0] == 0
    &&& buf.skip(1).subrange(0, 32) == d.namespace@
    &&& buf.skip(1).skip(32).subrange(0, 32) == d.public_key@
    &&& buf.skip(1).skip(32).skip(32) == buf.skip(enc_signer(d).len() as int)
}
pub proof fn lemma_signer_layout(d: ManifestSigner, buf: Seq<u8>)
    requires pfx(enc_signer(d), buf)
    ensures signer_layout(d, buf), enc_signer(d).len() == 65
{
    reveal(pfx);
    let e = enc_signer(d);
    assert(e =~= buf.subrange(0, e.len() as int));
    assert forall|i: int| 0 <= i < e.len() implies buf[i] == e[i] by { assert(buf.subrange(0, e.len() as int)[i] == buf[i]); }
    assert(buf[0] == e[0]);
    assert(buf.skip(1).subrange(0, 32) =~= d.namespace@) by {
        assert forall|i: int| 0 <= i < 32 implies buf.skip(1).subrange(0, 32)[i] == d.namespace@[i] by { assert(buf[i + 1] == e[i + 1]); }
    }
    assert(buf.skip(1).skip(32).subrange(0, 32) =~= d.public_key@) by {
        assert forall|i: int| 0 <= i < 32 implies buf.skip(1).skip(32).subrange(0, 32)[i] == d.public_key@[i] by { assert(buf[i + 33] == e[i + 33]); }
    }
    assert(buf.skip(1).skip(32).skip(32) =~= buf.skip(65));
}
pub proof fn lemma_signer_short(d: ManifestSigner, buf: Seq<u8>)
    requires buf.len() < enc_signer(d).len(), pfx(buf, enc_signer(d))
    ensures buf.len() < 65, buf.len() >= 1 ==> buf[0] == 0
{
    reveal(pfx);
    let e = enc_signer(d);
    assert(buf =~= e.subrange(0, buf.len() as int));
    if buf.len() >= 1 { assert(e.subrange(0, buf.len() as int)[0] == e[0]); }
}
pub open spec fn manifest_layout(d: Manifest, buf: Seq<u8>) -> bool {
    &&& buf.len() >= 68
    &&& buf[0] == 0 && buf[1] == 0 && buf[2] == 1
    &&& pfx(ManifestSigner::dec_enc(d.signer), buf.skip(1).skip(1).skip(1))
    &&& buf.skip(1).skip(1).skip(1).skip(ManifestSigner::dec_enc(d.signer).len() as int) == buf.skip(enc_manifest(d).len() as int)
}
pub proof fn lemma_manifest_layout(d: Manifest, buf: Seq<u8>)
    requires pfx(enc_manifest(d), buf)
    ensures manifest_layout(d, buf), enc_manifest(d).len() == 68
{
    let e = enc_manifest(d);
    lemma_prefix_concat(seq![0u8, 0u8, 1u8], enc_signer(d.signer), buf);
    lemma_signer_layout(d.signer, buf.skip(3));
    reveal(pfx);
    assert(e =~= buf.subrange(0, e.len() as int));
    assert(buf[0] == e[0] && buf[1] == e[1] && buf[2] == e[2]) by {
        assert(buf.subrange(0, e.len() as int)[0] == buf[0]);
        assert(buf.subrange(0, e.len() as int)[1] == buf[1]);
        assert(buf.subrange(0, e.len() as int)[2] == buf[2]);
    }
    assert(buf.skip(1).skip(1).skip(1) =~= buf.skip(3));
    assert(buf.skip(3).skip(65) =~= buf.skip(68));
}
pub open spec fn manifest_short(d: Manifest, buf: Seq<u8>) -> bool {
    &&& buf.len() < 68
    &&& buf.len() >= 1 ==> buf[0] == 0
    &&& buf.len() >= 2 ==> buf[1] == 0
    &&& buf.len() >= 3 ==> buf[2] == 1 && pfx(buf.skip(1).skip(1).skip(1), ManifestSigner::dec_enc(d.signer))
        && buf.skip(1).skip(1).skip(1).len() < ManifestSigner::dec_enc(d.signer).len()
}
pub proof fn lemma_manifest_short(d: Manifest, buf: Seq<u8>)
    requires buf.len() < enc_manifest(d).len(), pfx(buf, enc_manifest(d))
    ensures manifest_short(d, buf)
{
    let e = enc_manifest(d);
    assert(enc_signer(d.signer).len() == 65);
    lemma_strict_prefix_concat(seq![0u8, 0u8, 1u8], enc_signer(d.signer), buf);
    reveal(pfx);
    assert(buf =~= e.subrange(0, buf.len() as int));
    assert forall|i: int| 0 <= i < buf.len() implies buf[i] == e[i] by { assert(e.subrange(0, buf.len() as int)[i] == e[i]); }
    if buf.len() >= 3 { assert(buf.skip(1).skip(1).skip(1) =~= buf.skip(3)); }
}
impl CompactEncoding for ManifestSigner {
    open spec fn spec_enc(&self) -> Seq<u8> { Self::dec_enc(*self) }
    open spec fn dec_enc(d: Self) -> Seq<u8> { enc_signer(d) }
    open spec fn enc_ok(&self) -> bool { signer_std(*self) }
    open spec fn dec_ok(d: Self) -> bool { signer_std(d) }
    open spec fn eqv(a: Self, b: Self) -> bool { signer_eqv(a, b) }
    /*@ fn src/encoding.rs CompactEncoding for ManifestSigner::encoded_size ; novis
    tags: C06
    result: r
    ensures:
        r is Ok ==> r->Ok_0 == 65
    first:
        assert(self.spec_enc() == enc_signer(*self)); assert(enc_signer(*self).len() == 65);
    @*/
    /*@ fn src/encoding.rs CompactEncoding for ManifestSigner::encode ; novis
    tags: C06
    sub `&self\.(\w+) == "(\w+)"` => `vp_str_eq(&self.\1, "\2")`
    @*/
    /*@ fn src/encoding.rs CompactEncoding for ManifestSigner::decode ; novis
    tags: C06
    result: r
    ensures:
        r is Ok ==> signer_std(r->Ok_0.0)
    first:
        proof {
            assert forall|d: ManifestSigner| #[trigger] pfx(Self::dec_enc(d), buffer@) implies signer_layout(d, buffer@) by { lemma_signer_layout(d, buffer@); }
            assert forall|d: ManifestSigner| buffer@.len() < Self::dec_enc(d).len() && #[trigger] pfx(buffer@, Self::dec_enc(d)) implies buffer@.len() < 65 && (buffer@.len() >= 1 ==> buffer@[0] == 0) by { lemma_signer_short(d, buffer@); }
        }
    @*/
}

impl CompactEncoding for Manifest {
    open spec fn spec_enc(&self) -> Seq<u8> { Self::dec_enc(*self) }
    open spec fn dec_enc(d: Self) -> Seq<u8> { enc_manifest(d) }
    open spec fn enc_ok(&self) -> bool { manifest_std(*self) }
    open spec fn dec_ok(d: Self) -> bool { manifest_std(d) }
    open spec fn eqv(a: Self, b: Self) -> bool { manifest_eqv(a, b) }
    /*@ fn src/encoding.rs CompactEncoding for Manifest::encoded_size ; novis
    tags: C06
    result: r
    ensures:
        r is Ok ==> r->Ok_0 == 68
    @*/
    /*@ fn src/encoding.rs CompactEncoding for Manifest::encode ; novis
    tags: C06
    sub `&self\.(\w+) == "(\w+)"` => `vp_str_eq(&self.\1, "\2")`
    @*/
    /*@ fn src/encoding.rs CompactEncoding for Manifest::decode ; novis
    tags: C06
    result: r
    ensures:
        r is Ok ==> manifest_std(r->Ok_0.0)
    unproved-from `panic!("Unknown manifest version` to `panic!("Unknown manifest version`: a header that passes its checksum but names a manifest version other than 0 makes this decoder panic instead of returning an error; such a header is not in the Hypercore 10 layout C06 quantifies over and cannot result from a crash or torn write (C02, C07: the checksum fails), so it is an observation, not a finding
    first:
        proof {
            assert forall|d: Manifest| #[trigger] pfx(Self::dec_enc(d), buffer@) implies manifest_layout(d, buffer@) by { lemma_manifest_layout(d, buffer@); }
            assert forall|d: Manifest| buffer@.len() < Self::dec_enc(d).len() && #[trigger] pfx(buffer@, Self::dec_enc(d)) implies manifest_short(d, buffer@) by { lemma_manifest_short(d, buffer@); }
        }
    @*/
}

impl CompactEncoding for Header {
    open spec fn spec_enc(&self) -> Seq<u8> { Self::dec_enc(*self) }
    open spec fn dec_enc(d: Self) -> Seq<u8> { header_enc(d) }
    open spec fn enc_ok(&self) -> bool { manifest_std(self.manifest) }
    open spec fn dec_ok(d: Self) -> bool { manifest_std(d.manifest) }
    open spec fn eqv(a: Self, b: Self) -> bool { header_eqv(a, b) }
    /*@ fn src/oplog/header.rs CompactEncoding for Header::encoded_size ; novis
    tags: C01 C06 C02 C12
    @*/
    /*@ fn src/oplog/header.rs CompactEncoding for Header::encode ; novis
    tags: C01 C06 C02 C12
    first:
        assert(2u8 | 4u8 == 6u8) by (bit_vector);
    @*/
    /*@ fn src/oplog/header.rs CompactEncoding for Header::decode ; novis
    tags: C01 C06 C02 C12
    result: r
    ensures:
        // a decoded header can be encoded again (its manifest names the one hash and signature scheme this format knows)
        r is Ok ==> manifest_std(r->Ok_0.0.manifest)
    after `let (key, rest) = take_array::<32>(rest)?;`:
        let ghost r1 = rest@;
        proof {
            assert forall|d: Header| #[trigger] pfx(Self::dec_enc(d), buffer@) implies
                key@ == d.key@ && pfx(header_fields(d), r1) by {
                lemma_prefix_concat(seq![1u8, 6u8], d.key@ + header_fields(d), buffer@);
                lemma_prefix_concat(d.key@, header_fields(d), buffer@.skip(2));
                lemma_pfx_subrange(d.key@, buffer@.skip(2));
            }
            assert forall|d: Header| buffer@.len() < Self::dec_enc(d).len() && #[trigger] pfx(buffer@, Self::dec_enc(d)) implies
                r1.len() < header_fields(d).len() && pfx(r1, header_fields(d)) by {
                lemma_strict_prefix_concat(seq![1u8, 6u8], d.key@ + header_fields(d), buffer@);
                lemma_strict_prefix_concat(d.key@, header_fields(d), buffer@.skip(2));
            }
        }
    @*/
}

