// ---- src/tree/merkle_tree.rs: proof verification path ----
/*@ item src/tree/merkle_tree.rs struct MerkleTree @*/
/*@ item src/tree/merkle_tree_changeset.rs struct MerkleTreeChangeset @*/
/*@ item src/tree/merkle_tree.rs const NODE_SIZE @*/
/*@ item src/tree/merkle_tree.rs struct NodeQueue @*/
/*@ item src/tree/merkle_tree.rs struct NormalizedData @*/
/*@ item src/common/peer.rs struct Proof @*/
/*@ item src/common/peer.rs struct DataBlock @*/
/*@ item src/common/peer.rs struct DataHash @*/
/*@ item src/common/peer.rs struct DataSeek @*/
/*@ item src/common/peer.rs struct DataUpgrade @*/

impl Node {
    /*@ fn src/common/node.rs Node::new ; assumed
    result: r
    ensures:
        r.index == index, r.hash@ == hash@, r.length == length, r.canonical()
    @*/
}

/// every numeric field a peer controls is below 2^40 (the property's bound)
pub open spec fn node_ok(n: Node) -> bool { n.index < 0x100_0000_0000 && n.length < 0x100_0000_0000 }
pub open spec fn nodes_ok(s: Seq<Node>) -> bool { s.len() <= 0x8_0000 && forall|i: int| 0 <= i < s.len() ==> node_ok(#[trigger] s[i]) }

impl NodeQueue {
    pub open spec fn wf(&self) -> bool {
        self.i <= self.nodes@.len() && self.length == (self.nodes@.len() - self.i) + (if self.extra is Some { 1int } else { 0int })
    }
    /*@ fn src/tree/merkle_tree.rs NodeQueue::new
    tags: C04 C09 C03
    result: r
    requires:
        nodes@.len() <= 0x10_0000
    ensures:
        r.wf(), r.i == 0, r.nodes == nodes, r.extra == extra
    @*/
    /*@ fn src/tree/merkle_tree.rs NodeQueue::shift
    tags: C04 C09 C03
    result: r
    requires:
        old(self).wf()
    ensures:
        final(self).nodes == old(self).nodes,
        r is Ok ==> final(self).wf(),
        // a node is handed out only if it carries the index the verifier expects at this position
        r is Ok ==> r->Ok_0.index == index && final(self).length == old(self).length - 1
            && (old(self).extra is Some && old(self).extra->Some_0.index == index
                    ==> final(self).extra is None && final(self).i == old(self).i && Node::eqv(r->Ok_0, old(self).extra->Some_0))
            && (!(old(self).extra is Some && old(self).extra->Some_0.index == index)
                    ==> final(self).extra == old(self).extra && final(self).i == old(self).i + 1 && Node::eqv(r->Ok_0, old(self).nodes@[old(self).i as int])),
        r is Err ==> final(self).length == old(self).length
    @*/
}

/*@ fn src/tree/merkle_tree.rs fn hypercore_index_into_merkle_tree_index
tags: C09 C03
result: r
requires:
    hypercore_index <= 0x7fff_ffff_ffff_ffff
ensures:
    r == 2 * hypercore_index
@*/

/*@ fn src/tree/merkle_tree.rs fn parent_node
tags: C04 C05 C09
result: r
requires:
    left.length + right.length <= u64::MAX
ensures:
    r.index == index, r.length == left.length + right.length, r.hash@ == crypto::h_parent(*left, *right), r.hash@.len() == 32
@*/

/*@ fn src/tree/merkle_tree.rs fn block_node
tags: C04 C05 C09
result: r
ensures:
    // the leaf binds the received bytes: hash over type, size and data
    r.index == index, r.length == value@.len(), r.hash@ == crypto::h_leaf(value@), r.hash@.len() == 32
@*/

/*@ fn src/tree/merkle_tree.rs fn normalize_data
tags: C04 C09
result: r
requires:
    block is Some ==> block->Some_0.index <= 0x7fff_ffff_ffff_ffff
ensures:
    (r is None) == (block is None && hash is None),
    block is Some ==> r->Some_0.index == 2 * block->Some_0.index && r->Some_0.value is Some && r->Some_0.value->Some_0@ == block->Some_0.value@
        && nodes_same(r->Some_0.nodes@, block->Some_0.nodes@),
    block is None && hash is Some ==> r->Some_0.index == hash->Some_0.index && r->Some_0.value is None
        && nodes_same(r->Some_0.nodes@, hash->Some_0.nodes@)
sub `(?s)hash\.map\(\|hash\| NormalizedData \{(.*?)\}\)` => `match hash { Some(hash) => Some(NormalizedData {\1}), None => None }`
@*/
pub open spec fn nodes_same(a: Seq<Node>, b: Seq<Node>) -> bool {
    a.len() == b.len() && forall|i: int| 0 <= i < a.len() ==> Node::eqv(#[trigger] a[i], b[i])
}

pub open spec fn roots_sum(s: Seq<Node>) -> int
    decreases s.len()
{ if s.len() == 0 { 0 } else { roots_sum(s.drop_last()) + s.last().length } }

/// an iterator positioned on a node whose index is below 2^41 is at most 41 levels up
pub proof fn lemma_index_depth(it: flat_tree::Iterator)
    requires it.wf(), it.index < 0x800_0000_0000
    ensures it.d@ <= 43, it.factor <= 0x1000_0000_0000, it.index + 2 * it.factor <= 0x7fff_ffff_ffff_ffff,
        it.index < 0x200_0000_0000 ==> it.d@ <= 41 && it.factor <= 0x400_0000_0000
{
    flat_tree::lemma_p2_62();
    reveal_with_fuel(flat_tree::p2, 46);
    flat_tree::lemma_p2_pos(it.d@);
    if it.d@ > 43 { flat_tree::lemma_p2_mono(44, it.d@); }
    if it.d@ > 41 { flat_tree::lemma_p2_mono(42, it.d@); }
    assert(it.offset * flat_tree::p2(it.d@ + 1) >= 0) by (nonlinear_arith) requires it.offset >= 0, flat_tree::p2(it.d@ + 1) >= 0;
    flat_tree::lemma_p2_pos(it.d@ + 1);
    if it.d@ + 1 <= 44 { flat_tree::lemma_p2_mono(it.d@ + 1, 44); }
    if it.d@ + 1 <= 42 { flat_tree::lemma_p2_mono(it.d@ + 1, 42); }
}
pub proof fn lemma_roots_sum_nonneg(s: Seq<Node>)
    ensures roots_sum(s) >= 0
    decreases s.len()
{ if s.len() > 0 { lemma_roots_sum_nonneg(s.drop_last()); } }

// ---- the root list as a "mountain range" ----
use flat_tree::{p2, depth_of, offset_of, node_index};
/// flat index at which the tree of root k starts (the trees of roots 0..k are laid out one after the other from 0)
pub open spec fn root_start(roots: Seq<Node>, k: int) -> int
    decreases k
{ if k <= 0 { 0 } else { root_start(roots, k - 1) + p2(depth_of(roots[k - 1].index) + 1) } }
/// root k is the root of the full tree that starts there, and it is a left child (its start is aligned for the next level)
pub open spec fn mr_at(roots: Seq<Node>, k: int) -> bool {
    roots[k].index == root_start(roots, k) + p2(depth_of(roots[k].index)) - 1 && root_start(roots, k) % p2(depth_of(roots[k].index) + 2) == 0
}
pub open spec fn mr(roots: Seq<Node>) -> bool { forall|k: int| 0 <= k < roots.len() ==> #[trigger] mr_at(roots, k) }
/// being a mountain range depends on the indices of the roots only
pub proof fn lemma_mr_same(a: Seq<Node>, b: Seq<Node>)
    requires a.len() == b.len(), forall|k: int| 0 <= k < a.len() ==> (#[trigger] a[k]).index == b[k].index, mr(b)
    ensures mr(a), root_start(a, a.len() as int) == root_start(b, b.len() as int)
{
    assert forall|k: int| 0 <= k < a.len() implies #[trigger] mr_at(a, k) by { assert(mr_at(b, k)); lemma_root_start_prefix(a, b, k); }
    lemma_root_start_prefix(a, b, a.len() as int);
}
pub proof fn lemma_root_start_mono(roots: Seq<Node>, a: int, b: int)
    requires 0 <= a <= b
    ensures 0 <= root_start(roots, a) <= root_start(roots, b)
    decreases b
{
    if a < b { lemma_root_start_mono(roots, a, b - 1); flat_tree::lemma_p2_pos(depth_of(roots[b - 1].index) + 1); }
    else if a > 0 { lemma_root_start_mono(roots, a - 1, a - 1); flat_tree::lemma_p2_pos(depth_of(roots[a - 1].index) + 1); }
}
pub proof fn lemma_root_start_even(roots: Seq<Node>, k: int)
    ensures root_start(roots, k) % 2 == 0
    decreases k
{
    if k > 0 { lemma_root_start_even(roots, k - 1); assert(p2(depth_of(roots[k - 1].index) + 1) == 2 * p2(depth_of(roots[k - 1].index))); }
}
/// root_start depends on the indices of the roots before k only
pub proof fn lemma_root_start_prefix(a: Seq<Node>, b: Seq<Node>, k: int)
    requires 0 <= k <= a.len(), k <= b.len(), forall|j: int| 0 <= j < k ==> (#[trigger] a[j]).index == b[j].index
    ensures root_start(a, k) == root_start(b, k)
    decreases k
{ if k > 0 { lemma_root_start_prefix(a, b, k - 1); assert(a[k - 1].index == b[k - 1].index); } }
/// in a mountain range every root lies before the start of the next one
pub proof fn lemma_mr_index_below(roots: Seq<Node>, k: int, n: int)
    requires 0 <= k < n <= roots.len(), mr_at(roots, k)
    ensures roots[k].index < root_start(roots, n), root_start(roots, k) <= roots[k].index
{
    lemma_root_start_mono(roots, k + 1, n);
    lemma_root_start_mono(roots, 0, k);
    flat_tree::lemma_p2_pos(depth_of(roots[k].index));
    assert(p2(depth_of(roots[k].index) + 1) == 2 * p2(depth_of(roots[k].index)));
}
/// the start of a node in flat coordinates is offset * 2^(d+1)
pub proof fn lemma_node_start(index: u64)
    ensures offset_of(index) >= 0, index == offset_of(index) * p2(depth_of(index) + 1) + p2(depth_of(index)) - 1
{ flat_tree::lemma_node_of_index(index); }

/// a mountain range whose last root may still be a right child (state inside append_root's merge loop)
pub open spec fn almost_mr(roots: Seq<Node>, length: u64) -> bool {
    &&& roots.len() >= 1
    &&& forall|k: int| 0 <= k < roots.len() - 1 ==> #[trigger] mr_at(roots, k)
    &&& roots.last().index == root_start(roots, roots.len() - 1) + p2(depth_of(roots.last().index)) - 1
    &&& root_start(roots, roots.len() as int) == 2 * length
    &&& roots.len() == 1 ==> mr_at(roots, 0)
}
pub proof fn lemma_mr_single(roots: Seq<Node>)
    requires roots.len() == 1, roots[0].index == root_start(roots, 0) + p2(depth_of(roots[0].index)) - 1
    ensures mr_at(roots, 0)
{
    flat_tree::lemma_p2_pos(depth_of(roots[0].index) + 2);
    vstd::arithmetic::div_mod::lemma_small_mod(0, p2(depth_of(roots[0].index) + 2) as nat);
}
/// pushing the root of the full tree that starts at the end of a mountain range
pub proof fn lemma_mr_push(roots0: Seq<Node>, length0: u64, roots: Seq<Node>, length: u64, it: flat_tree::Iterator)
    requires mr(roots0), root_start(roots0, roots0.len() as int) == 2 * length0,
        roots.len() == roots0.len() + 1, forall|k: int| 0 <= k < roots0.len() ==> (#[trigger] roots[k]).index == roots0[k].index,
        it.wf(), roots.last().index == it.index, it.index == 2 * length0 + p2(it.d@) - 1, length == length0 + it.factor / 2
    ensures almost_mr(roots, length)
{
    flat_tree::lemma_node_of(it);
    let n = roots.len() as int;
    lemma_root_start_prefix(roots, roots0, n - 1);
    assert forall|k: int| 0 <= k < n - 1 implies #[trigger] mr_at(roots, k) by {
        assert(mr_at(roots0, k));
        lemma_root_start_prefix(roots, roots0, k);
    }
    assert(p2(it.d@ + 1) == 2 * p2(it.d@));
    assert(root_start(roots, n) == root_start(roots, n - 1) + p2(depth_of(roots[n - 1].index) + 1));
    if n == 1 { lemma_mr_single(roots); }
}
/// the sibling of the last root is not the root before it: the last root is a left child, the range is complete
pub proof fn lemma_mr_break(rs: Seq<Node>, length: u64, it0: flat_tree::Iterator, sib_index: int)
    requires almost_mr(rs, length), rs.len() >= 2, it0.wf(), it0.index == rs.last().index,
        sib_index == (if it0.offset % 2 == 0 { it0.index + it0.factor } else { it0.index - it0.factor }),
        sib_index != rs[rs.len() - 2].index
    ensures mr(rs)
{
    let n = rs.len() as int;
    flat_tree::lemma_node_of(it0);
    let d_a = it0.d@; let o_a = it0.offset as int;
    let s1 = root_start(rs, n - 1);
    assert(s1 == o_a * p2(d_a + 1));
    if o_a % 2 == 1 {
        assert(mr_at(rs, n - 2));
        let d_b = depth_of(rs[n - 2].index);
        let s0 = root_start(rs, n - 2);
        assert(s1 == s0 + p2(d_b + 1));
        lemma_root_start_mono(rs, 0, n - 2);
        flat_tree::lemma_mr_sibling(s1, o_a, d_a, s0, d_b);
        assert(p2(d_a + 1) == 2 * p2(d_a));
        assert(false);
    }
    flat_tree::lemma_even_offset(o_a, d_a, s1);
    assert(mr_at(rs, n - 1));
}
/// the sibling of the last root is the root before it: they merge into their parent, which starts where that root started
pub proof fn lemma_mr_merge(rs: Seq<Node>, length: u64, it0: flat_tree::Iterator, itp: flat_tree::Iterator, roots: Seq<Node>)
    requires almost_mr(rs, length), rs.len() >= 2, it0.wf(), it0.index == rs.last().index,
        rs[rs.len() - 2].index == (if it0.offset % 2 == 0 { it0.index + it0.factor } else { it0.index - it0.factor }),
        itp.wf(), itp.d@ == it0.d@ + 1, itp.index == (if it0.offset % 2 == 0 { it0.index + it0.factor / 2 } else { it0.index - it0.factor / 2 }),
        roots.len() == rs.len() - 1, forall|k: int| 0 <= k < rs.len() - 2 ==> (#[trigger] roots[k]).index == rs[k].index,
        roots.last().index == itp.index
    ensures almost_mr(roots, length)
{
    let n = rs.len() as int;
    flat_tree::lemma_node_of(it0);
    flat_tree::lemma_node_of(itp);
    let d_a = it0.d@; let o_a = it0.offset as int;
    let s1 = root_start(rs, n - 1);
    assert(mr_at(rs, n - 2));
    let b = rs[n - 2];
    let d_b = depth_of(b.index);
    let s0 = root_start(rs, n - 2);
    assert(s1 == s0 + p2(d_b + 1));
    lemma_mr_index_below(rs, n - 2, n - 1);
    flat_tree::lemma_p2_pos(d_a); flat_tree::lemma_p2_pos(d_b);
    assert(p2(d_a + 1) == 2 * p2(d_a) && p2(d_a + 2) == 2 * p2(d_a + 1) && p2(d_b + 1) == 2 * p2(d_b));
    // the root before the last one lies to the left, so the last root is the right child
    assert(o_a % 2 == 1);
    // ... and that root is the node (d_a, o_a - 1)
    flat_tree::lemma_node_of_index(b.index);
    assert((o_a - 1) * p2(d_a + 1) == o_a * p2(d_a + 1) - p2(d_a + 1)) by (nonlinear_arith);
    assert(node_index(d_a, o_a - 1) == b.index);
    flat_tree::lemma_node_unique(d_b, offset_of(b.index), d_a, o_a - 1);
    assert(d_b == d_a);
    // the merged list
    assert forall|k: int| 0 <= k < roots.len() - 1 implies #[trigger] mr_at(roots, k) by {
        assert(mr_at(rs, k));
        lemma_root_start_prefix(roots, rs, k);
    }
    lemma_root_start_prefix(roots, rs, n - 2);
    assert(root_start(roots, n - 1) == root_start(roots, n - 2) + p2(depth_of(roots[n - 2].index) + 1));
    assert(root_start(rs, n) == s1 + p2(depth_of(rs[n - 1].index) + 1));
    if roots.len() == 1 { lemma_mr_single(roots); }
}

impl MerkleTreeChangeset {
    /// the roots form a mountain range that ends at leaf `length`
    pub open spec fn cs_mr(&self) -> bool { mr(self.roots@) && root_start(self.roots@, self.roots@.len() as int) == 2 * self.length }
    pub open spec fn cs_wf(&self) -> bool {
        &&& self.length <= 0x4000_0000_0000_0000 && self.byte_length <= 0x4000_0000_0000_0000
        &&& self.roots@.len() <= 0x80_0000 && self.nodes@.len() <= 0x100_0000
        &&& roots_sum(self.roots@) == self.byte_length
        &&& forall|i: int| 0 <= i < self.roots@.len() ==> (#[trigger] self.roots@[i]).index < 0x200_0000_0000
    }

    /*@ fn src/tree/merkle_tree_changeset.rs MerkleTreeChangeset::append_root
    tags: C04 C05 C09 C03
    requires:
        old(self).cs_wf(), old(iter).wf(), node.index == old(iter).index, node.index < 0x200_0000_0000,
        old(self).nodes@.len() + old(self).roots@.len() <= 0xff_fff0, old(self).roots@.len() < 0x80_0000,
        old(self).length + old(iter).factor / 2 <= 0x4000_0000_0000_0000,
        old(self).byte_length + node.length <= 0x4000_0000_0000_0000
    ensures:
        final(self).cs_wf(), final(self).upgraded,
        final(self).length == old(self).length + old(iter).factor / 2,
        final(self).byte_length == old(self).byte_length + node.length,
        final(self).roots@.len() >= 1 && final(self).roots@.len() <= old(self).roots@.len() + 1,
        final(self).nodes@.len() <= old(self).nodes@.len() + 1 + old(self).roots@.len(),
        final(self).nodes@.len() + final(self).roots@.len() <= old(self).nodes@.len() + old(self).roots@.len() + 2,
        // the iterator is left on the last root
        final(iter).wf() && final(iter).index == final(self).roots@.last().index,
        final(self).fork == old(self).fork, final(self).ancestors == old(self).ancestors, final(self).batch_length == old(self).batch_length,
        final(self).hash == old(self).hash, final(self).signature == old(self).signature,
        final(self).original_tree_length == old(self).original_tree_length, final(self).original_tree_fork == old(self).original_tree_fork,
        // C05 flat in-order numbering / root sets of every shape: appending the root of the full tree that starts at the end
        // of a mountain range gives a mountain range again (right children are merged with their left siblings, bottom up)
        old(self).cs_mr() && node.index == 2 * old(self).length + p2(depth_of(node.index)) - 1 ==> final(self).cs_mr()
    before `self.length += iter.factor() / 2;`:
        proof { lemma_index_depth(*iter); flat_tree::lemma_node_of(*iter); }
        let ghost roots0 = self.roots@;
        let ghost hmr = self.cs_mr() && node.index == 2 * self.length + p2(depth_of(node.index)) - 1;
        let ghost length0 = self.length;
    before `while self.roots.len() > 1 {`:
        proof {
            assert(self.roots@.drop_last() =~= roots0);
            if hmr { lemma_mr_push(roots0, length0, self.roots@, self.length, *iter); }
        }
    loop 1:
        invariant
            hmr ==> almost_mr(self.roots@, self.length),
            iter.wf(), self.roots@.len() >= 1, iter.index == self.roots@.last().index,
            self.roots@.len() <= old(self).roots@.len() + 1,
            roots_sum(self.roots@) == self.byte_length, self.byte_length <= 0x4000_0000_0000_0000, self.length <= 0x4000_0000_0000_0000,
            forall|i: int| 0 <= i < self.roots@.len() ==> (#[trigger] self.roots@[i]).index < 0x200_0000_0000,
            self.nodes@.len() + self.roots@.len() <= old(self).nodes@.len() + old(self).roots@.len() + 2,
            self.upgraded, self.length == old(self).length + old(iter).factor / 2, self.byte_length == old(self).byte_length + node.length,
            self.fork == old(self).fork, self.ancestors == old(self).ancestors, self.batch_length == old(self).batch_length,
            self.hash == old(self).hash, self.signature == old(self).signature,
            self.original_tree_length == old(self).original_tree_length, self.original_tree_fork == old(self).original_tree_fork
        ensures
            hmr ==> self.cs_mr()
        decreases self.roots@.len()
    before `if iter.sibling() != b.index {`:
        proof { lemma_index_depth(*iter); }
        let ghost it0 = *iter;
        let ghost rs = self.roots@;
    before `iter.sibling(); // unset`:
        proof {
            lemma_index_depth(*iter);
            if hmr { lemma_mr_break(rs, self.length, it0, iter.index as int); }
        }
    before `let node = Node::new(`:
        proof {
            lemma_index_depth(*iter);
            assert(rs.last() == *a); assert(rs.drop_last().last() == *b);
            assert(roots_sum(rs) == roots_sum(rs.drop_last()) + a.length);
            assert(roots_sum(rs.drop_last()) == roots_sum(rs.drop_last().drop_last()) + b.length);
            lemma_roots_sum_nonneg(rs.drop_last().drop_last());
        }
    after `let _ = &self.roots.push(node);`:
        proof {
            assert(self.roots@.drop_last() =~= rs.drop_last().drop_last());
            if hmr { lemma_mr_merge(rs, self.length, it0, *iter, self.roots@); }
        }
    @*/
}

impl MerkleTreeChangeset {
    /*@ fn src/tree/merkle_tree_changeset.rs MerkleTreeChangeset::hash
    tags: C04 C05
    result: r
    ensures:
        r@ == crypto::h_tree(self.roots@), r@.len() == 32
    @*/
    /*@ fn src/tree/merkle_tree_changeset.rs MerkleTreeChangeset::signable
    tags: C04 C05
    result: r
    requires:
        hash@.len() == 32
    ensures:
        // tree namespace, hash of the roots, little-endian length and fork
        r@ == crypto::spec_signable(hash@, self.length, self.fork)
    @*/
    /*@ fn src/tree/merkle_tree_changeset.rs MerkleTreeChangeset::verify_and_set_signature
    tags: C04 C05 C09
    result: r
    ensures:
        // C04 signature gate: Ok only if the signature parses and verifies, under the given key, over the signable of the
        // CURRENT roots, length and fork of the changeset; then exactly that hash and signature are recorded
        r is Ok ==> signature@.len() == 64 && final(self).signature is Some && final(self).signature->Some_0.sig_bytes() == signature@
            && crypto::sig_ok(*public_key, crypto::spec_signable(crypto::h_tree(old(self).roots@), old(self).length, old(self).fork), final(self).signature->Some_0)
            && final(self).hash is Some && final(self).hash->Some_0@ == crypto::h_tree(old(self).roots@),
        r is Err ==> *final(self) == *old(self),
        final(self).roots == old(self).roots && final(self).nodes == old(self).nodes && final(self).length == old(self).length
            && final(self).byte_length == old(self).byte_length && final(self).fork == old(self).fork && final(self).upgraded == old(self).upgraded
            && final(self).ancestors == old(self).ancestors && final(self).batch_length == old(self).batch_length
            && final(self).original_tree_length == old(self).original_tree_length && final(self).original_tree_fork == old(self).original_tree_fork
    sub `Signature::try_from\(signature\)` => `Signature::vp_try_from(signature)`
    @*/
    /*@ fn src/tree/merkle_tree_changeset.rs MerkleTreeChangeset::hash_and_sign
    tags: C05 C01
    ensures:
        // C05: the stored signature is the Ed25519 signature by the core's key over namespace ++ hash(roots) ++ length ++ fork
        final(self).hash is Some && final(self).hash->Some_0@ == crypto::h_tree(old(self).roots@),
        final(self).signature == Some(crypto::spec_sign(*signing_key, crypto::spec_signable(crypto::h_tree(old(self).roots@), old(self).length, old(self).fork))),
        final(self).roots == old(self).roots && final(self).nodes == old(self).nodes && final(self).length == old(self).length
            && final(self).byte_length == old(self).byte_length && final(self).fork == old(self).fork && final(self).upgraded == old(self).upgraded
            && final(self).ancestors == old(self).ancestors && final(self).batch_length == old(self).batch_length
            && final(self).original_tree_length == old(self).original_tree_length && final(self).original_tree_fork == old(self).original_tree_fork
    @*/
}

impl MerkleTreeChangeset {
    /*@ fn src/tree/merkle_tree_changeset.rs MerkleTreeChangeset::append
    tags: C01 C05 C03
    result: r
    requires:
        old(self).cs_wf(), old(self).length < 0xff_ffff_ffff, data@.len() < 0x100_0000_0000,
        old(self).byte_length + data@.len() <= 0x2000_0000_0000_0000, old(self).batch_length < u64::MAX,
        old(self).nodes@.len() + old(self).roots@.len() <= 0xff_fff0, old(self).roots@.len() < 0x1000
    ensures:
        r == data@.len(), final(self).cs_wf(),
        // one more block, its bytes added to the byte length (empty blocks included)
        final(self).length == old(self).length + 1, final(self).byte_length == old(self).byte_length + data@.len(),
        final(self).batch_length == old(self).batch_length + 1, final(self).upgraded,
        final(self).ancestors == old(self).ancestors, final(self).fork == old(self).fork,
        final(self).original_tree_length == old(self).original_tree_length, final(self).original_tree_fork == old(self).original_tree_fork,
        final(self).hash == old(self).hash, final(self).signature == old(self).signature,
        final(self).nodes@.len() <= old(self).nodes@.len() + 1 + old(self).roots@.len(),
        final(self).roots@.len() <= old(self).roots@.len() + 1,
        // C05: appending a block keeps the roots the mountain range of the new length
        old(self).cs_mr() ==> final(self).cs_mr()
    after `let mut iter = flat_tree::Iterator::new(head);`:
        proof { flat_tree::lemma_node_of(iter); assert(p2(0) == 1); }
    @*/
}

// ---- verification of a proof section against the changeset (src/tree/merkle_tree.rs) ----
pub open spec fn proof_ok(p: &Proof) -> bool {
    &&& p.block is Some ==> p.block->Some_0.index < 0x100_0000_0000 && p.block->Some_0.value@.len() < 0x100_0000_0000 && nodes_ok(p.block->Some_0.nodes@)
    &&& p.hash is Some ==> p.hash->Some_0.index < 0x100_0000_0000 && nodes_ok(p.hash->Some_0.nodes@)
    &&& p.seek is Some ==> p.seek->Some_0.bytes < 0x100_0000_0000 && nodes_ok(p.seek->Some_0.nodes@)
    &&& p.upgrade is Some ==> p.upgrade->Some_0.start < 0x100_0000_0000 && p.upgrade->Some_0.length < 0x100_0000_0000
            && nodes_ok(p.upgrade->Some_0.nodes@) && nodes_ok(p.upgrade->Some_0.additional_nodes@) && p.upgrade->Some_0.signature@.len() <= 0x10_0000
}

// ---- what a proof section authenticates: the root obtained by folding its sibling list, bottom up ----
/// the authenticated content of a node
pub struct SNode { pub index: u64, pub hash: Seq<u8>, pub length: u64 }
pub open spec fn sn(n: Node) -> SNode { SNode { index: n.index, hash: n.hash@, length: n.length } }
/// parent of two nodes by the scheme: 0x01 ++ LE64(size sum) ++ hashes, children ordered by index
pub open spec fn sn_parent(idx: u64, a: SNode, b: SNode) -> SNode {
    SNode { index: idx, length: (a.length + b.length) as u64,
        hash: if a.index <= b.index { crypto::blake2b(crypto::parent_preimage(a.length, a.hash, b.length, b.hash)) }
              else { crypto::blake2b(crypto::parent_preimage(b.length, b.hash, a.length, a.hash)) } }
}
/// the position of the parent of the node an iterator is on
pub open spec fn it_up(it: flat_tree::Iterator) -> flat_tree::Iterator {
    flat_tree::Iterator { index: (if it.offset % 2 == 0 { it.index + it.factor / 2 } else { it.index - it.factor / 2 }) as u64,
        offset: it.offset / 2, factor: (2 * it.factor) as u64, d: Ghost(it.d@ + 1) }
}
pub open spec fn leaf_it(index: u64) -> flat_tree::Iterator { flat_tree::Iterator { index: index, offset: index / 2, factor: 2, d: Ghost(0) } }
/// root recomputed from `cur` (at position `it`) and the siblings sibs[k..], each one level up
pub open spec fn fold_up(it: flat_tree::Iterator, cur: SNode, sibs: Seq<Node>, k: int) -> SNode
    decreases sibs.len() - k
{
    if k >= sibs.len() { cur } else { fold_up(it_up(it), sn_parent(it_up(it).index, cur, sn(sibs[k])), sibs, k + 1) }
}
pub proof fn lemma_fold_up_same(it: flat_tree::Iterator, cur: SNode, a: Seq<Node>, b: Seq<Node>, k: int)
    requires nodes_same(a, b), 0 <= k
    ensures fold_up(it, cur, a, k) == fold_up(it, cur, b, k)
    decreases a.len() - k
{
    if k < a.len() {
        assert(Node::eqv(a[k], b[k]));
        assert(sn(a[k]) == sn(b[k]));
        lemma_fold_up_same(it_up(it), sn_parent(it_up(it).index, cur, sn(a[k])), a, b, k + 1);
    }
}
/// the root a block proof section authenticates: leaf = (2*index, H_leaf(value), |value|), then its sibling list folded in
pub open spec fn block_root(b: &DataBlock) -> SNode {
    fold_up(leaf_it((2 * b.index) as u64), SNode { index: (2 * b.index) as u64, hash: crypto::h_leaf(b.value@), length: b.value@.len() as u64 }, b.nodes@, 0)
}
pub open spec fn no_seek_nodes(seek: Option<&DataSeek>) -> bool { seek is None || seek->Some_0.nodes@.len() == 0 }
pub open spec fn no_seek_nodes_o(seek: Option<DataSeek>) -> bool { seek is None || seek->Some_0.nodes@.len() == 0 }

/*@ fn src/tree/merkle_tree.rs fn verify_tree
tags: C04 C09 C03
result: r
requires:
    old(changeset).cs_wf(), old(changeset).nodes@.len() == 0,
    block is Some ==> block->Some_0.index < 0x100_0000_0000 && block->Some_0.value@.len() < 0x100_0000_0000 && nodes_ok(block->Some_0.nodes@),
    hash is Some ==> hash->Some_0.index < 0x100_0000_0000 && nodes_ok(hash->Some_0.nodes@),
    seek is Some ==> nodes_ok(seek->Some_0.nodes@)
ensures:
    // only the list of verified nodes grows; nothing a commit would install (roots, length, byte length, fork, signature) is touched
    final(changeset).roots == old(changeset).roots && final(changeset).length == old(changeset).length
        && final(changeset).byte_length == old(changeset).byte_length && final(changeset).fork == old(changeset).fork
        && final(changeset).upgraded == old(changeset).upgraded && final(changeset).signature == old(changeset).signature
        && final(changeset).hash == old(changeset).hash && final(changeset).ancestors == old(changeset).ancestors
        && final(changeset).original_tree_length == old(changeset).original_tree_length
        && final(changeset).original_tree_fork == old(changeset).original_tree_fork && final(changeset).batch_length == old(changeset).batch_length,
    r is Ok ==> final(changeset).nodes@.len() <= 0x20_0010,
    r is Ok && r->Ok_0 is Some ==> r->Ok_0->Some_0.index < 0x200_0000_0000 && r->Ok_0->Some_0.length <= 0x2000_0000_0000_0000,
    // C04 root recomputation: for a block section (no seek nodes) the node handed back is exactly the root obtained from
    // the leaf (2*index, H_leaf(value), |value|) and the section's siblings, each parent = H_parent(children), size = sum
    r is Ok && block is Some && no_seek_nodes(seek) ==> r->Ok_0 is Some && sn(r->Ok_0->Some_0) == block_root(block->Some_0),
    // a section that is present always yields a root to be checked (the gate cannot be skipped)
    r is Ok && (block is Some || hash is Some) ==> r->Ok_0 is Some
first:
    let ghost cs0 = *changeset;
loop 1:
    invariant
        q.wf(), iter.wf(), iter.index < 0x100_0000_0000, current_root.index == iter.index,
        qnodes_ok(q), q.nodes@.len() <= 0x8_0000, q.extra is None,
        current_root.length <= (q.i + 1) * 0x100_0000_0000,
        changeset.nodes@.len() <= 1 + 2 * q.i,
        verify_frame(changeset, &cs0)
    decreases q.length
loop 2:
    invariant
        q.wf(), iter.wf(), iter.index < 0x200_0000_0000, current_root.index == iter.index,
        qnodes_ok(q), q.nodes@.len() <= 0x8_0000,
        current_root.length + (if q.extra is Some { q.extra->Some_0.length as int } else { 0 }) <= (q.i + 1) * 0x100_0000_0000 + 0x1000_0000_0000_0000,
        changeset.nodes@.len() <= 0x10_0004 + 2 * q.i + (if q.extra is Some { 0int } else { 2 }),
        verify_frame(changeset, &cs0),
        block is Some && no_seek_nodes(seek) ==> q.extra is None && nodes_same(q.nodes@, block->Some_0.nodes@)
            && fold_up(iter, sn(current_root), q.nodes@, q.i as int) == fold_up(leaf_it((2 * block->Some_0.index) as u64),
                SNode { index: (2 * block->Some_0.index) as u64, hash: crypto::h_leaf(block->Some_0.value@), length: block->Some_0.value@.len() as u64 }, q.nodes@, 0)
    decreases q.length
before `root = Some(current_root);`#2:
    // C04: nothing unauthenticated reaches the changeset - the root recomputed from the seek section (queue.extra) has been
    // consumed as a sibling on the block / hash path, so every node pushed above is bound to the root handed back
    assert(q.extra is None);
    proof {
        if block is Some && no_seek_nodes(seek) {
            lemma_fold_up_same(leaf_it((2 * block->Some_0.index) as u64),
                SNode { index: (2 * block->Some_0.index) as u64, hash: crypto::h_leaf(block->Some_0.value@), length: block->Some_0.value@.len() as u64 }, q.nodes@, block->Some_0.nodes@, 0);
        }
    }
before `let node = q.shift(iter.sibling())?;`#1:
    proof { lemma_index_depth(iter); }
before `let node = q.shift(iter.sibling())?;`#2:
    proof { lemma_index_depth(iter); }
@*/
/// queue contents stay within the bound on peer-supplied numeric fields
pub open spec fn qnodes_ok(q: NodeQueue) -> bool {
    (forall|i: int| 0 <= i < q.nodes@.len() ==> node_ok(#[trigger] q.nodes@[i])) && (q.extra is Some ==> q.extra->Some_0.index < 0x100_0000_0000 && q.extra->Some_0.length <= 0x1000_0000_0000_0000)
}
pub open spec fn verify_frame(a: &MerkleTreeChangeset, b: &MerkleTreeChangeset) -> bool {
    a.roots == b.roots && a.length == b.length && a.byte_length == b.byte_length && a.fork == b.fork && a.upgraded == b.upgraded
        && a.signature == b.signature && a.hash == b.hash && a.ancestors == b.ancestors && a.original_tree_length == b.original_tree_length
        && a.original_tree_fork == b.original_tree_fork && a.batch_length == b.batch_length
}

// ---- walking the full roots below `to` (shared with the creation path) ----
/// the iterator sits on the full root found from leaf `gl` (aligned for 2^(ga+1) leaves) below `to`
pub open spec fn full_root_at(it: flat_tree::Iterator, gl: int, ga: nat, to: u64) -> bool {
    &&& it.wf() && gl >= 0 && flat_tree::leaf_aligned(gl, ga, to as int)
    &&& it.index == gl + p2(it.d@) - 1 && gl + p2(it.d@ + 1) <= to && to < gl + p2(it.d@ + 2)
}
pub proof fn lemma_full_root_small(it: flat_tree::Iterator, gl: int, ga: nat, to: u64)
    requires full_root_at(it, gl, ga, to), to < 0x400_0000_0000
    ensures it.d@ <= 41, it.index < to, it.factor <= to, it.index + it.factor <= 0x3fff_ffff_ffff_ffff, it.index + it.factor / 2 == gl + p2(it.d@ + 1) - 1,
        it.index + p2(it.d@) <= to
{
    flat_tree::lemma_p2_4x(); flat_tree::lemma_p2_pos(it.d@);
    if it.d@ + 1 > 42 { flat_tree::lemma_p2_mono(42, it.d@ + 1); }
}
/// stepping to the next tree keeps the alignment the next full_root call needs, and makes progress
pub proof fn lemma_next_tree(it: flat_tree::Iterator, gl: int, ga: nat, to: u64)
    requires full_root_at(it, gl, ga, to), to < 0x400_0000_0000
    ensures flat_tree::leaf_aligned(gl + p2(it.d@ + 1), it.d@, to as int), it.index + it.factor <= 0x3fff_ffff_ffff_ffff,
        it.index + p2(it.d@) + 1 == gl + p2(it.d@ + 1), p2(it.d@ + 1) >= 2, gl + p2(it.d@ + 1) <= to, (gl + p2(it.d@ + 1)) % 2 == 0
{
    lemma_full_root_small(it, gl, ga, to);
    flat_tree::lemma_next_aligned(gl, ga, it.d@, to as int);
    flat_tree::lemma_p2_pos(it.d@);
    vstd::arithmetic::div_mod::lemma_mod_mod(gl + p2(it.d@ + 1), 2, p2(it.d@));
    assert(p2(it.d@ + 1) == 2 * p2(it.d@));
}

/// the right sibling of a left child
pub proof fn lemma_right_sibling(it: flat_tree::Iterator)
    requires it.wf(), it.offset % 2 == 0, it.index + 2 * it.factor <= 0x7fff_ffff_ffff_ffff
    ensures depth_of((it.index + it.factor) as u64) == it.d@, offset_of((it.index + it.factor) as u64) == it.offset + 1,
        (it.offset + 1) * p2(it.d@ + 1) == it.offset * p2(it.d@ + 1) + p2(it.d@ + 1)
{
    flat_tree::lemma_p2_pos(it.d@); assert(p2(it.d@ + 1) == 2 * p2(it.d@));
    assert(it.offset <= it.offset * p2(it.d@ + 1)) by (nonlinear_arith) requires it.offset >= 0, p2(it.d@ + 1) >= 1;
    let its = flat_tree::Iterator { index: (it.index + it.factor) as u64, offset: (it.offset + 1) as u64, factor: it.factor, d: it.d };
    assert((it.offset + 1) * p2(it.d@ + 1) == it.offset * p2(it.d@ + 1) + p2(it.d@ + 1)) by (nonlinear_arith);
    assert(its.wf());
    flat_tree::lemma_node_of(its);
}
/// the last root of a mountain range is a left child; its right sibling starts at the end of the range
pub proof fn lemma_last_root(cs: &MerkleTreeChangeset, it: flat_tree::Iterator)
    requires cs.cs_mr(), cs.roots@.len() >= 1, it.wf(), it.index == cs.roots@.last().index
    ensures it.offset % 2 == 0, it.d@ == depth_of(it.index), it.offset == offset_of(it.index),
        it.offset * p2(it.d@ + 1) == root_start(cs.roots@, cs.roots@.len() - 1),
        it.index + p2(it.d@) + 1 == 2 * cs.length,
        it.index + it.factor + 1 == 2 * cs.length + p2(it.d@)
{
    let n = cs.roots@.len() as int;
    flat_tree::lemma_node_of(it);
    assert(mr_at(cs.roots@, n - 1));
    flat_tree::lemma_even_offset(it.offset as int, it.d@, root_start(cs.roots@, n - 1));
    assert(root_start(cs.roots@, n) == root_start(cs.roots@, n - 1) + p2(depth_of(cs.roots@[n - 1].index) + 1));
    assert(p2(it.d@ + 1) == 2 * p2(it.d@));
}
/// flat position at which the subtree of the node an iterator is on starts
pub open spec fn it_start(it: flat_tree::Iterator) -> int { it.offset * p2(it.d@ + 1) }
pub proof fn lemma_left_child_start(it: flat_tree::Iterator)
    requires it.wf(), it.d@ > 0
    ensures (2 * it.offset) * p2(it.d@) == it_start(it), it.index == it_start(it) + p2(it.d@) - 1, p2(it.d@ + 1) >= 4
{
    assert(p2(it.d@ + 1) == 2 * p2(it.d@));
    assert((2 * it.offset) * p2(it.d@) == it.offset * (2 * p2(it.d@))) by (nonlinear_arith);
    assert(p2(it.d@) == 2 * p2((it.d@ - 1) as nat)); flat_tree::lemma_p2_pos((it.d@ - 1) as nat);
}

/// queue of an upgrade section: peer nodes below 2^40, the unverified block root (if any) below 2^41 with at most 2^61 bytes
pub open spec fn uq_ok(q: NodeQueue) -> bool {
    &&& q.wf() && q.nodes@.len() <= 0x8_0000
    &&& forall|i: int| 0 <= i < q.nodes@.len() ==> node_ok(#[trigger] q.nodes@[i])
    &&& q.extra is Some ==> q.extra->Some_0.index < 0x200_0000_0000 && q.extra->Some_0.length <= 0x2000_0000_0000_0000
}
/// budget of verify_upgrade: after gn appended roots the changeset is still far from any overflow, and still a mountain range
pub open spec fn vu_budget(cs: &MerkleTreeChangeset, cs0: &MerkleTreeChangeset, gn: int, q: NodeQueue) -> bool {
    &&& cs.cs_wf() && cs.cs_mr() && 0 <= gn
    &&& cs0.length <= 0x200_0000_0000 && cs0.byte_length <= 0x200_0000_0000_0000 && cs0.nodes@.len() + cs0.roots@.len() <= 0x20_0100
    &&& cs.length <= cs0.length + gn * 0x200_0000_0000
    &&& cs.byte_length + (if q.extra is Some { 0x2000_0000_0000_0000int } else { 0int }) <= cs0.byte_length + gn * 0x100_0000_0000 + 0x2000_0000_0000_0000
    &&& cs.nodes@.len() + cs.roots@.len() <= cs0.nodes@.len() + cs0.roots@.len() + 2 * gn
    &&& cs.original_tree_length == cs0.original_tree_length && cs.original_tree_fork == cs0.original_tree_fork
}

/*@ fn src/tree/merkle_tree.rs fn verify_upgrade
tags: C04 C09 C03 C05
result: r
requires:
    old(changeset).cs_wf(), old(changeset).cs_mr(),
    old(changeset).length <= 0x200_0000_0000, old(changeset).byte_length <= 0x200_0000_0000_0000,
    old(changeset).nodes@.len() + old(changeset).roots@.len() <= 0x20_0100,
    upgrade.start < 0x100_0000_0000 && upgrade.length < 0x100_0000_0000,
    nodes_ok(upgrade.nodes@) && nodes_ok(upgrade.additional_nodes@),
    block_root is Some ==> block_root->Some_0.index < 0x200_0000_0000 && block_root->Some_0.length <= 0x2000_0000_0000_0000
ensures:
    // C04 signature gate: an upgrade is accepted only if the supplied signature verifies, under the replica's public key,
    // over namespace ++ hash(final roots) ++ final length ++ the proof's fork; exactly that hash and signature are recorded
    r is Ok ==> final(changeset).fork == fork && upgrade.signature@.len() == 64
        && final(changeset).signature is Some && final(changeset).signature->Some_0.sig_bytes() == upgrade.signature@
        && final(changeset).hash is Some && final(changeset).hash->Some_0@ == crypto::h_tree(final(changeset).roots@)
        && crypto::sig_ok(*public_key, crypto::spec_signable(crypto::h_tree(final(changeset).roots@), final(changeset).length, fork), final(changeset).signature->Some_0),
    // nothing that guards commitability is touched
    final(changeset).original_tree_length == old(changeset).original_tree_length && final(changeset).original_tree_fork == old(changeset).original_tree_fork,
    // the roots that a commit would install still form a mountain range ending at the new length
    r is Ok ==> final(changeset).cs_wf() && final(changeset).cs_mr()
sub `\n    Ok\(([^\n]+)\)\n\}\s*$` => `\n    { let vp_ret: bool = \1;\n    // C04: `true` tells verify_proof that the root recomputed from the block / hash / seek section needs no comparison with a\n    // locally stored node - allowed only when that root was taken out of the queue, i.e. hashed into the signed roots\n    assert(vp_ret ==> q.extra is None);\n    Ok(vp_ret) }\n}`
first:
    let ghost cs0 = *changeset;
    let ghost mut gn: int = 0;
    let ghost mut gl: int = 0;
    let ghost mut ga: nat = 61;
before `let mut grow: bool = !changeset.roots.is_empty();`:
    proof { assert(uq_ok(q)); }
before `while iter.full_root(to) {`:
    proof { flat_tree::lemma_p2_62(); assert(flat_tree::leaf_aligned(0, 61, to as int)); assert(root_start(changeset.roots@, 0) == 0); }
loop 1:
    invariant
        cs0.original_tree_length == old(changeset).original_tree_length, cs0.original_tree_fork == old(changeset).original_tree_fork,
        to == 2 * (upgrade.start + upgrade.length), to < 0x400_0000_0000, uq_ok(q),
        vu_budget(changeset, &cs0, gn, q), gn + (if q.extra is Some { 1int } else { 0int }) <= q.i + 1,
        iter.wf(), iter.d@ == 0, iter.index == gl, 0 <= gl <= to, flat_tree::leaf_aligned(gl, ga, to as int),
        grow ==> i <= changeset.roots@.len() && gl == root_start(changeset.roots@, i as int),
        !grow ==> gl == 2 * changeset.length
    decreases to - gl
before `if i < changeset.roots.len() && changeset.roots[i].index == iter.index() {`:
    let ghost grow0 = grow;
    proof { assert(full_root_at(iter, gl, ga, to)); lemma_full_root_small(iter, gl, ga, to); }
before `i += 1;`#1:
    proof {
        if !grow {
            lemma_mr_index_below(changeset.roots@, i as int, changeset.roots@.len() as int);
            assert(false);
        }
        flat_tree::lemma_node_of(iter);
        assert(root_start(changeset.roots@, i + 1) == root_start(changeset.roots@, i as int) + p2(depth_of(changeset.roots@[i as int].index) + 1));
        lemma_next_tree(iter, gl, ga, to); ga = iter.d@; gl = gl + p2(iter.d@ + 1);
    }
before `iter.seek(changeset.roots[changeset.roots.len() - 1].index);`#1:
    let ghost it_root = iter;
loop 2:
    invariant
        cs0.original_tree_length == old(changeset).original_tree_length, cs0.original_tree_fork == old(changeset).original_tree_fork,
        to < 0x400_0000_0000, uq_ok(q), vu_budget(changeset, &cs0, gn, q), gn + (if q.extra is Some { 1int } else { 0int }) <= q.i + 1,
        iter.wf(), changeset.roots@.len() >= 1, iter.index == changeset.roots@.last().index,
        it_root.wf(), full_root_at(it_root, gl, ga, to), root_index == it_root.index
    decreases q.length
before `changeset.append_root(q.shift(iter.sibling())?, &mut iter);`:
    proof {
        lemma_index_depth(iter);
        lemma_last_root(changeset, iter);
        lemma_right_sibling(iter);
    }
after `changeset.append_root(q.shift(iter.sibling())?, &mut iter);`:
    proof { gn = gn + 1; }
before `iter.next_tree();`#2:
    proof {
        // the merged last root is the full root the walk was on: the range now ends where that tree ends
        flat_tree::lemma_node_of(iter); flat_tree::lemma_node_of(it_root);
        assert(iter == it_root);
        lemma_last_root(changeset, iter);
        lemma_next_tree(iter, gl, ga, to); ga = iter.d@; gl = gl + p2(iter.d@ + 1);
    }
before `changeset.append_root(q.shift(iter.index())?, &mut iter);`:
    let ghost d0 = iter.d@;
    proof {
        assert(gl == 2 * changeset.length);
        flat_tree::lemma_node_of(iter);
        lemma_index_depth(iter);
        lemma_next_tree(iter, gl, ga, to);
    }
after `changeset.append_root(q.shift(iter.index())?, &mut iter);`:
    proof { gn = gn + 1; }
before `iter.next_tree();`#3:
    proof {
        lemma_index_depth(iter);
        lemma_last_root(changeset, iter);
        assert(p2(d0 + 1) == 2 * p2(d0));
        ga = d0; gl = gl + p2(d0 + 1);
    }
before `iter.seek(changeset.roots[changeset.roots.len() - 1].index);`#2:
    let ghost qf = q;
after `iter.seek(changeset.roots[changeset.roots.len() - 1].index);`#2:
    proof { lemma_last_root(changeset, iter); }
loop 3:
    invariant
        cs0.original_tree_length == old(changeset).original_tree_length, cs0.original_tree_fork == old(changeset).original_tree_fork,
        nodes_ok(extra@), i <= extra@.len(), q == qf, uq_ok(q),
        vu_budget(changeset, &cs0, gn, q), gn + (if q.extra is Some { 1int } else { 0int }) <= q.i + 1 + i,
        iter.wf(), changeset.roots@.len() >= 1, iter.index == changeset.roots@.last().index,
        iter.offset % 2 == 0, iter.d@ == depth_of(iter.index), iter.index < 0x200_0000_0000
    decreases extra@.len() - i
before `changeset.append_root(extra[i].clone(), &mut iter);`:
    proof {
        // the loop condition moved the iterator to the right sibling of the last root: it starts where the range ends
        flat_tree::lemma_node_of(iter);
        lemma_index_depth(iter);
        assert(p2(iter.d@ + 1) == 2 * p2(iter.d@));
        assert(iter.index == changeset.roots@.last().index + iter.factor);
        let n = changeset.roots@.len() as int;
        assert(mr_at(changeset.roots@, n - 1));
        assert(root_start(changeset.roots@, n) == root_start(changeset.roots@, n - 1) + p2(depth_of(changeset.roots@[n - 1].index) + 1));
    }
after `changeset.append_root(extra[i].clone(), &mut iter);`:
    proof { gn = gn + 1; lemma_last_root(changeset, iter); }
loop 4:
    invariant
        cs0.original_tree_length == old(changeset).original_tree_length, cs0.original_tree_fork == old(changeset).original_tree_fork,
        nodes_ok(extra@), i <= extra@.len(), q == qf, uq_ok(q),
        vu_budget(changeset, &cs0, gn, q), gn + (if q.extra is Some { 1int } else { 0int }) <= q.i + 1 + i,
        iter.wf(), iter.d@ <= 43,
        i < extra@.len() ==> it_start(iter) == 2 * changeset.length
    decreases extra@.len() - i
before `while i < extra.len() {`:
    proof {
        lemma_index_depth(iter);
        if i < extra@.len() {
            // the previous loop stopped on the right sibling of the last root
            let o = iter.offset - 1;
            assert((o + 1) * p2(iter.d@ + 1) == o * p2(iter.d@ + 1) + p2(iter.d@ + 1)) by (nonlinear_arith);
            let n = changeset.roots@.len() as int;
            assert(mr_at(changeset.roots@, n - 1));
            assert(root_start(changeset.roots@, n) == root_start(changeset.roots@, n - 1) + p2(depth_of(changeset.roots@[n - 1].index) + 1));
        }
    }
loop 5:
    invariant
        cs0.original_tree_length == old(changeset).original_tree_length, cs0.original_tree_fork == old(changeset).original_tree_fork,
        changeset.original_tree_length == cs0.original_tree_length, changeset.original_tree_fork == cs0.original_tree_fork,
        iter.wf(), iter.d@ <= 43, it_start(iter) == 2 * changeset.length, node.index < 0x100_0000_0000
    decreases iter.d@
before `iter.left_child();`:
    proof {
        assert(p2(1) == 2 * p2(0) && p2(0) == 1);
        if iter.d@ == 0 { assert(iter.factor == 2); }
        lemma_left_child_start(iter);
    }
before `changeset.append_root(node, &mut iter);`:
    proof {
        flat_tree::lemma_node_of(iter);
        assert(p2(iter.d@ + 1) == 2 * p2(iter.d@));
        flat_tree::lemma_p2_4x(); flat_tree::lemma_p2_mono(iter.d@ + 1, 44);
    }
after `changeset.append_root(node, &mut iter);`:
    proof { gn = gn + 1; lemma_last_root(changeset, iter); lemma_index_depth(iter); lemma_right_sibling(iter); }
@*/

/*@ fn src/tree/merkle_tree.rs fn index_from_info
tags: C09 C03
result: r
ensures:
    r == info.index / 40
@*/

/*@ fn src/tree/merkle_tree.rs fn node_from_bytes
tags: C05 C06 C09
result: r
requires:
    data@.len() >= 8
ensures:
    // a 40-byte tree record: little-endian u64 size, then the hash
    r is Ok, r->Ok_0.index == *index, r->Ok_0.hash@ == data@.skip(8), le_bytes(r->Ok_0.length, 8) == data@.subrange(0, 8)
@*/

/// the size field of a 40-byte tree record: the u64 whose little-endian bytes are the first 8 bytes
pub open spec fn rec_size(data: Seq<u8>) -> u64 { choose|v: u64| le_bytes(v, 8) == data.subrange(0, 8) }
pub proof fn lemma_rec_size(v: u64, data: Seq<u8>)
    requires le_bytes(v, 8) == data.subrange(0, 8)
    ensures rec_size(data) == v
{ lemma_le_bytes_inj(rec_size(data), v, 8); }
/// every 40-byte record read from the local tree store carries a size below 2^48
pub open spec fn infos_small(infos: Option<&[StoreInfo]>) -> bool {
    infos is Some ==> forall|i: int| 0 <= i < infos->Some_0@.len() && (#[trigger] infos->Some_0@[i]).data is Some
        ==> rec_size(infos->Some_0@[i].data->Some_0@) <= 0xffff_ffff_ffff
}
// ---- byte offsets: one consistent assignment of block sizes ----
/// bytes stored before block `i`, under one assignment of sizes to blocks.  Uninterpreted: whatever is proved about it holds
/// for every assignment (the two axioms only say that it is a prefix sum of non-negative sizes).
pub uninterp spec fn boff(i: int) -> int;
#[verifier::external_body]
pub broadcast proof fn axiom_boff_mono(i: int, j: int)
    requires 0 <= i <= j
    ensures 0 <= #[trigger] boff(i) <= #[trigger] boff(j), boff(0) == 0
{}
/// number of the first block below the tree node `index`
pub open spec fn leaf_no(index: u64) -> int { offset_of(index) * p2(depth_of(index)) }
/// bytes of the blocks below the tree node `index`
pub open spec fn span_len(index: u64) -> int { boff(leaf_no(index) + p2(depth_of(index))) - boff(leaf_no(index)) }
pub proof fn lemma_leaf_no_even(index: u64)
    requires index % 2 == 0
    ensures leaf_no(index) == index / 2, depth_of(index) == 0
{
    flat_tree::lemma_node_of_index(index);
    let d = depth_of(index); let o = offset_of(index);
    flat_tree::lemma_parity(d, o);
    assert(p2(0) == 1); assert(p2(1) == 2);
}
/// root k of a mountain range spans the blocks from root_start(k)/2 to root_start(k+1)/2
pub proof fn lemma_root_span(roots: Seq<Node>, k: int)
    requires 0 <= k < roots.len(), mr_at(roots, k), root_start(roots, k) % 2 == 0, root_start(roots, k) >= 0
    ensures leaf_no(roots[k].index) == root_start(roots, k) / 2,
        leaf_no(roots[k].index) + p2(depth_of(roots[k].index)) == root_start(roots, k + 1) / 2,
        span_len(roots[k].index) == boff(root_start(roots, k + 1) / 2) - boff(root_start(roots, k) / 2)
{
    let idx = roots[k].index;
    flat_tree::lemma_node_of_index(idx);
    let d = depth_of(idx); let o = offset_of(idx);
    let st = root_start(roots, k);
    assert(p2(d + 1) == 2 * p2(d));
    assert(o * p2(d + 1) == 2 * (o * p2(d))) by (nonlinear_arith) requires p2(d + 1) == 2 * p2(d);
    assert(root_start(roots, k + 1) == st + p2(d + 1));
}
/// a node (d, o): its first block and its children's
pub proof fn lemma_child_leaf_no(d: nat, o: int)
    requires d > 0, o >= 0
    ensures (2 * o) * p2((d - 1) as nat) == o * p2(d), (2 * o + 1) * p2((d - 1) as nat) == o * p2(d) + p2((d - 1) as nat),
        (2 * o + 1) * p2((d - 1) as nat) + p2((d - 1) as nat) == o * p2(d) + p2(d)
{
    let q = p2((d - 1) as nat);
    assert(p2(d) == 2 * q);
    assert((2 * o) * q == o * (2 * q)) by (nonlinear_arith);
    assert((2 * o + 1) * q == o * (2 * q) + q) by (nonlinear_arith);
}
/// every 40-byte record read from the local tree store carries the size of the blocks below its node
pub open spec fn infos_sized(infos: Option<&[StoreInfo]>) -> bool {
    infos is Some ==> forall|i: int| 0 <= i < infos->Some_0@.len() && (#[trigger] infos->Some_0@[i]).data is Some
        ==> rec_size(infos->Some_0@[i].data->Some_0@) == span_len((infos->Some_0@[i].index / 40) as u64)
}
pub open spec fn map_sized(nodes: IntMap<Option<Node>>) -> bool {
    forall|k: u64| #![trigger nodes@[k]] nodes@.contains_key(k) && nodes@[k] is Some ==> nodes@[k]->Some_0.length == span_len(k)
}
/// every node of the map is stored under its own index
pub open spec fn map_keyed(nodes: IntMap<Option<Node>>) -> bool {
    forall|k: u64| #![trigger nodes@[k]] nodes@.contains_key(k) && nodes@[k] is Some ==> nodes@[k]->Some_0.index == k
}
pub open spec fn map_small(nodes: IntMap<Option<Node>>) -> bool {
    forall|k: u64| #![trigger nodes@[k]] nodes@.contains_key(k) && nodes@[k] is Some ==> nodes@[k]->Some_0.length <= 0xffff_ffff_ffff
}
impl MerkleTree {
    /// the stored tree is long enough for 2*length to be computed (the length of a core is below 2^40)
    pub open spec fn t_wf(&self) -> bool { self.length <= 0xff_ffff_ffff && self.byte_length <= 0xff_ffff_ffff_ffff && self.truncate_to <= 0xff_ffff_ffff && self.roots@.len() <= 64 }

    /// the node this replica already trusts for `index`: the unflushed (verified, not yet written) one, else the one just read from the tree store
    pub open spec fn trusted(&self, index: u64, nodes: &IntMap<Option<Node>>) -> Option<Node> {
        if self.unflushed@.contains_key(index) { Some(self.unflushed@[index]) }
        else if nodes@.contains_key(index) { nodes@[index] }
        else { None }
    }

    /// pending nodes are stored under their own index (add_node / commit insert `node.index -> node`)
    pub open spec fn unflushed_keyed(&self) -> bool {
        forall|k: u64| #![trigger self.unflushed@[k]] self.unflushed@.contains_key(k) ==> self.unflushed@[k].index == k
    }
    /// the replica holds a usable node for `index` (not blank, not being truncated away)
    pub open spec fn present(&self, index: u64, nodes: &IntMap<Option<Node>>) -> bool {
        if self.unflushed@.contains_key(index) { !(self.unflushed@[index].blank || (self.truncated && self.unflushed@[index].index >= 2 * self.truncate_to)) }
        else { nodes@.contains_key(index) && nodes@[index] is Some && !nodes@[index]->Some_0.blank }
    }

    /*@ fn src/tree/merkle_tree.rs MerkleTree::node
    tags: C09 C03 C04
    result: r
    requires:
        self.t_wf(), index < 0x4_0000_0000_0000
    ensures:
        // an instruction reads exactly the 40-byte record of that node from the tree store
        r is Ok && r->Ok_0 is Left ==> r->Ok_0->Left_0.store == Store::Tree && r->Ok_0->Left_0.info_type == StoreInfoType::Content
            && r->Ok_0->Left_0.index == 40 * index && r->Ok_0->Left_0.length == Some(40u64) && r->Ok_0->Left_0.allow_miss == allow_miss,
        r is Ok && r->Ok_0 is Right && r->Ok_0->Right_0 is Some ==> !r->Ok_0->Right_0->Some_0.blank,
        r is Ok && r->Ok_0 is Right && r->Ok_0->Right_0 is None ==> allow_miss,
        // a node that is returned is the trusted one (never one made up from the request)
        r is Ok && r->Ok_0 is Right && r->Ok_0->Right_0 is Some ==> self.trusted(index, nodes) is Some && Node::eqv(r->Ok_0->Right_0->Some_0, self.trusted(index, nodes)->Some_0),
        // and nothing is read from disk for a node that is already known
        r is Ok && r->Ok_0 is Left ==> self.trusted(index, nodes) is None && !self.unflushed@.contains_key(index) && !nodes@.contains_key(index),
        // Some / None tell exactly whether the node is present
        r is Ok && r->Ok_0 is Right ==> (r->Ok_0->Right_0 is Some) == self.present(index, nodes),
        // ... and it is the node of that index
        self.unflushed_keyed() && map_keyed(*nodes) && r is Ok && r->Ok_0 is Right && r->Ok_0->Right_0 is Some ==> r->Ok_0->Right_0->Some_0.index == index
    @*/
    /*@ fn src/tree/merkle_tree.rs MerkleTree::required_node
    tags: C09 C03 C04
    result: r
    requires:
        self.t_wf(), index < 0x4_0000_0000_0000
    ensures:
        r is Ok && r->Ok_0 is Left ==> r->Ok_0->Left_0.store == Store::Tree && r->Ok_0->Left_0.index == 40 * index && !r->Ok_0->Left_0.allow_miss,
        r is Ok && r->Ok_0 is Right ==> self.trusted(index, nodes) is Some && Node::eqv(r->Ok_0->Right_0, self.trusted(index, nodes)->Some_0),
        self.unflushed_keyed() && map_keyed(*nodes) && r is Ok && r->Ok_0 is Right ==> r->Ok_0->Right_0.index == index
    @*/
    /*@ fn src/tree/merkle_tree.rs MerkleTree::optional_node
    tags: C09 C03
    result: r
    requires:
        self.t_wf(), index < 0x4_0000_0000_0000
    ensures:
        r is Ok && r->Ok_0 is Left ==> r->Ok_0->Left_0.store == Store::Tree && r->Ok_0->Left_0.index == 40 * index && r->Ok_0->Left_0.allow_miss,
        r is Ok && r->Ok_0 is Right ==> (r->Ok_0->Right_0 is Some) == self.present(index, nodes)
    @*/
    /*@ fn src/tree/merkle_tree.rs MerkleTree::infos_to_nodes
    tags: C09 C03
    result: r
    requires:
        infos is Some ==> forall|i: int| 0 <= i < infos->Some_0@.len() ==> ((#[trigger] infos->Some_0@[i]).miss || (infos->Some_0@[i].data is Some && infos->Some_0@[i].data->Some_0@.len() >= 8))
    ensures:
        *final(self) == *old(self), r is Ok,
        // records whose size field is below 2^48 give nodes whose length is
        infos_small(infos) ==> map_small(r->Ok_0),
        map_keyed(r->Ok_0),
        // ... and records that carry the sizes of one assignment give nodes that do
        infos_sized(infos) ==> map_sized(r->Ok_0)
    sub `for info in infos \{` => `for info in it: infos.iter() {`
    loop 1:
        invariant
            *self == *old(self), map_keyed(nodes),
            forall|i: int| 0 <= i < infos@.len() ==> ((#[trigger] infos@[i]).miss || (infos@[i].data is Some && infos@[i].data->Some_0@.len() >= 8)),
            infos_small(Some(infos)) ==> map_small(nodes),
            infos_sized(Some(infos)) ==> map_sized(nodes)
    after `let node = node_from_bytes(&index, info.data.as_ref().unwrap())?;`:
        proof { lemma_rec_size(node.length, info.data->Some_0@); }
    @*/
    /*@ fn src/tree/merkle_tree.rs MerkleTree::changeset
    tags: C04 C03 C01
    result: r
    ensures:
        r.length == self.length, r.ancestors == self.length, r.byte_length == self.byte_length, r.batch_length == 0,
        r.fork == self.fork, nodes_same(r.roots@, self.roots@), r.nodes@.len() == 0, r.hash is None, r.signature is None, !r.upgraded,
        r.original_tree_length == self.length, r.original_tree_fork == self.fork
    @*/
}
impl MerkleTreeChangeset {
    /*@ fn src/tree/merkle_tree_changeset.rs MerkleTreeChangeset::new
    tags: C04 C03 C01
    result: r
    ensures:
        r.length == length, r.ancestors == length, r.byte_length == byte_length, r.batch_length == 0, r.fork == fork,
        r.roots == roots, r.nodes@.len() == 0, r.hash is None, r.signature is None, !r.upgraded,
        r.original_tree_length == length, r.original_tree_fork == fork
    @*/
}

pub proof fn lemma_roots_sum_same(a: Seq<Node>, b: Seq<Node>)
    requires nodes_same(a, b)
    ensures roots_sum(a) == roots_sum(b)
    decreases a.len()
{
    if a.len() > 0 {
        assert(nodes_same(a.drop_last(), b.drop_last())) by {
            assert forall|i: int| 0 <= i < a.drop_last().len() implies Node::eqv(#[trigger] a.drop_last()[i], b.drop_last()[i]) by { assert(Node::eqv(a[i], b[i])); }
        }
        lemma_roots_sum_same(a.drop_last(), b.drop_last());
        assert(Node::eqv(a[a.len() - 1], b[a.len() - 1]));
    }
}
pub open spec fn infos_readable(infos: Option<&[StoreInfo]>) -> bool {
    infos is Some ==> forall|i: int| 0 <= i < infos->Some_0@.len() ==> ((#[trigger] infos->Some_0@[i]).miss || (infos->Some_0@[i].data is Some && infos->Some_0@[i].data->Some_0@.len() >= 8))
}
impl MerkleTree {
    /*@ fn src/tree/merkle_tree.rs MerkleTree::verify_proof
    tags: C04 C09 C03
    result: r
    requires:
        old(self).t_wf(), proof_ok(proof), infos_readable(infos),
        old(self).roots@.len() <= 64, forall|i: int| 0 <= i < old(self).roots@.len() ==> (#[trigger] old(self).roots@[i]).index < 0x200_0000_0000,
        roots_sum(old(self).roots@) == old(self).byte_length,
        // representation invariant of the tree (ASSUMED at this entry point): its roots are the mountain range of `length` leaves
        mr(old(self).roots@) && root_start(old(self).roots@, old(self).roots@.len() as int) == 2 * old(self).length
    ensures:
        // verification never changes the tree
        *final(self) == *old(self),
        r is Ok && r->Ok_0 is Left ==> r->Ok_0->Left_0@.len() == 1 && r->Ok_0->Left_0@[0].store == Store::Tree,
        // the changeset handed to the core is made from the current tree (so commitability is decided against it) ...
        r is Ok && r->Ok_0 is Right ==> r->Ok_0->Right_0.original_tree_length == old(self).length && r->Ok_0->Right_0.original_tree_fork == old(self).fork,
        // ... whose roots are again the mountain range of its length (so a commit preserves the tree's root invariant),
        r is Ok && r->Ok_0 is Right ==> r->Ok_0->Right_0.cs_mr(),
        // ... C04: without an upgrade section nothing a commit installs differs from the tree,
        r is Ok && r->Ok_0 is Right && proof.upgrade is None ==> !r->Ok_0->Right_0.upgraded && r->Ok_0->Right_0.length == old(self).length
            && r->Ok_0->Right_0.byte_length == old(self).byte_length && r->Ok_0->Right_0.fork == old(self).fork,
        // ... and with one the signature gate has been passed for exactly the roots / length / fork it carries
        r is Ok && r->Ok_0 is Right && proof.upgrade is Some ==> r->Ok_0->Right_0.fork == proof.fork
            && r->Ok_0->Right_0.signature is Some && r->Ok_0->Right_0.hash is Some && r->Ok_0->Right_0.hash->Some_0@.len() == 32
            && crypto::sig_ok(*public_key, crypto::spec_signable(crypto::h_tree(r->Ok_0->Right_0.roots@), r->Ok_0->Right_0.length, proof.fork), r->Ok_0->Right_0.signature->Some_0)
    before `if let Some(unverified_block_root_node) = unverified_block_root_node {`:
        let ghost unverified = unverified_block_root_node;
    before `if instructions.is_empty() {`:
        // C04 stored-root gate: a root that no accepted upgrade has vouched for is accepted only if the node this replica
        // already trusts at that index (unflushed or just read from its own tree store) carries the same hash ...
        assert(unverified is Some && instructions@.len() == 0 ==> self.trusted(unverified->Some_0.index, &nodes) is Some
            && self.trusted(unverified->Some_0.index, &nodes)->Some_0.hash@ == unverified->Some_0.hash@);
        // ... and for a block section without upgrade that root is the one recomputed from the received bytes
        assert(proof.upgrade is None && proof.block is Some && no_seek_nodes_o(proof.seek) ==> unverified is Some && sn(unverified->Some_0) == block_root(&proof.block->Some_0));
    after `let mut changeset = self.changeset();`:
        proof {
            lemma_roots_sum_same(changeset.roots@, self.roots@);
            assert forall|k: int| 0 <= k < changeset.roots@.len() implies (#[trigger] changeset.roots@[k]).index == self.roots@[k].index by { assert(Node::eqv(changeset.roots@[k], self.roots@[k])); }
            lemma_mr_same(changeset.roots@, self.roots@);
            assert forall|i: int| 0 <= i < changeset.roots@.len() implies (#[trigger] changeset.roots@[i]).index < 0x200_0000_0000 by { assert(Node::eqv(changeset.roots@[i], self.roots@[i])); }
        }
    @*/
}
