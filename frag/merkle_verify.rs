// ---- src/tree/merkle_tree.rs: proof verification path ----
/*@ item src/tree/merkle_tree.rs struct MerkleTree @*/
/*@ item src/tree/merkle_tree_changeset.rs struct MerkleTreeChangeset @*/
/*@ item src/tree/merkle_tree.rs const NODE_SIZE @*/
/*@ item src/tree/merkle_tree.rs struct NodeQueue @*/
/*@ item src/tree/merkle_tree.rs struct NormalizedData @*/
/*@ item src/common/peer.rs struct Proof @*/
/*@ item src/common/peer.rs struct DataBlock @*/
/*@ item src/common/peer.rs struct DataHash @*/
/*@ item src/common/peer.rs struct DataSeek @*/
/*@ item src/common/peer.rs struct DataUpgrade @*/

impl Node {
    /*@ fn src/common/node.rs Node::new ; assumed
    result: r
    ensures:
        r.index == index, r.hash@ == hash@, r.length == length, r.canonical()
    @*/
}

/// every numeric field a peer controls is below 2^40 (the property's bound)
pub open spec fn node_ok(n: Node) -> bool { n.index < 0x100_0000_0000 && n.length < 0x100_0000_0000 }
pub open spec fn nodes_ok(s: Seq<Node>) -> bool { s.len() <= 0x10_0000 && forall|i: int| 0 <= i < s.len() ==> node_ok(#[trigger] s[i]) }

impl NodeQueue {
    pub open spec fn wf(&self) -> bool {
        self.i <= self.nodes@.len() && self.length == (self.nodes@.len() - self.i) + (if self.extra is Some { 1int } else { 0int })
    }
    /*@ fn src/tree/merkle_tree.rs NodeQueue::new
    tags: C04 C09 C03
    result: r
    requires:
        nodes@.len() <= 0x10_0000
    ensures:
        r.wf(), r.i == 0, r.nodes == nodes, r.extra == extra
    @*/
    /*@ fn src/tree/merkle_tree.rs NodeQueue::shift
    tags: C04 C09 C03
    result: r
    requires:
        old(self).wf()
    ensures:
        final(self).nodes == old(self).nodes,
        r is Ok ==> final(self).wf(),
        // a node is handed out only if it carries the index the verifier expects at this position
        r is Ok ==> r->Ok_0.index == index && final(self).length == old(self).length - 1
            && (old(self).extra is Some && old(self).extra->Some_0.index == index
                    ==> final(self).extra is None && final(self).i == old(self).i && Node::eqv(r->Ok_0, old(self).extra->Some_0))
            && (!(old(self).extra is Some && old(self).extra->Some_0.index == index)
                    ==> final(self).extra == old(self).extra && final(self).i == old(self).i + 1 && Node::eqv(r->Ok_0, old(self).nodes@[old(self).i as int])),
        r is Err ==> final(self).length == old(self).length
    @*/
}

/*@ fn src/tree/merkle_tree.rs fn hypercore_index_into_merkle_tree_index
tags: C09 C03
result: r
requires:
    hypercore_index <= 0x7fff_ffff_ffff_ffff
ensures:
    r == 2 * hypercore_index
@*/

/*@ fn src/tree/merkle_tree.rs fn parent_node
tags: C04 C05 C09
result: r
requires:
    left.length + right.length <= u64::MAX
ensures:
    r.index == index, r.length == left.length + right.length, r.hash@ == crypto::h_parent(*left, *right), r.hash@.len() == 32
@*/

/*@ fn src/tree/merkle_tree.rs fn block_node
tags: C04 C05 C09
result: r
ensures:
    // the leaf binds the received bytes: hash over type, size and data
    r.index == index, r.length == value@.len(), r.hash@ == crypto::h_leaf(value@), r.hash@.len() == 32
@*/

/*@ fn src/tree/merkle_tree.rs fn normalize_data
tags: C04 C09
result: r
requires:
    block is Some ==> block->Some_0.index <= 0x7fff_ffff_ffff_ffff
ensures:
    (r is None) == (block is None && hash is None),
    block is Some ==> r->Some_0.index == 2 * block->Some_0.index && r->Some_0.value is Some && r->Some_0.value->Some_0@ == block->Some_0.value@
        && nodes_same(r->Some_0.nodes@, block->Some_0.nodes@)
@*/
pub open spec fn nodes_same(a: Seq<Node>, b: Seq<Node>) -> bool {
    a.len() == b.len() && forall|i: int| 0 <= i < a.len() ==> Node::eqv(#[trigger] a[i], b[i])
}

pub open spec fn roots_sum(s: Seq<Node>) -> int
    decreases s.len()
{ if s.len() == 0 { 0 } else { roots_sum(s.drop_last()) + s.last().length } }

/// an iterator positioned on a node whose index is below 2^41 is at most 41 levels up
pub proof fn lemma_index_depth(it: flat_tree::Iterator)
    requires it.wf(), it.index < 0x800_0000_0000
    ensures it.d@ <= 43, it.factor <= 0x1000_0000_0000, it.index + 2 * it.factor <= 0x7fff_ffff_ffff_ffff,
        it.index < 0x200_0000_0000 ==> it.d@ <= 41 && it.factor <= 0x400_0000_0000
{
    flat_tree::lemma_p2_62();
    reveal_with_fuel(flat_tree::p2, 46);
    flat_tree::lemma_p2_pos(it.d@);
    if it.d@ > 43 { flat_tree::lemma_p2_mono(44, it.d@); }
    if it.d@ > 41 { flat_tree::lemma_p2_mono(42, it.d@); }
    assert(it.offset * flat_tree::p2(it.d@ + 1) >= 0) by (nonlinear_arith) requires it.offset >= 0, flat_tree::p2(it.d@ + 1) >= 0;
    flat_tree::lemma_p2_pos(it.d@ + 1);
    if it.d@ + 1 <= 44 { flat_tree::lemma_p2_mono(it.d@ + 1, 44); }
    if it.d@ + 1 <= 42 { flat_tree::lemma_p2_mono(it.d@ + 1, 42); }
}
pub proof fn lemma_roots_sum_nonneg(s: Seq<Node>)
    ensures roots_sum(s) >= 0
    decreases s.len()
{ if s.len() > 0 { lemma_roots_sum_nonneg(s.drop_last()); } }

impl MerkleTreeChangeset {
    pub open spec fn cs_wf(&self) -> bool {
        &&& self.length <= 0x200_0000_0000 && self.byte_length <= 0x2000_0000_0000_0000
        &&& self.roots@.len() <= 0x1000 && self.nodes@.len() <= 0x40_0000
        &&& roots_sum(self.roots@) == self.byte_length
        &&& forall|i: int| 0 <= i < self.roots@.len() ==> (#[trigger] self.roots@[i]).index < 0x200_0000_0000
    }

    /*@ fn src/tree/merkle_tree_changeset.rs MerkleTreeChangeset::append_root
    tags: C04 C05 C09 C03
    requires:
        old(self).cs_wf(), old(iter).wf(), node.index == old(iter).index, node_ok(node),
        old(self).nodes@.len() <= 0x3f_0000, old(self).roots@.len() < 0x1000,
        old(self).length + old(iter).factor / 2 <= 0x200_0000_0000,
        old(self).byte_length + node.length <= 0x2000_0000_0000_0000
    ensures:
        final(self).cs_wf(), final(self).upgraded,
        final(self).length == old(self).length + old(iter).factor / 2,
        final(self).byte_length == old(self).byte_length + node.length,
        final(self).roots@.len() >= 1 && final(self).roots@.len() <= old(self).roots@.len() + 1,
        final(self).nodes@.len() <= old(self).nodes@.len() + 1 + old(self).roots@.len(),
        // the iterator is left on the last root
        final(iter).wf() && final(iter).index == final(self).roots@.last().index,
        final(self).fork == old(self).fork, final(self).ancestors == old(self).ancestors, final(self).batch_length == old(self).batch_length,
        final(self).hash == old(self).hash, final(self).signature == old(self).signature,
        final(self).original_tree_length == old(self).original_tree_length, final(self).original_tree_fork == old(self).original_tree_fork
    before `self.length += iter.factor() / 2;`:
        proof { lemma_index_depth(*iter); }
        let ghost roots0 = self.roots@;
    before `while self.roots.len() > 1 {`:
        proof { assert(self.roots@.drop_last() =~= roots0); }
    loop 1:
        invariant
            iter.wf(), self.roots@.len() >= 1, iter.index == self.roots@.last().index,
            self.roots@.len() <= old(self).roots@.len() + 1,
            roots_sum(self.roots@) == self.byte_length, self.byte_length <= 0x2000_0000_0000_0000, self.length <= 0x200_0000_0000,
            forall|i: int| 0 <= i < self.roots@.len() ==> (#[trigger] self.roots@[i]).index < 0x200_0000_0000,
            self.nodes@.len() + self.roots@.len() <= old(self).nodes@.len() + old(self).roots@.len() + 2,
            self.upgraded, self.length == old(self).length + old(iter).factor / 2, self.byte_length == old(self).byte_length + node.length,
            self.fork == old(self).fork, self.ancestors == old(self).ancestors, self.batch_length == old(self).batch_length,
            self.hash == old(self).hash, self.signature == old(self).signature,
            self.original_tree_length == old(self).original_tree_length, self.original_tree_fork == old(self).original_tree_fork
        decreases self.roots@.len()
    before `if iter.sibling() != b.index {`:
        proof { lemma_index_depth(*iter); }
        let ghost it0 = *iter;
        let ghost rs = self.roots@;
    before `iter.sibling(); // unset`:
        proof { lemma_index_depth(*iter); }
    before `let node = Node::new(`:
        proof {
            lemma_index_depth(*iter);
            assert(rs.last() == *a); assert(rs.drop_last().last() == *b);
            assert(roots_sum(rs) == roots_sum(rs.drop_last()) + a.length);
            assert(roots_sum(rs.drop_last()) == roots_sum(rs.drop_last().drop_last()) + b.length);
            lemma_roots_sum_nonneg(rs.drop_last().drop_last());
        }
    after `let _ = &self.roots.push(node);`:
        proof {
            assert(self.roots@.drop_last() =~= rs.drop_last().drop_last());
        }
    @*/
}
