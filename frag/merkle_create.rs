// ---- src/tree/merkle_tree.rs: proof creation from a peer's request (C09: no panic, terminates; C03 ingredients) ----
/*@ item src/tree/merkle_tree.rs struct NormalizedIndexed @*/
/*@ item src/tree/merkle_tree.rs struct LocalProof @*/
/*@ item src/common/peer.rs struct RequestBlock @*/
/*@ item src/common/peer.rs struct RequestSeek @*/
/*@ item src/common/peer.rs struct RequestUpgrade @*/
/*@ item src/common/peer.rs struct ValuelessProof @*/
/*@ item src/common/node.rs struct NodeByteRange @*/

use flat_tree::{anc, anc_idx};

/// every instruction asks for a record of the tree store (what the core's read-retry drivers rely on)
pub open spec fn instr_tree(ins: Seq<StoreInfoInstruction>) -> bool { forall|k: int| 0 <= k < ins.len() ==> (#[trigger] ins[k]).store == Store::Tree }
pub open spec fn left_ok<T>(r: Result<Either<Vec<StoreInfoInstruction>, T>, HypercoreError>) -> bool {
    r is Ok && r->Ok_0 is Left ==> r->Ok_0->Left_0@.len() > 0 && instr_tree(r->Ok_0->Left_0@)
}

/// an iterator positioned at most 42 levels up, on a node below 2^44: every move is in range
pub open spec fn it_small(it: flat_tree::Iterator) -> bool { it.wf() && it.d@ <= 42 && it.index < 0x1000_0000_0000 }
pub proof fn lemma_it_small(it: flat_tree::Iterator)
    requires it_small(it)
    ensures it.factor <= 0x800_0000_0000, it.index + 2 * it.factor <= 0x7fff_ffff_ffff_ffff
{
    flat_tree::lemma_p2_4x();
    flat_tree::lemma_p2_mono(it.d@ + 1, 43);
}
/// wf iterator on a node: (d, offset) are the node's coordinates
pub proof fn lemma_new_small(it: flat_tree::Iterator)
    requires it.wf(), it.index < 0x400_0000_0000
    ensures it.d@ <= 42, depth_of(it.index) == it.d@, offset_of(it.index) == it.offset
{
    flat_tree::lemma_p2_4x();
    flat_tree::lemma_depth_bound(it, 42);
    flat_tree::lemma_node_of(it);
}
/// extending the ancestor upwards keeps the descendant inside
pub proof fn lemma_anc_up(d: nat, o: int, dd: nat, oo: int)
    requires anc(d, o, dd, oo), oo >= 0
    ensures anc(d, o, dd + 1, oo / 2)
{
    let p = p2((dd - d) as nat);
    flat_tree::lemma_p2_pos((dd - d) as nat);
    assert(p2((dd + 1 - d) as nat) == 2 * p);
    assert((oo / 2) * (2 * p) <= oo * p) by (nonlinear_arith) requires 2 * (oo / 2) <= oo, p >= 1;
    assert((oo + 1) * p <= (oo / 2 + 1) * (2 * p)) by (nonlinear_arith) requires oo + 1 <= 2 * (oo / 2) + 2, p >= 1;
}

/*@ fn src/tree/merkle_tree.rs fn normalize_indexed
tags: C09 C03
result: r
requires:
    block is Some ==> block->Some_0.index < 0x100_0000_0000,
    hash is Some ==> hash->Some_0.index < 0x200_0000_0000
ensures:
    (r is None) == (block is None && hash is None),
    block is Some ==> r->Some_0.value && r->Some_0.index == 2 * block->Some_0.index && r->Some_0.nodes == block->Some_0.nodes && r->Some_0.last_index == block->Some_0.index,
    block is None && hash is Some ==> !r->Some_0.value && r->Some_0.index == hash->Some_0.index && r->Some_0.nodes == hash->Some_0.nodes
        && r->Some_0.last_index * 2 + 1 >= hash->Some_0.index && r->Some_0.last_index <= hash->Some_0.index
sub `(?s)hash\.map\(\|hash\| NormalizedIndexed \{(.*?)\}\)` => `match hash { Some(hash) => Some(NormalizedIndexed {\1}), None => None }`
@*/

/*@ fn src/tree/merkle_tree.rs fn nodes_to_root
tags: C09 C03
result: r
requires:
    index < 0x200_0000_0000, head < 0x400_0000_0000
ensures:
    // the sub tree root handed back is an ancestor (or the node itself) of the requested index, still below the head
    r is Ok ==> anc_idx(index, r->Ok_0) && r->Ok_0 < 0x800_0000_0000 && depth_of(r->Ok_0) <= 42
sub `for _ in 0\.\.nodes \{` => `for vp_k in 0..nodes {`
first:
    let ghost d0 = depth_of(index);
    let ghost o0 = offset_of(index);
after `let mut iter = flat_tree::Iterator::new(index);`:
    proof { lemma_new_small(iter); flat_tree::lemma_anc_self(d0, o0); }
loop 1:
    invariant
        iter.wf(), iter.d@ <= 42, o0 >= 0, anc(d0, o0, iter.d@, iter.offset as int), node_index(d0, o0) == index,
        index < 0x200_0000_0000, head < 0x400_0000_0000
before `iter.parent();`:
    proof {
        flat_tree::lemma_anc_span(d0, o0, iter.d@, iter.offset as int);
        flat_tree::lemma_p2_4x(); flat_tree::lemma_p2_mono(iter.d@ + 1, 43); flat_tree::lemma_p2_mono(iter.d@, 42);
        lemma_anc_up(d0, o0, iter.d@, iter.offset as int);
        assert(flat_tree::spans(iter.d@, iter.offset as int, index as int));
        assert(iter.index - p2(iter.d@) < index);
        assert(p2(iter.d@) <= 0x400_0000_0000);
        assert(iter.factor <= 0x800_0000_0000);
    }
before `if iter.contains(head) {`:
    proof {
        flat_tree::lemma_anc_span(d0, o0, iter.d@, iter.offset as int);
        if !iter.spans(head as int) && iter.d@ > 42 {
            // 2^(d+1) > index and > head + 1: the node is the leftmost of its level and its span starts at 0 and covers head
            flat_tree::lemma_p2_4x(); flat_tree::lemma_p2_mono(44, iter.d@ + 1); flat_tree::lemma_p2_mono(43, iter.d@);
            flat_tree::lemma_span_small(iter.d@, iter.offset as int, index as int);
            assert(iter.offset == 0);
            assert(0 * p2(iter.d@ + 1) == 0);
            assert(false);
        }
    }
last:
    proof {
        flat_tree::lemma_node_of(iter);
        flat_tree::lemma_anc_span(d0, o0, iter.d@, iter.offset as int);
        flat_tree::lemma_p2_4x(); flat_tree::lemma_p2_mono(iter.d@, 42);
    }
@*/

/// the loops `while iter.index() != root { iter.sibling(); ..; iter.parent(); }`: position inside the subtree of `root`
pub open spec fn climbing(it: flat_tree::Iterator, root: u64) -> bool {
    &&& it.wf() && anc(it.d@, it.offset as int, depth_of(root), offset_of(root))
    &&& depth_of(root) <= 43 && root < 0x8000_0000_0000 && offset_of(root) >= 0 && node_index(depth_of(root), offset_of(root)) == root
}
/// facts needed for one step of such a loop
pub proof fn lemma_climb_step(it: flat_tree::Iterator, root: u64)
    requires climbing(it, root), it.index != root
    ensures it.d@ < depth_of(root), it.index + 2 * it.factor <= 0x7fff_ffff_ffff_ffff, it.index + it.factor < 0x1_0000_0000_0000, it.index + it.factor < root + 0x1000_0000_0000,
        anc(it.d@ + 1, (it.offset / 2) as int, depth_of(root), offset_of(root)),
        it.offset % 2 == 0 ==> (it.offset + 1) / 2 == it.offset / 2, it.offset % 2 == 1 ==> (it.offset - 1) / 2 == it.offset / 2,
        // the sibling stays inside the span of the root
        it.index < root + p2(depth_of(root)), it.offset % 2 == 0 ==> it.index + it.factor < root + p2(depth_of(root))
{
    let dr = depth_of(root); let or = offset_of(root);
    if it.d@ == dr { flat_tree::lemma_anc_top(it.offset as int, dr, or); }
    flat_tree::lemma_anc_span(it.d@, it.offset as int, dr, or);
    flat_tree::lemma_p2_4x(); flat_tree::lemma_p2_mono(dr, 43); flat_tree::lemma_p2_mono(it.d@ + 1, dr);
    flat_tree::lemma_anc_step(it.d@, it.offset as int, dr, or);
    if it.offset % 2 == 0 {
        // the right sibling has the same parent, so it is inside the root's subtree too
        let pp = p2((dr - it.d@ - 1) as nat);
        assert(p2((dr - it.d@) as nat) == 2 * pp);
        assert(or * (2 * pp) == 2 * (or * pp)) by (nonlinear_arith);
        assert((or + 1) * (2 * pp) == 2 * ((or + 1) * pp)) by (nonlinear_arith);
        assert(anc(it.d@, it.offset + 1, dr, or));
        flat_tree::lemma_anc_span(it.d@, it.offset + 1, dr, or);
        assert((it.offset + 1) * p2(it.d@ + 1) == it.offset * p2(it.d@ + 1) + p2(it.d@ + 1)) by (nonlinear_arith);
    }
}
pub proof fn lemma_climb_start(it: flat_tree::Iterator, root: u64)
    requires it.wf(), anc_idx(it.index, root), depth_of(root) <= 43, root < 0x8000_0000_0000
    ensures climbing(it, root)
{
    flat_tree::lemma_node_of(it);
    flat_tree::lemma_node_of_index(root);
}

/*@ item src/oplog/header.rs struct HeaderTree @*/

/*@ fn src/tree/merkle_tree.rs fn get_root_indices
tags: C01 C05 C06
result: r
requires:
    *header_tree_length <= 0xff_ffff_ffff
ensures:
    r@ == flat_tree::spec_full_roots(2 * *header_tree_length), r@.len() <= 64,
    forall|k: int| 0 <= k < r@.len() ==> (#[trigger] r@[k]) < 2 * *header_tree_length,
    flat_tree::idx_mr(r@, 2 * *header_tree_length)
@*/

/// a root list whose indices are a mountain range of indices is a mountain range
pub proof fn lemma_mr_from_idx(roots: Seq<Node>, idx: Seq<u64>, end: int)
    requires roots.len() <= idx.len(), forall|k: int| 0 <= k < roots.len() ==> (#[trigger] roots[k]).index == idx[k], flat_tree::idx_mr(idx, end)
    ensures mr(roots), root_start(roots, roots.len() as int) == flat_tree::idx_start(idx, roots.len() as int)
    decreases roots.len()
{
    lemma_start_same(roots, idx, roots.len() as int);
    assert forall|k: int| 0 <= k < roots.len() implies #[trigger] mr_at(roots, k) by { lemma_start_same(roots, idx, k); assert(idx[k] == idx[k]); }
}
pub proof fn lemma_start_same(roots: Seq<Node>, idx: Seq<u64>, k: int)
    requires 0 <= k <= roots.len(), roots.len() <= idx.len(), forall|j: int| 0 <= j < roots.len() ==> (#[trigger] roots[j]).index == idx[j]
    ensures root_start(roots, k) == flat_tree::idx_start(idx, k)
    decreases k
{ if k > 0 { lemma_start_same(roots, idx, k - 1); assert(roots[k - 1].index == idx[k - 1]); } }

impl MerkleTree {
    /*@ fn src/tree/merkle_tree.rs MerkleTree::open
    tags: C01 C05 C06
    result: r
    requires:
        header_tree.length <= 0xff_ffff_ffff, infos_small(infos),
        // the records handed in are the ones read for the instructions of the first call: one per root, none missing
        infos is Some ==> infos->Some_0@.len() >= flat_tree::spec_full_roots(2 * header_tree.length).len()
            && forall|i: int| 0 <= i < infos->Some_0@.len() ==> (#[trigger] infos->Some_0@[i]).data is Some && infos->Some_0@[i].data->Some_0@.len() >= 8
    ensures:
        // first call: one 40-byte read per root of the stored length
        r is Ok && infos is None ==> r->Ok_0 is Left && instr_tree(r->Ok_0->Left_0@),
        // second call: the tree of the header - its roots are the mountain range of the header's length (the representation
        // invariant every other tree function relies on), its sizes are summed, its fork is the header's
        r is Ok && infos is Some ==> r->Ok_0 is Right && r->Ok_0->Right_0.length == header_tree.length && r->Ok_0->Right_0.fork == header_tree.fork
            && mr(r->Ok_0->Right_0.roots@) && root_start(r->Ok_0->Right_0.roots@, r->Ok_0->Right_0.roots@.len() as int) == 2 * r->Ok_0->Right_0.length
            && r->Ok_0->Right_0.byte_length == roots_sum(r->Ok_0->Right_0.roots@)
            && r->Ok_0->Right_0.unflushed@ =~= Map::empty() && !r->Ok_0->Right_0.truncated
            && (r->Ok_0->Right_0.signature is Some) == (header_tree.signature@.len() > 0)
    sub `(?s)root_indices\s*\.iter\(\)\s*\.map\(\|&index\| \{\s*(StoreInfoInstruction::new_content\(.*?\))\s*\}\)\s*\.collect::<Vec<StoreInfoInstruction>>\(\)\s*\.into_boxed_slice\(\)` => `{ let mut vp_v: Vec<StoreInfoInstruction> = Vec::new(); let mut vp_k: usize = 0; while vp_k < root_indices.len() { let index = root_indices[vp_k]; vp_v.push(\1); vp_k += 1; } vp_v.into_boxed_slice() }`
    sub `Signature::try_from\(&\*header_tree\.signature\)\.map_err\(\|_err\| \{` => `Signature::vp_try_from(&*header_tree.signature).map_err(|vp_err| {`
    loop 1:
        invariant
            vp_k <= root_indices@.len(), instr_tree(vp_v@), forall|k: int| 0 <= k < root_indices@.len() ==> (#[trigger] root_indices@[k]) < 0x200_0000_0000
        decreases root_indices@.len() - vp_k
    loop 2:
        invariant
            header_tree.length <= 0xff_ffff_ffff, infos_small(Some(infos)), i <= root_indices@.len(), roots@.len() == i,
            root_indices@ == flat_tree::spec_full_roots(2 * header_tree.length), root_indices@.len() <= 64, flat_tree::idx_mr(root_indices@, 2 * header_tree.length),
            infos@.len() >= root_indices@.len(),
            forall|k: int| 0 <= k < infos@.len() ==> (#[trigger] infos@[k]).data is Some && infos@[k].data->Some_0@.len() >= 8,
            forall|k: int| 0 <= k < roots@.len() ==> (#[trigger] roots@[k]).index == root_indices@[k] && roots@[k].length <= 0xffff_ffff_ffff,
            byte_length == roots_sum(roots@), byte_length <= i * 0xffff_ffff_ffff,
            length == flat_tree::idx_start(root_indices@, i as int), length <= 2 * header_tree.length
    before `byte_length += node.length;`:
        proof {
            lemma_rec_size(node.length, data@);
            assert(infos@[i as int].data->Some_0@ == data@);
            assert(node.length <= 0xffff_ffff_ffff);
            lemma_idx_step(root_indices@, 2 * header_tree.length, i as int);
        }
        let ghost r0 = roots@;
    after `roots.push(node);`:
        proof { assert(roots@.drop_last() =~= r0); }
    before `if length > 0 {`:
        proof { lemma_mr_from_idx(roots@, root_indices@, 2 * header_tree.length); }
    @*/
}
/// one step of summing up the spans of a mountain range of indices
pub proof fn lemma_idx_step(idx: Seq<u64>, end: int, i: int)
    requires flat_tree::idx_mr(idx, end), 0 <= i < idx.len()
    ensures idx[i] - flat_tree::idx_start(idx, i) == p2(depth_of(idx[i])) - 1, p2(depth_of(idx[i])) >= 1,
        flat_tree::idx_start(idx, i + 1) == flat_tree::idx_start(idx, i) + 2 * p2(depth_of(idx[i])),
        0 <= flat_tree::idx_start(idx, i), flat_tree::idx_start(idx, i + 1) <= end
{
    flat_tree::lemma_p2_pos(depth_of(idx[i]));
    assert(p2(depth_of(idx[i]) + 1) == 2 * p2(depth_of(idx[i])));
    lemma_idx_start_mono(idx, i + 1, idx.len() as int);
    lemma_idx_start_mono(idx, 0, i);
}
/// `roots.iter().fold(0, |acc, node| acc + node.length)` (iterator adapter): sum of the root sizes
#[verifier::external_body]
pub fn vp_sum_lengths(roots: &Vec<Node>) -> (r: u64)
    requires roots_sum(roots@) <= u64::MAX
    ensures r == roots_sum(roots@)
{ roots.iter().fold(0, |acc, node| acc + node.length) }
pub proof fn lemma_roots_sum_bound(s: Seq<Node>)
    requires forall|k: int| 0 <= k < s.len() ==> (#[trigger] s[k]).length <= 0xffff_ffff_ffff
    ensures 0 <= roots_sum(s) <= s.len() * 0xffff_ffff_ffff
    decreases s.len()
{ if s.len() > 0 { lemma_roots_sum_bound(s.drop_last()); } }
pub proof fn lemma_idx_start_mono(idx: Seq<u64>, a: int, b: int)
    requires 0 <= a <= b
    ensures 0 <= flat_tree::idx_start(idx, a) <= flat_tree::idx_start(idx, b)
    decreases b
{
    if a < b { lemma_idx_start_mono(idx, a, b - 1); flat_tree::lemma_p2_pos(depth_of(idx[b - 1]) + 1); }
    else if a > 0 { lemma_idx_start_mono(idx, a - 1, a - 1); flat_tree::lemma_p2_pos(depth_of(idx[a - 1]) + 1); }
}

impl MerkleTree {
    /*@ fn src/tree/merkle_tree.rs MerkleTree::seek_proof
    tags: C09 C03
    result: r
    requires:
        self.t_wf(), anc_idx(seek_root, root), depth_of(root) <= 43, root < 0x8000_0000_0000, seek_root < 0x8000_0000_0000
    ensures:
        left_ok(r),
        final(p).nodes == old(p).nodes, final(p).upgrade == old(p).upgrade, final(p).additional_upgrade == old(p).additional_upgrade,
        r is Ok ==> final(p).seek is Some,
        r is Err ==> *final(p) == *old(p)
    after `let mut iter = flat_tree::Iterator::new(seek_root);`:
        proof { lemma_climb_start(iter, root); }
    loop 1:
        invariant
            instr_tree(instructions@),
            climbing(iter, root), self.t_wf(), *p == *old(p)
        decreases depth_of(root) - iter.d@
    before `iter.sibling();`:
        proof { lemma_climb_step(iter, root); }
    @*/

    /*@ fn src/tree/merkle_tree.rs MerkleTree::block_and_seek_proof
    tags: C09 C03
    result: r
    requires:
        self.t_wf(), depth_of(root) <= 43, root < 0x2000_0000_0000, seek_root < 0x8000_0000_0000,
        // the walk starts below `root`: from the requested node, or (no block / hash request) from the seek target
        indexed is Some ==> indexed->Some_0.index < 0x400_0000_0000 && anc_idx(indexed->Some_0.index, root),
        indexed is None ==> anc_idx(seek_root, root)
    ensures:
        left_ok(r),
        final(p).upgrade == old(p).upgrade, final(p).additional_upgrade == old(p).additional_upgrade,
        r is Ok && indexed is Some ==> final(p).nodes is Some,
        r is Ok && indexed is None ==> final(p).seek is Some && final(p).nodes == old(p).nodes,
        r is Err ==> final(p).nodes == old(p).nodes
    sub `instructions\.extend\((\w+)\);` => `vp_extend(&mut instructions, \1);`
    after `let mut iter = flat_tree::Iterator::new(indexed.index);`:
        proof { lemma_climb_start(iter, root); }
        let ghost p0 = *p;
    loop 1:
        invariant
            instr_tree(instructions@),
            climbing(iter, root), self.t_wf(), seek_root < 0x8000_0000_0000, root < 0x2000_0000_0000,
            p.nodes == p0.nodes, p.upgrade == p0.upgrade, p.additional_upgrade == p0.additional_upgrade, p0 == *old(p)
        decreases depth_of(root) - iter.d@
    before `iter.sibling();`:
        proof { lemma_climb_step(iter, root); }
        let ghost it0 = iter;
    before `let success_or_instruction =`:
        proof {
            assert(it0.index + it0.factor < root + 0x1000_0000_0000);
            assert(iter.index <= it0.index + it0.factor);
            assert(root < 0x2000_0000_0000);
            // iter.contains(seek_root): the seek target lies in the subtree of the sibling we are on
            flat_tree::lemma_node_of_index(seek_root);
            flat_tree::lemma_node_of(iter);
            flat_tree::lemma_span_anc(depth_of(seek_root), offset_of(seek_root), iter.d@, iter.offset as int);
            flat_tree::lemma_p2_4x(); flat_tree::lemma_p2_mono(iter.d@, 43);
        }
    @*/

    /*@ fn src/tree/merkle_tree.rs MerkleTree::additional_upgrade_proof
    tags: C09 C03
    result: r
    requires:
        self.t_wf(), from % 2 == 0, to % 2 == 0, to < 0x400_0000_0000
    ensures:
        left_ok(r),
        final(p).nodes == old(p).nodes, final(p).seek == old(p).seek, final(p).upgrade == old(p).upgrade
    first:
        let ghost mut gl: int = 0;
        let ghost mut ga: nat = 61;
    before `let mut has_full_root = iter.full_root(to);`:
        proof { flat_tree::lemma_p2_62(); assert(flat_tree::leaf_aligned(0, 61, to as int)); }
    loop 1:
        invariant
            instr_tree(instructions@),
            self.t_wf(), from % 2 == 0, to % 2 == 0, to < 0x400_0000_0000, *p == *old(p),
            !has_additional_upgrade ==> from >= 2,
            has_full_root ==> full_root_at(iter, gl, ga, to), gl <= to
        decreases to - gl
    before `iter.next_tree();`#1:
        proof { lemma_next_tree(iter, gl, ga, to); ga = iter.d@; gl = gl + p2(iter.d@ + 1); }
    before `iter.next_tree();`#2:
        proof { flat_tree::lemma_node_of(iter); assert(iter == it_root); lemma_next_tree(iter, gl, ga, to); ga = iter.d@; gl = gl + p2(iter.d@ + 1); }
    before `iter.next_tree();`#3:
        proof { lemma_next_tree(iter, gl, ga, to); ga = iter.d@; gl = gl + p2(iter.d@ + 1); }
    before `if !has_additional_upgrade && iter.contains(from - 2) {`:
        proof { lemma_full_root_small(iter, gl, ga, to); }
    before `iter.seek(target);`:
        let ghost it_root = iter;
        proof {
            // iter.contains(from - 2): the last leaf the peer already has lies below this root
            flat_tree::lemma_node_of(iter);
            flat_tree::lemma_leaf_index(target as int);
            flat_tree::lemma_span_anc(0, (target / 2) as int, iter.d@, iter.offset as int);
        }
    after `iter.seek(target);`:
        proof { flat_tree::lemma_node_of(iter); lemma_climb_start(iter, root); }
    loop 2:
        invariant
            instr_tree(instructions@),
            climbing(iter, root), self.t_wf(), *p == *old(p)
        decreases depth_of(root) - iter.d@
    before `iter.sibling();`:
        proof { lemma_climb_step(iter, root); }
    before `let node_or_instruction = self.required_node(iter.index(), nodes)?;`#2:
        proof { lemma_full_root_small(iter, gl, ga, to); }
    @*/

    /*@ fn src/tree/merkle_tree.rs MerkleTree::upgrade_proof
    tags: C09 C03
    result: r
    requires:
        self.t_wf(), from % 2 == 0, to % 2 == 0, to < 0x400_0000_0000, sub_tree < 0x8000_0000_0000,
        indexed is Some ==> indexed->Some_0.index < 0x400_0000_0000,
        // the block / hash request is served inside this upgrade only from its own node
        indexed is Some && old(p).nodes is None ==> sub_tree == indexed->Some_0.index
    ensures:
        left_ok(r),
        final(p).additional_upgrade == old(p).additional_upgrade,
        // C09: the upgrade section is always produced for a non-empty range (create_valueless_proof relies on it)
        r is Ok && from < to ==> final(p).upgrade is Some
    sub `instructions\.extend\((\w+)\);` => `vp_extend(&mut instructions, \1);`
    first:
        let ghost mut gl: int = 0;
        let ghost mut ga: nat = 61;
    before `let mut has_full_root = iter.full_root(to);`:
        proof { flat_tree::lemma_p2_62(); assert(flat_tree::leaf_aligned(0, 61, to as int)); }
    loop 1:
        invariant
            instr_tree(instructions@),
            self.t_wf(), from % 2 == 0, to % 2 == 0, to < 0x400_0000_0000, sub_tree < 0x8000_0000_0000,
            indexed is Some ==> indexed->Some_0.index < 0x400_0000_0000,
            indexed is Some && p.nodes is None ==> sub_tree == indexed->Some_0.index,
            p.additional_upgrade == old(p).additional_upgrade,
            !has_upgrade ==> from >= 2 && gl <= from,
            has_full_root ==> full_root_at(iter, gl, ga, to), gl <= to,
            !has_full_root ==> gl >= to
        decreases to - gl
    before `iter.next_tree();`#1:
        proof { lemma_full_root_small(iter, gl, ga, to); lemma_next_tree(iter, gl, ga, to); ga = iter.d@; gl = gl + p2(iter.d@ + 1); }
    before `iter.next_tree();`#2:
        proof { flat_tree::lemma_node_of(iter); assert(iter == it_root); lemma_next_tree(iter, gl, ga, to); ga = iter.d@; gl = gl + p2(iter.d@ + 1); }
    before `iter.next_tree();`#3:
        proof { lemma_next_tree(iter, gl, ga, to); ga = iter.d@; gl = gl + p2(iter.d@ + 1); }
    before `iter.next_tree();`#4:
        proof { lemma_next_tree(iter, gl, ga, to); ga = iter.d@; gl = gl + p2(iter.d@ + 1); }
    before `if !has_upgrade && iter.contains(from - 2) {`:
        proof { lemma_full_root_small(iter, gl, ga, to); }
    before `iter.seek(target);`:
        let ghost it_root = iter;
        proof {
            flat_tree::lemma_node_of(iter);
            flat_tree::lemma_leaf_index(target as int);
            flat_tree::lemma_span_anc(0, (target / 2) as int, iter.d@, iter.offset as int);
        }
    after `iter.seek(target);`:
        proof { flat_tree::lemma_node_of(iter); lemma_climb_start(iter, root); }
    loop 2:
        invariant
            instr_tree(instructions@),
            climbing(iter, root), self.t_wf(), root < 0x400_0000_0000, root + p2(depth_of(root)) <= 0x800_0000_0000, sub_tree < 0x8000_0000_0000,
            indexed is Some ==> indexed->Some_0.index < 0x400_0000_0000,
            indexed is Some && p.nodes is None ==> sub_tree == indexed->Some_0.index,
            p.additional_upgrade == old(p).additional_upgrade
        decreases depth_of(root) - iter.d@
    before `iter.sibling();`:
        proof { lemma_climb_step(iter, root); }
    before `let success_or_instructions =`#1:
        proof { lemma_contains_anc(iter, sub_tree); }
    before `let success_or_instructions =`#2:
        proof { lemma_contains_anc(iter, sub_tree); }
    @*/

    /// nodes read from the local tree store (and those waiting to be flushed) describe less than 2^48 bytes each
    /// the tree's own nodes carry the size of the blocks below them, under the assignment `boff`
    pub open spec fn tree_sized(&self) -> bool {
        &&& forall|k: int| 0 <= k < self.roots@.len() ==> (#[trigger] self.roots@[k]).length == span_len(self.roots@[k].index)
        &&& forall|k: u64| #![trigger self.unflushed@[k]] self.unflushed@.contains_key(k) ==> self.unflushed@[k].length == span_len(k)
        &&& self.byte_length == boff(self.length as int)
    }
    /// ... and so does every node just read from the tree store
    pub open spec fn all_sized(&self, nodes: &IntMap<Option<Node>>) -> bool { self.tree_sized() && map_sized(*nodes) }
    pub open spec fn nodes_small(&self, nodes: &IntMap<Option<Node>>) -> bool {
        &&& map_small(*nodes)
        &&& self.unflushed_small()
    }
    pub open spec fn unflushed_small(&self) -> bool {
        forall|k: u64| #![trigger self.unflushed@[k]] self.unflushed@.contains_key(k) ==> self.unflushed@[k].length <= 0xffff_ffff_ffff
    }

    /*@ fn src/tree/merkle_tree.rs MerkleTree::seek_trusted_tree
    tags: C09 C03
    result: r
    requires:
        self.t_wf(), root < 0x2000_0000_0000
    ensures:
        left_ok(r),
        r is Ok && r->Ok_0 is Right ==> r->Ok_0->Right_0 < 0x8000_0000_0000
    after `let mut iter = flat_tree::Iterator::new(root);`:
        let ghost it0 = iter;
        proof { flat_tree::lemma_p2_4x(); flat_tree::lemma_depth_bound(iter, 45); flat_tree::lemma_p2_mono(iter.d@, 45); }
    loop 1:
        invariant
            instr_tree(instructions@),
            self.t_wf(), iter.wf(), it0.wf(), iter.d@ <= it0.d@, it0.d@ <= 45, it0.index < 0x2000_0000_0000, p2(it0.d@) <= 0x2000_0000_0000,
            iter.index - p2(iter.d@) >= it0.index - p2(it0.d@), iter.index + p2(iter.d@) <= it0.index + p2(it0.d@)
        decreases iter.d@
    before `let node_or_instruction = self.optional_node(iter.left_child(), nodes)?;`:
        proof {
            let ghost ix = iter.index;
            assert((ix & 1 != 0) == (ix % 2 == 1)) by (bit_vector);
            flat_tree::lemma_parity(iter.d@, iter.offset as int);
            assert(p2(iter.d@ + 1) == 2 * p2(iter.d@) && p2(iter.d@) == 2 * p2((iter.d@ - 1) as nat));
            flat_tree::lemma_p2_pos((iter.d@ - 1) as nat); flat_tree::lemma_p2_mono(iter.d@, it0.d@);
        }
    before `iter.sibling();`:
        proof { assert(p2(iter.d@ + 1) == 2 * p2(iter.d@)); flat_tree::lemma_p2_pos(iter.d@); flat_tree::lemma_p2_mono(iter.d@, it0.d@); }
    before `iter.parent();`:
        proof { assert(p2(iter.d@ + 1) == 2 * p2(iter.d@)); flat_tree::lemma_p2_pos(iter.d@); flat_tree::lemma_p2_mono(iter.d@, it0.d@); }
    @*/

    /*@ fn src/tree/merkle_tree.rs MerkleTree::seek_from_head
    tags: C09 C03
    result: r
    requires:
        self.t_wf(), head % 2 == 0, head < 0x400_0000_0000
    ensures:
        left_ok(r),
        r is Ok && r->Ok_0 is Right ==> r->Ok_0->Right_0 < 0x8000_0000_0000
    sub `for root in roots \{` => `let mut vp_i: usize = 0; while vp_i < roots.len() { let root = roots[vp_i]; vp_i += 1;`
    sub `instructions\.extend\((\w+)\);` => `vp_extend(&mut instructions, \1);`
    loop 1:
        invariant
            instr_tree(instructions@),
            self.t_wf(), head < 0x400_0000_0000, forall|k: int| 0 <= k < roots@.len() ==> (#[trigger] roots@[k]) < head, vp_i <= roots@.len()
        decreases roots@.len() - vp_i
    @*/

    /// representation invariant of the root list ("mountain range"): root k is the root of the full tree that starts
    /// where the trees of roots 0..k end, the trees end at leaf `length`, and the root sizes add up to the byte length
    pub open spec fn roots_wf(&self) -> bool {
        &&& self.roots@.len() <= 64
        &&& mr(self.roots@) && root_start(self.roots@, self.roots@.len() as int) == 2 * self.length
        &&& forall|k: int| 0 <= k < self.roots@.len() ==> (#[trigger] self.roots@[k]).length <= 0xffff_ffff_ffff
    }

    /*@ fn src/tree/merkle_tree.rs MerkleTree::byte_offset_from_nodes ; noisolation
    tags: C09 C03 C01
    result: r
    requires:
        self.t_wf(), self.roots_wf(), self.nodes_small(nodes), index < 0x8000_0000_0000
    ensures:
        left_ok(r),
        r is Ok && r->Ok_0 is Right ==> r->Ok_0->Right_0 <= 0x80_0000_0000_0000,
        // C01 / C03: the offset is the number of bytes stored before the first block below `index`
        self.all_sized(nodes) && r is Ok && r->Ok_0 is Right ==> r->Ok_0->Right_0 == boff(leaf_no(index))
    first:
        let ghost index0 = index;
    sub `for root_node in &self\.roots \{` => `let mut vp_i: usize = 0; while vp_i < self.roots.len() { let root_node = &self.roots[vp_i]; vp_i += 1;`
    after `let index = if (index & 1) == 1 {`:
        // (nothing: the rebinding below is the leftmost leaf of an odd index)
    before `let mut head: u64 = 0;`:
        proof { let ghost ix = index; assert(((ix & 1) == 1) == (ix % 2 == 1)) by (bit_vector);
            let ghost i0 = index0; assert(((i0 & 1) == 1) == (i0 % 2 == 1)) by (bit_vector);
            lemma_leaf_no_even(index);
            if index0 % 2 == 1 { assert(p2(depth_of(index0) + 1) == 2 * p2(depth_of(index0)));
                assert(offset_of(index0) * p2(depth_of(index0) + 1) == 2 * (offset_of(index0) * p2(depth_of(index0)))) by (nonlinear_arith) requires p2(depth_of(index0) + 1) == 2 * p2(depth_of(index0)); }
            assert(index / 2 == leaf_no(index0));
            broadcast use axiom_boff_mono;
        }
    loop 1:
        invariant
            self.t_wf(), self.roots_wf(), self.nodes_small(nodes), index < 0x8000_0000_0000, index % 2 == 0,
            vp_i <= self.roots@.len(), head == root_start(self.roots@, vp_i as int), index >= head, offset <= vp_i * 0x1_0000_0000_0000, head % 2 == 0, head <= 2 * self.length,
            self.all_sized(nodes) ==> offset == boff(head as int / 2)
        decreases self.roots@.len() - vp_i
    before `head += 2 * ((root_node.index - head) + 1);`:
        proof {
            lemma_root_start_mono(self.roots@, vp_i as int, self.roots@.len() as int);
            lemma_root_start_even(self.roots@, vp_i as int);
            lemma_root_start_even(self.roots@, vp_i - 1);
            assert(*root_node == self.roots@[vp_i - 1]);
            assert(mr_at(self.roots@, vp_i - 1));
            assert(head == root_start(self.roots@, vp_i - 1));
            assert(root_node.index == head + p2(depth_of(root_node.index)) - 1);
            assert(root_start(self.roots@, vp_i as int) == root_start(self.roots@, vp_i - 1) + p2(depth_of(self.roots@[vp_i - 1].index) + 1));
            assert(p2(depth_of(root_node.index) + 1) == 2 * p2(depth_of(root_node.index)));
            flat_tree::lemma_p2_pos(depth_of(root_node.index));
            lemma_root_span(self.roots@, vp_i - 1);
        }
        let ghost head0 = head;
    after `let mut iter = flat_tree::Iterator::new(root_node.index);`:
        proof {
            flat_tree::lemma_node_of(iter);
            lemma_root_iter(iter, head0 as int, head as int, index);
            assert(iter.offset * p2(iter.d@) == head0 as int / 2);
        }
    loop 2:
        invariant
            instr_tree(instructions@),
            self.t_wf(), self.nodes_small(nodes), iter.wf(), iter.spans(index as int), index % 2 == 0, index < 0x400_0000_0000,
            iter.d@ <= 42, iter.index < 0x800_0000_0000, offset <= (vp_i + 64 - iter.d@) * 0x1_0000_0000_0000, vp_i <= 64,
            self.all_sized(nodes) && instructions@.len() == 0 ==> offset == boff(iter.offset * p2(iter.d@))
        decreases iter.d@
    before `let node_or_instruction = self.required_node(left_child, nodes)?;`:
        proof { flat_tree::lemma_node_of(iter); }
    before `return if instructions.is_empty() {`:
        proof { flat_tree::lemma_node_of(iter); lemma_leaf_no_even(index); assert(p2(0) == 1); }
    before `if index < iter.index() {`:
        proof { lemma_child_leaf_no(iter.d@, iter.offset as int); }
        proof {
            assert(p2(0) == 1);
            assert(iter.d@ > 0);
            assert(p2(iter.d@ + 1) == 2 * p2(iter.d@) && p2(iter.d@) == 2 * p2((iter.d@ - 1) as nat));
            flat_tree::lemma_p2_pos((iter.d@ - 1) as nat); flat_tree::lemma_p2_4x(); flat_tree::lemma_p2_mono(iter.d@, 42);
        }
    before `iter.sibling();`:
        proof { assert(p2(iter.d@ + 1) == 2 * p2(iter.d@)); flat_tree::lemma_p2_4x(); flat_tree::lemma_p2_mono(iter.d@, 42); }
    @*/

    /*@ fn src/tree/merkle_tree.rs MerkleTree::seek_untrusted_tree
    tags: C09 C03
    result: r
    requires:
        self.t_wf(), self.roots_wf(), self.nodes_small(nodes), root < 0x2000_0000_0000
    ensures:
        left_ok(r),
        r is Ok && r->Ok_0 is Right ==> r->Ok_0->Right_0 < 0x8000_0000_0000
    sub `instructions\.extend\((\w+)\);` => `vp_extend(&mut instructions, \1);`
    @*/

    /*@ fn src/tree/merkle_tree.rs MerkleTree::missing_nodes
    tags: C03 C09
    result: r
    requires:
        old(self).t_wf(), index < 0x200_0000_0000, infos_readable(infos)
    ensures:
        r is Ok && r->Ok_0 is Left ==> r->Ok_0->Left_0@.len() == 1 && instr_tree(r->Ok_0->Left_0@),
        *final(self) == *old(self),
        r is Ok && r->Ok_0 is Right ==> r->Ok_0->Right_0 <= 42
    first:
        let ghost d0 = depth_of(index);
        let ghost o0 = offset_of(index);
    after `let mut iter = flat_tree::Iterator::new(index);`:
        proof { flat_tree::lemma_p2_4x(); flat_tree::lemma_depth_bound(iter, 41); flat_tree::lemma_p2_mono(iter.d@ + 1, 42); flat_tree::lemma_node_of(iter); flat_tree::lemma_anc_self(d0, o0); }
    loop 1:
        invariant
            self.t_wf(), *self == *old(self), index < 0x200_0000_0000, head == 2 * self.length,
            iter.wf(), iter.d@ <= 42, o0 >= 0, anc(d0, o0, iter.d@, iter.offset as int), node_index(d0, o0) == index,
            // C03: the count is the number of levels climbed from the requested node; every climbed step was over an absent node
            count == iter.d@ - d0
        decreases 43 - iter.d@
    before `match self.optional_node(iter.index(), &nodes)? {`:
        proof {
            flat_tree::lemma_anc_span(d0, o0, iter.d@, iter.offset as int);
            flat_tree::lemma_p2_4x(); flat_tree::lemma_p2_mono(iter.d@, 42); flat_tree::lemma_p2_mono(iter.d@ + 1, 43);
            if iter.d@ > 41 {
                // 2^(d+1) exceeds both the index and the head: the node is the leftmost of its level and spans the head
                flat_tree::lemma_p2_mono(43, iter.d@ + 1);
                flat_tree::lemma_span_small(iter.d@, iter.offset as int, index as int);
                assert(0 * p2(iter.d@ + 1) == 0);
                assert(false);
            }
            lemma_anc_up(d0, o0, iter.d@, iter.offset as int);
        }
    @*/

    /// the 40-byte record of a node in the tree store: at byte 40 * index, little-endian u64 size, then the 32-byte hash
    pub open spec fn node_record(info: StoreInfo, n: Node) -> bool {
        info.store == Store::Tree && info.info_type == StoreInfoType::Content && !info.miss && info.index == 40 * n.index
            && info.data is Some && info.data->Some_0@ == le_bytes(n.length, 8) + n.hash@
    }
    /*@ fn src/tree/merkle_tree.rs MerkleTree::flush_nodes
    tags: C05 C06 C02
    result: r
    requires:
        forall|k: u64| #![trigger old(self).unflushed@[k]] old(self).unflushed@.contains_key(k) ==> old(self).unflushed@[k].hash@.len() == 32 && old(self).unflushed@[k].index < 0x400_0000_0000_0000
    ensures:
        final(self).roots == old(self).roots, final(self).length == old(self).length, final(self).byte_length == old(self).byte_length,
        final(self).fork == old(self).fork, final(self).signature == old(self).signature,
        final(self).truncated == old(self).truncated, final(self).truncate_to == old(self).truncate_to,
        final(self).unflushed@ == Map::<u64, Node>::empty(),
        // C05 / C06: exactly one write per pending node (in the enumeration order of the map), each the node's 40-byte record
        r@.len() == intmap::drain_keys(old(self).unflushed@).len(),
        forall|i: int| 0 <= i < r@.len() ==> old(self).unflushed@.contains_key(#[trigger] intmap::drain_keys(old(self).unflushed@)[i])
            && Self::node_record(r@[i], old(self).unflushed@[intmap::drain_keys(old(self).unflushed@)[i]])
    sub `for \(_, node\) in self\.unflushed\.drain\(\) \{` => `let vp_nodes = intmap::vp_drain(&mut self.unflushed); let mut vp_i: usize = 0; while vp_i < vp_nodes.len() { let node = &vp_nodes[vp_i]; vp_i += 1;`
    sub `(?s)\(\|\| \{\s*let hash = (as_array::<32>\(&node\.hash\))\?;\s*Ok::<Box<\[u8\]>, EncodingError>\(to_encoded_bytes!\(\s*([^,]+?),\s*hash\s*\)\)\s*\}\)\(\)\s*\.expect\("[^"]*"\)` => `vp_enc2(\2, vp_expect_ok(\1))`
    first:
        let ghost m0 = self.unflushed@;
    loop 1:
        invariant
            self.roots == old(self).roots, self.length == old(self).length, self.byte_length == old(self).byte_length, self.fork == old(self).fork,
            self.signature == old(self).signature, self.truncated == old(self).truncated, self.truncate_to == old(self).truncate_to,
            self.unflushed@ == Map::<u64, Node>::empty(), m0 == old(self).unflushed@,
            vp_i <= vp_nodes@.len(), infos_to_flush@.len() == vp_i, vp_nodes@.len() == intmap::drain_keys(m0).len(),
            forall|i: int| 0 <= i < vp_nodes@.len() ==> m0.contains_key(#[trigger] intmap::drain_keys(m0)[i]) && vp_nodes@[i] == m0[intmap::drain_keys(m0)[i]],
            forall|k: u64| #![trigger m0[k]] m0.contains_key(k) ==> m0[k].hash@.len() == 32 && m0[k].index < 0x400_0000_0000_0000,
            forall|i: int| 0 <= i < vp_i ==> Self::node_record(#[trigger] infos_to_flush@[i], vp_nodes@[i])
        decreases vp_nodes@.len() - vp_i
    before `let buffer =`:
        proof { let k = intmap::drain_keys(m0)[vp_i - 1]; assert(m0.contains_key(k) && *node == m0[k]); assert(m0[k].hash@.len() == 32); }
    @*/

    /*@ fn src/tree/merkle_tree.rs MerkleTree::commit_truncation
    tags: C01 C02 C05
    requires:
        changeset.ancestors <= 0xff_ffff_ffff
    ensures:
        final(self).roots == old(self).roots, final(self).length == old(self).length, final(self).byte_length == old(self).byte_length,
        final(self).fork == old(self).fork, final(self).signature == old(self).signature,
        // a changeset that keeps every block of the tree it was made from truncates nothing
        changeset.ancestors >= changeset.original_tree_length ==> *final(self) == *old(self),
        // otherwise the tree file is cut at the lowest head seen since the last flush ...
        changeset.ancestors < changeset.original_tree_length ==> final(self).truncated
            && final(self).truncate_to == (if old(self).truncated && old(self).truncate_to < changeset.ancestors { old(self).truncate_to } else { changeset.ancestors }),
        // ... no node at or beyond the new head stays pending, every pending node below it stays pending,
        // and a pending node is either what it was or a blank placeholder stored under its own index
        changeset.ancestors < changeset.original_tree_length ==> forall|k: u64| #![trigger final(self).unflushed@.contains_key(k)]
            final(self).unflushed@.contains_key(k) ==> k < 2 * changeset.ancestors,
        forall|k: u64| #![trigger old(self).unflushed@.contains_key(k)]
            old(self).unflushed@.contains_key(k) && k < 2 * changeset.ancestors ==> final(self).unflushed@.contains_key(k),
        forall|k: u64| #![trigger final(self).unflushed@[k]] final(self).unflushed@.contains_key(k) ==>
            (old(self).unflushed@.contains_key(k) && final(self).unflushed@[k] == old(self).unflushed@[k])
            || (final(self).unflushed@[k].blank && final(self).unflushed@[k].index == k && final(self).unflushed@[k].length == 0 && k < 2 * changeset.ancestors)
    sub `for node in self\.unflushed\.iter\(\) \{` => `let vp_pairs = intmap::vp_iter(&self.unflushed); for node in it: vp_pairs {`
    sub `for index_to_delete in unflushed_indices_to_delete \{` => `for index_to_delete in it2: unflushed_indices_to_delete {`
    before `loop {`:
        proof { assert(p2(0) == 1); }
    loop 1:
        invariant
            iter.wf(), head == 2 * changeset.ancestors, changeset.ancestors > 0, changeset.ancestors <= 0xff_ffff_ffff,
            iter.offset as int * p2(iter.d@) <= changeset.ancestors - 1,
            self.roots == old(self).roots, self.length == old(self).length, self.byte_length == old(self).byte_length, self.fork == old(self).fork,
            self.signature == old(self).signature, self.truncated == old(self).truncated, self.truncate_to == old(self).truncate_to,
            forall|k: u64| #![trigger old(self).unflushed@.contains_key(k)] old(self).unflushed@.contains_key(k) ==> self.unflushed@.contains_key(k),
            forall|k: u64| #![trigger self.unflushed@[k]] self.unflushed@.contains_key(k) ==>
                (old(self).unflushed@.contains_key(k) && self.unflushed@[k] == old(self).unflushed@[k])
                || (self.unflushed@[k].blank && self.unflushed@[k].index == k && self.unflushed@[k].length == 0 && k < head)
        decreases iter.offset
    before `iter.parent();`:
        proof { lemma_trunc_climb(iter.offset as int, iter.d@, changeset.ancestors - 1); }
    before `self.truncated = true;`:
        let ghost vp_mid = self.unflushed@;
    loop 2:
        invariant
            self.roots == old(self).roots, self.length == old(self).length, self.byte_length == old(self).byte_length, self.fork == old(self).fork,
            self.signature == old(self).signature, self.truncated,
            self.truncate_to == (if old(self).truncated && old(self).truncate_to < changeset.ancestors { old(self).truncate_to } else { changeset.ancestors }),
            changeset.ancestors <= 0xff_ffff_ffff,
            forall|j: int| 0 <= j < unflushed_indices_to_delete@.len() ==> (#[trigger] unflushed_indices_to_delete@[j]) >= 2 * changeset.ancestors,
            self.unflushed@ == vp_mid,
            forall|k: u64| #![trigger vp_mid.contains_key(k)] vp_mid.contains_key(k) ==> exists|i: int| 0 <= i < vp_pairs@.len() && *(#[trigger] vp_pairs@[i]).0 == k,
            forall|j: int| #![trigger vp_pairs@[j]] 0 <= j < it.index@ && *vp_pairs@[j].0 >= 2 * changeset.ancestors ==> unflushed_indices_to_delete@.contains(*vp_pairs@[j].0)
    before `unflushed_indices_to_delete.push(*node.0);`:
        let ghost vp_v0 = unflushed_indices_to_delete@;
    after `unflushed_indices_to_delete.push(*node.0);`:
        proof {
            let v = unflushed_indices_to_delete@;
            assert(v == vp_v0.push(*node.0));
            assert(v[v.len() - 1] == *node.0);
            assert forall|x: u64| vp_v0.contains(x) implies v.contains(x) by {
                let i = choose|i: int| 0 <= i < vp_v0.len() && vp_v0[i] == x;
                assert(v[i] == x);
            }
        }
    loop 3:
        invariant
            self.roots == old(self).roots, self.length == old(self).length, self.byte_length == old(self).byte_length, self.fork == old(self).fork,
            self.signature == old(self).signature, self.truncated,
            self.truncate_to == (if old(self).truncated && old(self).truncate_to < changeset.ancestors { old(self).truncate_to } else { changeset.ancestors }),
            forall|j: int| 0 <= j < unflushed_indices_to_delete@.len() ==> (#[trigger] unflushed_indices_to_delete@[j]) >= 2 * changeset.ancestors,
            forall|k: u64| #![trigger vp_mid.contains_key(k)] vp_mid.contains_key(k) && k >= 2 * changeset.ancestors ==> unflushed_indices_to_delete@.contains(k),
            forall|k: u64| #![trigger self.unflushed@.contains_key(k)] self.unflushed@.contains_key(k) ==> vp_mid.contains_key(k) && self.unflushed@[k] == vp_mid[k],
            forall|k: u64| #![trigger vp_mid.contains_key(k)] vp_mid.contains_key(k) && k < 2 * changeset.ancestors ==> self.unflushed@.contains_key(k),
            forall|j: int| #![trigger unflushed_indices_to_delete@[j]] 0 <= j < it2.index@ ==> !self.unflushed@.contains_key(unflushed_indices_to_delete@[j])
    @*/

    /*@ fn src/tree/merkle_tree.rs MerkleTree::validate_hypercore_index
    tags: C09 C01
    result: r
    requires:
        self.t_wf(), hypercore_index < 0x100_0000_0000
    ensures:
        // only blocks below the length have a tree index
        r is Ok ==> r->Ok_0 == 2 * hypercore_index && hypercore_index < self.length
    before `let compare_index = if index & 1 == 0 {`:
        proof { let ghost ix = index; assert((ix & 1 == 0) == (ix % 2 == 0)) by (bit_vector); }
    @*/
    /*@ fn src/tree/merkle_tree.rs MerkleTree::byte_offset_from_index
    tags: C09 C01
    result: r
    requires:
        old(self).t_wf(), old(self).roots_wf(), old(self).unflushed_small(), infos_small(infos), infos_readable(infos), index < 0x8000_0000_0000
    ensures:
        *final(self) == *old(self),
        r is Ok && r->Ok_0 is Left ==> r->Ok_0->Left_0@.len() > 0 && instr_tree(r->Ok_0->Left_0@),
        r is Ok && r->Ok_0 is Right ==> r->Ok_0->Right_0 <= 0x80_0000_0000_0000,
        old(self).tree_sized() && infos_sized(infos) && r is Ok && r->Ok_0 is Right ==> r->Ok_0->Right_0 == boff(leaf_no(index))
    @*/
    /*@ fn src/tree/merkle_tree.rs MerkleTree::byte_offset
    tags: C09 C01
    result: r
    requires:
        old(self).t_wf(), old(self).roots_wf(), old(self).unflushed_small(), infos_small(infos), infos_readable(infos), hypercore_index < 0x100_0000_0000
    ensures:
        *final(self) == *old(self),
        r is Ok ==> hypercore_index < old(self).length,
        r is Ok && r->Ok_0 is Left ==> r->Ok_0->Left_0@.len() > 0 && instr_tree(r->Ok_0->Left_0@),
        // C01: the bytes of block i start after the bytes of blocks 0..i
        old(self).tree_sized() && infos_sized(infos) && r is Ok && r->Ok_0 is Right ==> r->Ok_0->Right_0 == boff(hypercore_index as int)
    last:
        proof { lemma_leaf_no_even((2 * hypercore_index) as u64); }
    @*/
    /*@ fn src/tree/merkle_tree.rs MerkleTree::byte_range
    tags: C09 C01
    result: r
    requires:
        old(self).t_wf(), old(self).roots_wf(), old(self).unflushed_small(), infos_small(infos), infos_readable(infos), hypercore_index < 0x100_0000_0000
    ensures:
        *final(self) == *old(self),
        r is Ok ==> hypercore_index < old(self).length,
        r is Ok && r->Ok_0 is Left ==> r->Ok_0->Left_0@.len() > 0 && instr_tree(r->Ok_0->Left_0@),
        // C01: block i occupies the bytes [boff(i), boff(i+1)) of the data store
        old(self).tree_sized() && infos_sized(infos) && r is Ok && r->Ok_0 is Right ==> r->Ok_0->Right_0.index == boff(hypercore_index as int)
            && r->Ok_0->Right_0.index + r->Ok_0->Right_0.length == boff(hypercore_index + 1)
    sub `instructions\.extend\((\w+)\);` => `vp_extend(&mut instructions, \1);`
    before `let mut instructions: Vec<StoreInfoInstruction> = Vec::new();`:
        proof { lemma_leaf_no_even(index); assert(p2(0) == 1); }
    @*/

    /*@ fn src/tree/merkle_tree.rs MerkleTree::byte_offset_in_changeset
    tags: C03 C01 C09 C04
    result: r
    requires:
        old(self).t_wf(), old(self).roots_wf(), old(self).unflushed_small(), infos_small(infos), infos_readable(infos), hypercore_index < 0x100_0000_0000,
        changeset.roots@.len() <= 64, changeset.nodes@.len() <= 0x100_0000,
        forall|i: int| 0 <= i < changeset.nodes@.len() ==> (#[trigger] changeset.nodes@[i]).index < 0x200_0000_0000 && changeset.nodes@[i].length <= 0xffff_ffff_ffff,
        forall|i: int| 0 <= i < changeset.roots@.len() ==> (#[trigger] changeset.roots@[i]).length <= 0xffff_ffff_ffff,
        // assumption A-sized: the sizes carried by the nodes of a verified changeset are those of one assignment of block sizes
        // (every parent is computed as the sum of its children, and what the peer sent is bound by the signed hashes);
        // the subtraction `node.length - parent.length` relies on it
        cs_sized(changeset)
    ensures:
        *final(self) == *old(self),
        r is Ok && r->Ok_0 is Left ==> r->Ok_0->Left_0@.len() > 0 && instr_tree(r->Ok_0->Left_0@),
        // C03 / C01: the block is stored after the bytes of the blocks before it - in the tree as it will be once the changeset is committed
        old(self).tree_sized() && infos_sized(infos) && changeset.cs_mr() && r is Ok && r->Ok_0 is Right ==> r->Ok_0->Right_0 == boff(hypercore_index as int)
    sub `for node in &changeset\.nodes \{` => `for node in it_n: changeset.nodes.iter() {`
    sub `changeset\s*\.roots\s*\.iter\(\)\s*\.position\(\|root\| (.*?)\);` => `{ let ghost vp_pi = parent.index; let ghost vp_p = |root: Node| root.index == vp_pi; vp_position(&changeset.roots, |root: &Node| -> (vp_b: bool) ensures vp_b == (root.index == parent.index) { \1 }, Ghost(vp_p)) };`
    first:
        broadcast use axiom_boff_mono;
        let ghost h = hypercore_index as int;
    after `let mut parent: Option<Node> = None;`:
        let ghost mut gc: flat_tree::Iterator = iter;
        proof { lemma_leaf_no_even(index); assert(p2(0) == 1); }
    loop 1:
        invariant
            iter.wf(), index == 2 * h, 0 <= h < 0x100_0000_0000, cs_sized(changeset),
            changeset.nodes@.len() <= 0x100_0000,
            forall|i: int| 0 <= i < changeset.nodes@.len() ==> (#[trigger] changeset.nodes@[i]).index < 0x200_0000_0000 && changeset.nodes@[i].length <= 0xffff_ffff_ffff,
            parent is None ==> iter.index == index && iter.d@ == 0 && iter.offset == h && tree_offset == 0 && !is_right,
            parent is Some ==> gc.wf() && parent->Some_0.index == gc.index && parent->Some_0.length == span_len(gc.index) && gc.index < 0x200_0000_0000
                && iter.d@ == gc.d@ + 1 && iter.offset == gc.offset / 2 && is_right == (gc.offset % 2 == 1)
                && gc.offset * p2(gc.d@) <= h < gc.offset * p2(gc.d@) + p2(gc.d@)
                && tree_offset == boff(h) - boff(gc.offset * p2(gc.d@)) && tree_offset <= 0xffff_ffff_ffff
    before `if is_right {`:
        let ghost par0 = parent;
        proof {
            flat_tree::lemma_node_of(iter);
            lemma_index_depth(iter);
            assert(node.length == span_len(node.index));
            assert(p2(0) == 1);
            if parent is Some {
                lemma_child_leaf_no(iter.d@, iter.offset as int);
                flat_tree::lemma_node_of(gc);
                flat_tree::lemma_p2_pos(gc.d@);
                assert(p2(iter.d@) == 2 * p2(gc.d@));
                assert(iter.offset * p2(iter.d@) >= 0) by (nonlinear_arith) requires iter.offset >= 0, p2(iter.d@) >= 0;
                axiom_boff_mono(iter.offset * p2(iter.d@), gc.offset * p2(gc.d@));
            }
        }
    before `iter.parent();`:
        proof {
            // the new child on the path is the node iter is on
            let d = iter.d@; let o = iter.offset as int;
            flat_tree::lemma_p2_pos(d);
            assert(o * p2(d) <= h < o * p2(d) + p2(d)) by {
                if par0 is Some { assert(gc.offset as int == 2 * o || gc.offset as int == 2 * o + 1); }
            }
            assert(o * p2(d) >= 0) by (nonlinear_arith) requires o >= 0, p2(d) >= 0;
            axiom_boff_mono(o * p2(d), h); axiom_boff_mono(h, o * p2(d) + p2(d));
            assert(tree_offset == boff(h) - boff(o * p2(d)));
            assert(tree_offset <= node.length);
            gc = iter;
        }
    before `for i in 0..r {`:
        let ghost t1 = tree_offset as int;
        proof {
            flat_tree::lemma_node_of(gc);
            if changeset.cs_mr() {
                lemma_prefix_len(changeset.roots@, r as int);
                assert(mr_at(changeset.roots@, r as int));
                lemma_root_span(changeset.roots@, r as int);
            }
        }
    loop 2:
        invariant
            r < changeset.roots@.len() <= 64, t1 <= 0xffff_ffff_ffff, tree_offset == t1 + prefix_len(changeset.roots@, i as int), tree_offset <= t1 + i * 0x1_0000_0000_0000,
            forall|k: int| 0 <= k < changeset.roots@.len() ==> (#[trigger] changeset.roots@[k]).length <= 0xffff_ffff_ffff
    before `match self.byte_offset_from_index(search_index, infos)? {`:
        proof {
            if parent is Some { flat_tree::lemma_node_of(gc); } else { lemma_leaf_no_even(index); flat_tree::lemma_node_of(iter); assert(p2(0) == 1); }
        }
    @*/

    /*@ fn src/tree/merkle_tree.rs MerkleTree::truncate
    tags: C01 C02 C05
    result: r
    requires:
        old(self).t_wf(), old(self).unflushed_keyed(), old(self).unflushed_small(), infos_small(infos), infos_readable(infos), length <= 0xff_ffff_ffff,
        forall|k: int| 0 <= k < old(self).roots@.len() ==> (#[trigger] old(self).roots@[k]).length <= 0xffff_ffff_ffff
    ensures:
        *final(self) == *old(self),
        r is Ok && r->Ok_0 is Left ==> r->Ok_0->Left_0@.len() > 0 && instr_tree(r->Ok_0->Left_0@),
        // the changeset that replays a stored tree upgrade: exactly the requested length / fork, built on this tree, and its roots
        // are the mountain range of that length (so committing it keeps the tree's root invariant)
        r is Ok && r->Ok_0 is Right ==> r->Ok_0->Right_0.upgraded && r->Ok_0->Right_0.length == length && r->Ok_0->Right_0.fork == fork
            && r->Ok_0->Right_0.ancestors == length && r->Ok_0->Right_0.nodes@.len() == 0
            && r->Ok_0->Right_0.original_tree_length == old(self).length && r->Ok_0->Right_0.original_tree_fork == old(self).fork
            && r->Ok_0->Right_0.cs_mr() && r->Ok_0->Right_0.byte_length == roots_sum(r->Ok_0->Right_0.roots@)
    sub `for \(i, root\) in full_roots\.iter\(\)\.enumerate\(\) \{` => `let mut vp_k: usize = 0; while vp_k < full_roots.len() { let i = vp_k; let root = &full_roots[vp_k]; vp_k += 1;`
    sub `(?s)changeset\s*\.roots\s*\.iter\(\)\s*\.fold\(0, \|acc, node\| acc \+ node\.length\)` => `vp_sum_lengths(&changeset.roots)`
    loop 1:
        invariant
            self.t_wf(), self.unflushed_keyed(), self.unflushed_small(), map_keyed(nodes), map_small(nodes), *self == *old(self),
            vp_k <= full_roots@.len(), full_roots@ == flat_tree::spec_full_roots(head as int), full_roots@.len() <= 64, head == 2 * length, length <= 0xff_ffff_ffff,
            forall|k: int| 0 <= k < full_roots@.len() ==> (#[trigger] full_roots@[k]) < head,
            instr_tree(instructions@),
            changeset.roots@.len() <= 64 + vp_k,
            forall|k: int| 0 <= k < changeset.roots@.len() ==> (#[trigger] changeset.roots@[k]).length <= 0xffff_ffff_ffff,
            instructions@.len() == 0 ==> changeset.roots@.len() >= vp_k && forall|k: int| 0 <= k < vp_k ==> (#[trigger] changeset.roots@[k]).index == full_roots@[k],
            changeset.nodes@.len() == 0, changeset.original_tree_length == self.length, changeset.original_tree_fork == self.fork
        decreases full_roots@.len() - vp_k
    loop 2:
        invariant
            changeset.roots@.len() <= 64 + vp_k, i < vp_k, i == vp_k - 1,
            forall|k: int| 0 <= k < changeset.roots@.len() ==> (#[trigger] changeset.roots@[k]).length <= 0xffff_ffff_ffff,
            instructions@.len() == 0 ==> changeset.roots@.len() >= i && forall|k: int| 0 <= k < i ==> (#[trigger] changeset.roots@[k]).index == full_roots@[k],
            changeset.nodes@.len() == 0, changeset.original_tree_length == self.length, changeset.original_tree_fork == self.fork
        decreases changeset.roots@.len()
    loop 3:
        invariant
            changeset.roots@.len() >= full_roots@.len(),
            forall|k: int| 0 <= k < changeset.roots@.len() ==> (#[trigger] changeset.roots@[k]).length <= 0xffff_ffff_ffff,
            forall|k: int| 0 <= k < full_roots@.len() ==> (#[trigger] changeset.roots@[k]).index == full_roots@[k],
            changeset.nodes@.len() == 0, changeset.original_tree_length == self.length, changeset.original_tree_fork == self.fork
        decreases changeset.roots@.len()
    before `changeset.fork = fork;`:
        proof {
            assert(changeset.roots@.len() == full_roots@.len());
            lemma_mr_from_idx(changeset.roots@, full_roots@, head as int);
            lemma_roots_sum_bound(changeset.roots@);
        }
    @*/

    /// a tree that holds blocks has a signature over them (established by open / commit)
    pub open spec fn sig_wf(&self) -> bool { self.length > 0 ==> self.signature is Some }

    /*@ fn src/tree/merkle_tree.rs MerkleTree::create_valueless_proof
    tags: C09 C03 C05
    result: r
    requires:
        old(self).t_wf(), old(self).roots_wf(), old(self).sig_wf(), old(self).unflushed_small(), infos_small(infos), infos_readable(infos),
        // C09: every numeric field of the request is below 2^40 (hash indices are tree indices: below 2^41)
        block is Some ==> block->Some_0.index < 0x100_0000_0000,
        hash is Some ==> hash->Some_0.index < 0x200_0000_0000,
        upgrade is Some ==> upgrade->Some_0.start < 0x100_0000_0000 && upgrade->Some_0.length < 0x100_0000_0000
    ensures:
        r is Ok && r->Ok_0 is Left ==> r->Ok_0->Left_0@.len() > 0 && instr_tree(r->Ok_0->Left_0@),
        *final(self) == *old(self),
        // what is served: this tree's fork; the requested block / hash index and upgrade range; the stored signature (C05)
        r is Ok && r->Ok_0 is Right ==> r->Ok_0->Right_0.fork == old(self).fork
            && (r->Ok_0->Right_0.block is Some) == (block is Some) && (block is Some ==> r->Ok_0->Right_0.block->Some_0.index == block->Some_0.index)
            && (r->Ok_0->Right_0.hash is Some) == (block is None && hash is Some) && (block is None && hash is Some ==> r->Ok_0->Right_0.hash->Some_0.index == hash->Some_0.index)
            && (r->Ok_0->Right_0.upgrade is Some) == (upgrade is Some)
            && (upgrade is Some ==> r->Ok_0->Right_0.upgrade->Some_0.start == upgrade->Some_0.start && r->Ok_0->Right_0.upgrade->Some_0.length == upgrade->Some_0.length
                    && old(self).signature is Some && r->Ok_0->Right_0.upgrade->Some_0.signature@ == old(self).signature->Some_0.sig_bytes()
                    // only a range that lies inside the log is served
                    && upgrade->Some_0.length > 0 && upgrade->Some_0.start + upgrade->Some_0.length <= old(self).length),
        r is Ok && upgrade is None ==> old(self).length > 0
    sub `instructions\.extend\((\w+)\);` => `vp_extend(&mut instructions, \1);`
    sub `(?s)p\.nodes\.ok_or_else\(\|\| (HypercoreError::InvalidOperation \{.*?\})\)\?` => `(match p.nodes { Some(vp_n) => vp_n, None => { return Err(\1); } })`
    sub `(?s)p\.seek\.map\(\|p_seek\| DataSeek \{(.*?)\}\)` => `match p.seek { Some(p_seek) => Some(DataSeek {\1}), None => None }`
    sub `p\.additional_upgrade\.unwrap_or_default\(\)` => `(match p.additional_upgrade { Some(vp_a) => vp_a, None => Vec::new() })`
    after `let nodes: IntMap<Option<Node>> = self.infos_to_nodes(infos)?;`:
        proof { assert(self.nodes_small(&nodes)); }
    @*/
}

/// an iterator on the root of the full tree over the flat range [head0, head): the leaves in that range are inside its span
/// the nodes and roots of a changeset carry the size of the blocks below them, under the assignment `boff`
pub open spec fn cs_sized(cs: &MerkleTreeChangeset) -> bool {
    &&& forall|i: int| 0 <= i < cs.nodes@.len() ==> (#[trigger] cs.nodes@[i]).length == span_len(cs.nodes@[i].index)
    &&& forall|k: int| 0 <= k < cs.roots@.len() ==> (#[trigger] cs.roots@[k]).length == span_len(cs.roots@[k].index)
}
/// bytes below the first r roots
pub open spec fn prefix_len(roots: Seq<Node>, r: int) -> int
    decreases r
{ if r <= 0 { 0 } else { prefix_len(roots, r - 1) + roots[r - 1].length } }
pub proof fn lemma_prefix_len(roots: Seq<Node>, r: int)
    requires 0 <= r <= roots.len(), mr(roots), forall|k: int| 0 <= k < roots.len() ==> (#[trigger] roots[k]).length == span_len(roots[k].index)
    ensures prefix_len(roots, r) == boff(root_start(roots, r) / 2), root_start(roots, r) % 2 == 0, root_start(roots, r) >= 0
    decreases r
{
    broadcast use axiom_boff_mono;
    if r > 0 {
        lemma_prefix_len(roots, r - 1);
        assert(mr_at(roots, r - 1));
        lemma_root_span(roots, r - 1);
        lemma_root_start_even(roots, r);
        lemma_root_start_mono(roots, 0, r);
    }
}
pub proof fn lemma_root_iter(it: flat_tree::Iterator, head0: int, head: int, index: u64)
    requires it.wf(), it.index == head0 + p2(it.d@) - 1, head == head0 + 2 * p2(it.d@), head0 >= 0, head0 % 2 == 0, index % 2 == 0,
        head0 <= index < head, head <= 0x400_0000_0000
    ensures it.spans(index as int), it.d@ <= 42, it.index < 0x400_0000_0000
{
    flat_tree::lemma_p2_pos(it.d@);
    flat_tree::lemma_p2_4x();
    flat_tree::lemma_depth_bound(it, 42);
}
/// `iter.contains(x)` for a node index x: x lies in the subtree iter is on
pub proof fn lemma_contains_anc(it: flat_tree::Iterator, x: u64)
    requires it.wf(), it.spans(x as int), it.index < 0x800_0000_0000
    ensures anc_idx(x, it.index), depth_of(it.index) <= 43
{
    flat_tree::lemma_node_of(it);
    flat_tree::lemma_node_of_index(x);
    flat_tree::lemma_span_anc(depth_of(x), offset_of(x), it.d@, it.offset as int);
    flat_tree::lemma_p2_4x();
    flat_tree::lemma_depth_bound(it, 43);
}

impl Node {
    /*@ fn src/common/node.rs Node::new_blank
    tags: C01 C05
    result: r
    ensures:
        r.index == index, r.blank, r.length == 0, r.data is None
    @*/
}
/// climbing from the last leaf below a head of `n + 1` blocks: while the node is not on the left edge it lies below 2^40
pub proof fn lemma_trunc_climb(o: int, d: nat, n: int)
    requires o >= 1, o * p2(d) <= n, n < 0x100_0000_0000
    ensures d < 40, p2(d) <= n, o * p2(d + 1) <= 2 * n, p2(d + 1) <= 2 * n, (o / 2) * p2(d + 1) <= n
{
    flat_tree::lemma_p2_pos(d);
    let q = p2(d);
    assert(p2(d + 1) == 2 * q);
    assert(o * q >= q) by (nonlinear_arith) requires o >= 1, q >= 1;
    assert(o * (2 * q) == 2 * (o * q)) by (nonlinear_arith);
    let h = o / 2;
    assert(2 * h <= o);
    assert(h * (2 * q) == (2 * h) * q) by (nonlinear_arith);
    assert((2 * h) * q <= o * q) by (nonlinear_arith) requires 2 * h <= o, q >= 1;
    if d >= 40 { flat_tree::lemma_p2_mono(40, d); flat_tree::lemma_p2_62(); }
}
