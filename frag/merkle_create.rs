// ---- src/tree/merkle_tree.rs: proof creation from a peer's request (C09: no panic, terminates; C03 ingredients) ----
/*@ item src/tree/merkle_tree.rs struct NormalizedIndexed @*/
/*@ item src/tree/merkle_tree.rs struct LocalProof @*/
/*@ item src/common/peer.rs struct RequestBlock @*/
/*@ item src/common/peer.rs struct RequestSeek @*/
/*@ item src/common/peer.rs struct RequestUpgrade @*/
/*@ item src/common/peer.rs struct ValuelessProof @*/

use flat_tree::{p2, anc, anc_idx, depth_of, offset_of, node_index};

/// an iterator positioned at most 42 levels up, on a node below 2^44: every move is in range
pub open spec fn it_small(it: flat_tree::Iterator) -> bool { it.wf() && it.d@ <= 42 && it.index < 0x1000_0000_0000 }
pub proof fn lemma_it_small(it: flat_tree::Iterator)
    requires it_small(it)
    ensures it.factor <= 0x800_0000_0000, it.index + 2 * it.factor <= 0x7fff_ffff_ffff_ffff
{
    flat_tree::lemma_p2_4x();
    flat_tree::lemma_p2_mono(it.d@ + 1, 43);
}
/// wf iterator on a node: (d, offset) are the node's coordinates
pub proof fn lemma_new_small(it: flat_tree::Iterator)
    requires it.wf(), it.index < 0x400_0000_0000
    ensures it.d@ <= 42, depth_of(it.index) == it.d@, offset_of(it.index) == it.offset
{
    flat_tree::lemma_p2_4x();
    flat_tree::lemma_depth_bound(it, 42);
    flat_tree::lemma_node_of(it);
}
/// extending the ancestor upwards keeps the descendant inside
pub proof fn lemma_anc_up(d: nat, o: int, dd: nat, oo: int)
    requires anc(d, o, dd, oo), oo >= 0
    ensures anc(d, o, dd + 1, oo / 2)
{
    let p = p2((dd - d) as nat);
    flat_tree::lemma_p2_pos((dd - d) as nat);
    assert(p2((dd + 1 - d) as nat) == 2 * p);
    assert((oo / 2) * (2 * p) <= oo * p) by (nonlinear_arith) requires 2 * (oo / 2) <= oo, p >= 1;
    assert((oo + 1) * p <= (oo / 2 + 1) * (2 * p)) by (nonlinear_arith) requires oo + 1 <= 2 * (oo / 2) + 2, p >= 1;
}

/*@ fn src/tree/merkle_tree.rs fn normalize_indexed
tags: C09 C03
result: r
requires:
    block is Some ==> block->Some_0.index < 0x100_0000_0000,
    hash is Some ==> hash->Some_0.index < 0x200_0000_0000
ensures:
    (r is None) == (block is None && hash is None),
    block is Some ==> r->Some_0.value && r->Some_0.index == 2 * block->Some_0.index && r->Some_0.nodes == block->Some_0.nodes && r->Some_0.last_index == block->Some_0.index,
    block is None && hash is Some ==> !r->Some_0.value && r->Some_0.index == hash->Some_0.index && r->Some_0.nodes == hash->Some_0.nodes
        && r->Some_0.last_index * 2 + 1 >= hash->Some_0.index && r->Some_0.last_index <= hash->Some_0.index
sub `(?s)hash\.map\(\|hash\| NormalizedIndexed \{(.*?)\}\)` => `match hash { Some(hash) => Some(NormalizedIndexed {\1}), None => None }`
@*/

/*@ fn src/tree/merkle_tree.rs fn nodes_to_root
tags: C09 C03
result: r
requires:
    index < 0x200_0000_0000, head < 0x400_0000_0000
ensures:
    // the sub tree root handed back is an ancestor (or the node itself) of the requested index, still below the head
    r is Ok ==> anc_idx(index, r->Ok_0) && r->Ok_0 < 0x800_0000_0000 && depth_of(r->Ok_0) <= 42
sub `for _ in 0\.\.nodes \{` => `for vp_k in 0..nodes {`
first:
    let ghost d0 = depth_of(index);
    let ghost o0 = offset_of(index);
after `let mut iter = flat_tree::Iterator::new(index);`:
    proof { lemma_new_small(iter); flat_tree::lemma_anc_self(d0, o0); }
loop 1:
    invariant
        iter.wf(), iter.d@ <= 42, o0 >= 0, anc(d0, o0, iter.d@, iter.offset as int), node_index(d0, o0) == index,
        index < 0x200_0000_0000, head < 0x400_0000_0000
before `iter.parent();`:
    proof {
        flat_tree::lemma_anc_span(d0, o0, iter.d@, iter.offset as int);
        flat_tree::lemma_p2_4x(); flat_tree::lemma_p2_mono(iter.d@ + 1, 43); flat_tree::lemma_p2_mono(iter.d@, 42);
        lemma_anc_up(d0, o0, iter.d@, iter.offset as int);
        assert(flat_tree::spans(iter.d@, iter.offset as int, index as int));
        assert(iter.index - p2(iter.d@) < index);
        assert(p2(iter.d@) <= 0x400_0000_0000);
        assert(iter.factor <= 0x800_0000_0000);
    }
before `if iter.contains(head) {`:
    proof {
        flat_tree::lemma_anc_span(d0, o0, iter.d@, iter.offset as int);
        if !iter.spans(head as int) && iter.d@ > 42 {
            // 2^(d+1) > index and > head + 1: the node is the leftmost of its level and its span starts at 0 and covers head
            flat_tree::lemma_p2_4x(); flat_tree::lemma_p2_mono(44, iter.d@ + 1); flat_tree::lemma_p2_mono(43, iter.d@);
            flat_tree::lemma_span_small(iter.d@, iter.offset as int, index as int);
            assert(iter.offset == 0);
            assert(0 * p2(iter.d@ + 1) == 0);
            assert(false);
        }
    }
last:
    proof {
        flat_tree::lemma_node_of(iter);
        flat_tree::lemma_anc_span(d0, o0, iter.d@, iter.offset as int);
        flat_tree::lemma_p2_4x(); flat_tree::lemma_p2_mono(iter.d@, 42);
    }
@*/

/// the loops `while iter.index() != root { iter.sibling(); ..; iter.parent(); }`: position inside the subtree of `root`
pub open spec fn climbing(it: flat_tree::Iterator, root: u64) -> bool {
    &&& it.wf() && anc(it.d@, it.offset as int, depth_of(root), offset_of(root))
    &&& depth_of(root) <= 43 && root < 0x8000_0000_0000 && offset_of(root) >= 0 && node_index(depth_of(root), offset_of(root)) == root
}
/// facts needed for one step of such a loop
pub proof fn lemma_climb_step(it: flat_tree::Iterator, root: u64)
    requires climbing(it, root), it.index != root
    ensures it.d@ < depth_of(root), it.index + 2 * it.factor <= 0x7fff_ffff_ffff_ffff, it.index + it.factor < 0x1_0000_0000_0000, it.index + it.factor < root + 0x1000_0000_0000,
        anc(it.d@ + 1, (it.offset / 2) as int, depth_of(root), offset_of(root)),
        it.offset % 2 == 0 ==> (it.offset + 1) / 2 == it.offset / 2, it.offset % 2 == 1 ==> (it.offset - 1) / 2 == it.offset / 2
{
    let dr = depth_of(root); let or = offset_of(root);
    if it.d@ == dr { flat_tree::lemma_anc_top(it.offset as int, dr, or); }
    flat_tree::lemma_anc_span(it.d@, it.offset as int, dr, or);
    flat_tree::lemma_p2_4x(); flat_tree::lemma_p2_mono(dr, 43); flat_tree::lemma_p2_mono(it.d@ + 1, dr);
    flat_tree::lemma_anc_step(it.d@, it.offset as int, dr, or);
}
pub proof fn lemma_climb_start(it: flat_tree::Iterator, root: u64)
    requires it.wf(), anc_idx(it.index, root), depth_of(root) <= 43, root < 0x8000_0000_0000
    ensures climbing(it, root)
{
    flat_tree::lemma_node_of(it);
    flat_tree::lemma_node_of_index(root);
}

impl MerkleTree {
    /*@ fn src/tree/merkle_tree.rs MerkleTree::seek_proof
    tags: C09 C03
    result: r
    requires:
        self.t_wf(), anc_idx(seek_root, root), depth_of(root) <= 43, root < 0x8000_0000_0000, seek_root < 0x8000_0000_0000
    ensures:
        final(p).nodes == old(p).nodes, final(p).upgrade == old(p).upgrade, final(p).additional_upgrade == old(p).additional_upgrade,
        r is Ok ==> final(p).seek is Some,
        r is Err ==> *final(p) == *old(p)
    after `let mut iter = flat_tree::Iterator::new(seek_root);`:
        proof { lemma_climb_start(iter, root); }
    loop 1:
        invariant
            climbing(iter, root), self.t_wf(), *p == *old(p)
        decreases depth_of(root) - iter.d@
    before `iter.sibling();`:
        proof { lemma_climb_step(iter, root); }
    @*/

    /*@ fn src/tree/merkle_tree.rs MerkleTree::block_and_seek_proof
    tags: C09 C03
    result: r
    requires:
        self.t_wf(), depth_of(root) <= 43, root < 0x2000_0000_0000, seek_root < 0x8000_0000_0000,
        // the walk starts below `root`: from the requested node, or (no block / hash request) from the seek target
        indexed is Some ==> indexed->Some_0.index < 0x400_0000_0000 && anc_idx(indexed->Some_0.index, root),
        indexed is None ==> anc_idx(seek_root, root)
    ensures:
        final(p).upgrade == old(p).upgrade, final(p).additional_upgrade == old(p).additional_upgrade,
        r is Ok && indexed is Some ==> final(p).nodes is Some,
        r is Ok && indexed is None ==> final(p).seek is Some && final(p).nodes == old(p).nodes,
        r is Err ==> final(p).nodes == old(p).nodes
    sub `instructions\.extend\((\w+)\);` => `vp_extend(&mut instructions, \1);`
    after `let mut iter = flat_tree::Iterator::new(indexed.index);`:
        proof { lemma_climb_start(iter, root); }
        let ghost p0 = *p;
    loop 1:
        invariant
            climbing(iter, root), self.t_wf(), seek_root < 0x8000_0000_0000, root < 0x2000_0000_0000,
            p.nodes == p0.nodes, p.upgrade == p0.upgrade, p.additional_upgrade == p0.additional_upgrade, p0 == *old(p)
        decreases depth_of(root) - iter.d@
    before `iter.sibling();`:
        proof { lemma_climb_step(iter, root); }
        let ghost it0 = iter;
    before `let success_or_instruction =`:
        proof {
            assert(it0.index + it0.factor < root + 0x1000_0000_0000);
            assert(iter.index <= it0.index + it0.factor);
            assert(root < 0x2000_0000_0000);
            // iter.contains(seek_root): the seek target lies in the subtree of the sibling we are on
            flat_tree::lemma_node_of_index(seek_root);
            flat_tree::lemma_node_of(iter);
            flat_tree::lemma_span_anc(depth_of(seek_root), offset_of(seek_root), iter.d@, iter.offset as int);
            flat_tree::lemma_p2_4x(); flat_tree::lemma_p2_mono(iter.d@, 43);
        }
    @*/
}
