// ---- src/tree/merkle_tree.rs, src/tree/merkle_tree_changeset.rs: the parts Hypercore's operations go through ----
/*@ item src/tree/merkle_tree.rs struct MerkleTree @*/
/*@ item src/tree/merkle_tree_changeset.rs struct MerkleTreeChangeset @*/
/*@ item src/tree/merkle_tree.rs const NODE_SIZE @*/

impl MerkleTreeChangeset {
    /*@ fn src/tree/merkle_tree_changeset.rs MerkleTreeChangeset::new
    tags: C01 C03 C04 C05
    result: r
    ensures:
        r.length == length, r.ancestors == length, r.byte_length == byte_length, r.batch_length == 0, r.fork == fork,
        r.roots == roots, r.nodes@.len() == 0, r.hash is None, r.signature is None, !r.upgraded,
        r.original_tree_length == length, r.original_tree_fork == fork
    @*/
}

/// changeset created from this tree and still applicable to it
pub open spec fn commitable_spec(t: &MerkleTree, cs: &MerkleTreeChangeset) -> bool {
    cs.original_tree_fork == t.fork
        && (if cs.upgraded { cs.original_tree_length == t.length } else { cs.original_tree_length <= t.length })
}

impl MerkleTree {
    /*@ fn src/tree/merkle_tree.rs MerkleTree::changeset
    tags: C01 C03 C04 C05
    result: r
    ensures:
        r.length == self.length, r.ancestors == self.length, r.byte_length == self.byte_length, r.batch_length == 0,
        r.fork == self.fork, nodes_same(r.roots@, self.roots@), r.nodes@.len() == 0, r.hash is None, r.signature is None, !r.upgraded,
        r.original_tree_length == self.length, r.original_tree_fork == self.fork
    @*/

    /*@ fn src/tree/merkle_tree.rs MerkleTree::commitable
    tags: C01 C03 C04
    result: r
    ensures:
        r == commitable_spec(self, changeset)
    @*/
}

impl MerkleTree {
    // ASSUMED here as seen by core.rs; PROVED in unit merkle_create (frag/merkle_create.rs) against a stronger contract (exact truncate_to, no pending
    // node at or beyond the new head, blanks only below it) under the precondition ancestors <= 0xff_ffff_ffff, which callers here are not shown to establish
    #[verifier::external_body]
    pub fn commit_truncation(&mut self, changeset: &MerkleTreeChangeset)
        ensures final(self).roots == old(self).roots, final(self).length == old(self).length, final(self).byte_length == old(self).byte_length,
            final(self).fork == old(self).fork, final(self).signature == old(self).signature,
            final(self).truncate_to <= old(self).truncate_to || final(self).truncate_to <= changeset.ancestors
    { unimplemented!() }
    // ASSUMED here (immediately-invoked closure + IntMap::drain are outside the Verus subset): one 40-byte record per pending node
    #[verifier::external_body]
    pub fn flush_nodes(&mut self) -> (r: Vec<StoreInfo>)
        ensures final(self).roots == old(self).roots, final(self).length == old(self).length, final(self).byte_length == old(self).byte_length,
            final(self).fork == old(self).fork, final(self).signature == old(self).signature,
            final(self).truncated == old(self).truncated, final(self).truncate_to == old(self).truncate_to,
            final(self).unflushed@ == Map::<u64, Node>::empty(),
            forall|i: int| 0 <= i < r@.len() ==> is_node_write(#[trigger] r@[i])
    { unimplemented!() }

    /*@ fn src/tree/merkle_tree.rs MerkleTree::commit
    tags: C01 C02 C03 C04 C05
    result: r
    ensures:
        (r is Ok) == commitable_spec(old(self), &changeset),
        r is Err ==> *final(self) == *old(self),
        final(self).truncate_to <= old(self).truncate_to || final(self).truncate_to <= changeset.ancestors,
        // what is committed is exactly what the changeset carries, and nothing else
        r is Ok && changeset.upgraded ==> final(self).roots == changeset.roots && final(self).length == changeset.length
            && final(self).byte_length == changeset.byte_length && final(self).fork == changeset.fork && final(self).signature == changeset.signature,
        r is Ok && !changeset.upgraded ==> final(self).roots == old(self).roots && final(self).length == old(self).length
            && final(self).byte_length == old(self).byte_length && final(self).fork == old(self).fork && final(self).signature == old(self).signature,
        // C03 / C01: every verified node of the changeset - leaf, siblings, computed parents - becomes a pending tree node,
        // whether or not the changeset upgrades the tree (a block received without an upgrade carries nodes only)
        r is Ok ==> forall|i: int| 0 <= i < changeset.nodes@.len() ==> final(self).unflushed@.contains_key((#[trigger] changeset.nodes@[i]).index)
    sub `for node in changeset\.nodes \{` => `for node in it: changeset.nodes {`
    loop 1:
        invariant
            forall|j: int| 0 <= j < it.index@ ==> self.unflushed@.contains_key((#[trigger] changeset.nodes@[j]).index),
            self.roots == (if changeset.upgraded { changeset.roots } else { old(self).roots }),
            self.length == (if changeset.upgraded { changeset.length } else { old(self).length }),
            self.byte_length == (if changeset.upgraded { changeset.byte_length } else { old(self).byte_length }),
            self.fork == (if changeset.upgraded { changeset.fork } else { old(self).fork }),
            self.signature == (if changeset.upgraded { changeset.signature } else { old(self).signature }),
            self.truncate_to <= old(self).truncate_to || self.truncate_to <= changeset.ancestors
    @*/

    /*@ fn src/tree/merkle_tree.rs MerkleTree::flush_truncation
    tags: C02 C06
    result: r
    requires:
        old(self).truncate_to <= 0xffff_ffff_ffff
    ensures:
        r@.len() == 1,
        is_truncate(r@[0], Store::Tree, if old(self).truncate_to == 0 { 0int } else { (old(self).truncate_to - 1) * 80 + 40 }),
        !final(self).truncated, final(self).truncate_to == 0,
        final(self).roots == old(self).roots, final(self).length == old(self).length, final(self).byte_length == old(self).byte_length,
        final(self).fork == old(self).fork, final(self).signature == old(self).signature, final(self).unflushed == old(self).unflushed
    @*/

    /*@ fn src/tree/merkle_tree.rs MerkleTree::flush
    tags: C02 C06
    result: r
    requires:
        old(self).truncate_to <= 0xffff_ffff_ffff
    ensures:
        final(self).roots == old(self).roots, final(self).length == old(self).length, final(self).byte_length == old(self).byte_length,
        final(self).fork == old(self).fork, final(self).signature == old(self).signature,
        !final(self).truncated, final(self).unflushed@ == Map::<u64, Node>::empty(),
        final(self).truncate_to == (if old(self).truncated { 0u64 } else { old(self).truncate_to }),
        // an optional truncate of the tree file comes first, then only 40-byte node records
        old(self).truncated ==> r@.len() >= 1 && is_truncate(r@[0], Store::Tree, if old(self).truncate_to == 0 { 0int } else { (old(self).truncate_to - 1) * 80 + 40 })
            && forall|i: int| 1 <= i < r@.len() ==> is_node_write(#[trigger] r@[i]),
        !old(self).truncated ==> forall|i: int| 0 <= i < r@.len() ==> is_node_write(#[trigger] r@[i])
    sub `infos_to_flush\.extend\(self\.flush_truncation\(\)\);` => `vp_extend(&mut infos_to_flush, self.flush_truncation());`
    sub `infos_to_flush\.extend\(self\.flush_nodes\(\)\);` => `vp_extend(&mut infos_to_flush, self.flush_nodes());`
    @*/

    /*@ fn src/tree/merkle_tree.rs MerkleTree::add_node
    tags: C01 C02
    ensures:
        final(self).unflushed@ == old(self).unflushed@.insert(node.index, node),
        final(self).roots == old(self).roots, final(self).length == old(self).length, final(self).byte_length == old(self).byte_length,
        final(self).fork == old(self).fork, final(self).signature == old(self).signature,
        final(self).truncated == old(self).truncated, final(self).truncate_to == old(self).truncate_to
    @*/
}
/// a tree-file record: 40 bytes at 40 * index
pub open spec fn is_node_write(info: StoreInfo) -> bool {
    info.store == Store::Tree && info.info_type == StoreInfoType::Content && !info.miss && info.data is Some
        && info.data->Some_0@.len() == 40 && info.index % 40 == 0
}

impl MerkleTreeChangeset {
    // ASSUMED here (leaf hash + mountain-range merge; PROVED in unit merkle against a stronger contract)
    #[verifier::external_body]
    pub fn append(&mut self, data: &[u8]) -> (r: usize)
        requires old(self).length < 0xffff_ffff_ffff, old(self).byte_length + data@.len() <= u64::MAX, old(self).batch_length < u64::MAX
        ensures r == data@.len(),
            final(self).length == old(self).length + 1, final(self).byte_length == old(self).byte_length + data@.len(),
            final(self).batch_length == old(self).batch_length + 1, final(self).upgraded,
            final(self).ancestors == old(self).ancestors, final(self).fork == old(self).fork,
            final(self).original_tree_length == old(self).original_tree_length, final(self).original_tree_fork == old(self).original_tree_fork,
            final(self).hash == old(self).hash, final(self).signature == old(self).signature,
            final(self).nodes@.len() <= old(self).nodes@.len() + 64,
            (forall|i: int| 0 <= i < old(self).nodes@.len() ==> (#[trigger] old(self).nodes@[i]).hash@.len() == 32)
                ==> (forall|i: int| 0 <= i < final(self).nodes@.len() ==> (#[trigger] final(self).nodes@[i]).hash@.len() == 32)
    { unimplemented!() }
    // ASSUMED here (BLAKE2b tree hash + Ed25519 signature are uninterpreted; PROVED in unit merkle against the signing scheme)
    #[verifier::external_body]
    pub fn hash_and_sign(&mut self, signing_key: &SigningKey)
        ensures final(self).hash is Some && final(self).hash->Some_0@.len() == 32 && final(self).signature is Some,
            final(self).length == old(self).length, final(self).byte_length == old(self).byte_length, final(self).batch_length == old(self).batch_length,
            final(self).upgraded == old(self).upgraded, final(self).ancestors == old(self).ancestors, final(self).fork == old(self).fork,
            final(self).roots == old(self).roots, final(self).nodes == old(self).nodes,
            final(self).original_tree_length == old(self).original_tree_length, final(self).original_tree_fork == old(self).original_tree_fork
    { unimplemented!() }
}

// ---- ASSUMED tree read contracts as seen by core.rs; the functions are PROVED in unit merkle_create, where `boff` plays the
// ---- role of `blk_off` and the equalities below hold under the size-consistency assumption A-sized (DESIGN 10.4) ----------
pub mod tree_model {
use vstd::prelude::*;
/// byte offset of block i in the data file as recorded by the stored tree nodes (ghost model of the tree file);
/// ASSUMPTION: the stored node sizes are consistent, i.e. offsets are monotone
pub uninterp spec fn blk_off(i: int) -> int;
#[verifier::external_body]
pub broadcast proof fn axiom_blk_off_mono(i: int, j: int)
    requires 0 <= i <= j
    ensures 0 <= #[trigger] blk_off(i) <= #[trigger] blk_off(j) <= 0xff_ffff_ffff_ffff {}
} // mod tree_model
pub use tree_model::*;
pub open spec fn tree_instr(ins: Seq<StoreInfoInstruction>) -> bool { forall|k: int| 0 <= k < ins.len() ==> (#[trigger] ins[k]).store == Store::Tree }

impl MerkleTree {
    #[verifier::external_body]
    pub fn byte_range(&mut self, hypercore_index: u64, infos: Option<&[StoreInfo]>) -> (r: Result<Either<Box<[StoreInfoInstruction]>, NodeByteRange>, HypercoreError>)
        ensures *final(self) == *old(self),
            r is Ok && r->Ok_0 is Left ==> r->Ok_0->Left_0@.len() > 0 && tree_instr(r->Ok_0->Left_0@),
            r is Ok && r->Ok_0 is Right ==> hypercore_index < old(self).length && r->Ok_0->Right_0.index == blk_off(hypercore_index as int)
                && r->Ok_0->Right_0.index + r->Ok_0->Right_0.length == blk_off(hypercore_index + 1)
    { unimplemented!() }
    #[verifier::external_body]
    pub fn byte_offset(&mut self, hypercore_index: u64, infos: Option<&[StoreInfo]>) -> (r: Result<Either<Box<[StoreInfoInstruction]>, u64>, HypercoreError>)
        ensures *final(self) == *old(self),
            r is Ok && r->Ok_0 is Left ==> r->Ok_0->Left_0@.len() > 0 && tree_instr(r->Ok_0->Left_0@),
            r is Ok && r->Ok_0 is Right ==> hypercore_index < old(self).length && r->Ok_0->Right_0 == blk_off(hypercore_index as int)
    { unimplemented!() }
}

/*@ item src/common/peer.rs struct RequestBlock @*/
/*@ item src/common/peer.rs struct RequestSeek @*/
/*@ item src/common/peer.rs struct RequestUpgrade @*/
/*@ item src/common/peer.rs struct Proof @*/
/*@ item src/common/peer.rs struct ValuelessProof @*/
/*@ item src/common/peer.rs struct DataBlock @*/
/*@ item src/common/peer.rs struct DataHash @*/
/*@ item src/common/peer.rs struct DataSeek @*/
/*@ item src/common/peer.rs struct DataUpgrade @*/

/// what verification hands to the core: a changeset made from the current tree, signed if it upgrades
pub open spec fn verified_changeset(t: &MerkleTree, cs: &MerkleTreeChangeset) -> bool {
    &&& cs.original_tree_length == t.length && cs.original_tree_fork == t.fork && cs.ancestors == t.length
    &&& cs.upgraded ==> cs.hash is Some && cs.hash->Some_0@.len() == 32 && cs.signature is Some
    &&& cs.nodes@.len() <= 0x40_0000
    &&& forall|i: int| 0 <= i < cs.nodes@.len() ==> (#[trigger] cs.nodes@[i]).hash@.len() == 32
    &&& cs.length <= 0xff_ffff_ffff && cs.byte_length <= 0xff_ffff_ffff_ffff
    &&& !cs.upgraded ==> cs.length == t.length && cs.byte_length == t.byte_length && cs.fork == t.fork
}
impl MerkleTree {
    // ASSUMED here as seen by core.rs; PROVED in units merkle / merkle_create against their own, stronger contracts (which also
    // carry the representation invariants of the tree as preconditions - core.rs callers are not shown to establish them)
    #[verifier::external_body]
    pub fn verify_proof(&mut self, proof: &Proof, public_key: &VerifyingKey, infos: Option<&[StoreInfo]>)
        -> (r: Result<Either<Box<[StoreInfoInstruction]>, MerkleTreeChangeset>, HypercoreError>)
        ensures *final(self) == *old(self),
            r is Ok && r->Ok_0 is Left ==> r->Ok_0->Left_0@.len() > 0 && tree_instr(r->Ok_0->Left_0@),
            r is Ok && r->Ok_0 is Right ==> verified_changeset(old(self), &r->Ok_0->Right_0)
                && (proof.upgrade is Some ==> r->Ok_0->Right_0.upgraded)
    { unimplemented!() }
    #[verifier::external_body]
    pub fn byte_offset_in_changeset(&mut self, hypercore_index: u64, changeset: &MerkleTreeChangeset, infos: Option<&[StoreInfo]>)
        -> (r: Result<Either<Box<[StoreInfoInstruction]>, u64>, HypercoreError>)
        ensures *final(self) == *old(self),
            r is Ok && r->Ok_0 is Left ==> r->Ok_0->Left_0@.len() > 0 && tree_instr(r->Ok_0->Left_0@),
            r is Ok && r->Ok_0 is Right ==> r->Ok_0->Right_0 == blk_off(hypercore_index as int)
    { unimplemented!() }
}

impl MerkleTree {
    // ASSUMED here as seen by core.rs; PROVED in units merkle / merkle_create against their own, stronger contracts (which also
    // carry the representation invariants of the tree as preconditions - core.rs callers are not shown to establish them)
    #[verifier::external_body]
    pub fn create_valueless_proof(&mut self, block: Option<&RequestBlock>, hash: Option<&RequestBlock>, seek: Option<&RequestSeek>,
        upgrade: Option<&RequestUpgrade>, infos: Option<&[StoreInfo]>)
        -> (r: Result<Either<Box<[StoreInfoInstruction]>, ValuelessProof>, HypercoreError>)
        ensures *final(self) == *old(self),
            r is Ok && r->Ok_0 is Left ==> r->Ok_0->Left_0@.len() > 0 && tree_instr(r->Ok_0->Left_0@),
            r is Ok && r->Ok_0 is Right ==> r->Ok_0->Right_0.fork == old(self).fork
                && (r->Ok_0->Right_0.block is Some) == (block is Some)
                && (block is Some ==> r->Ok_0->Right_0.block->Some_0.index == block->Some_0.index)
                && (r->Ok_0->Right_0.upgrade is Some) == (upgrade is Some)
    { unimplemented!() }
    #[verifier::external_body]
    pub fn missing_nodes(&mut self, index: u64, infos: Option<&[StoreInfo]>) -> (r: Result<Either<Box<[StoreInfoInstruction]>, u64>, HypercoreError>)
        ensures *final(self) == *old(self),
            r is Ok && r->Ok_0 is Left ==> r->Ok_0->Left_0@.len() > 0 && tree_instr(r->Ok_0->Left_0@)
    { unimplemented!() }
}
impl ValuelessProof {
    // ASSUMED (`mut self` receivers and Option::map with a capturing closure are outside the Verus subset)
    #[verifier::external_body]
    pub fn into_proof(self, block_value: Option<Vec<u8>>) -> (r: Proof)
        requires self.block is Some ==> block_value is Some
        ensures r.fork == self.fork, r.hash == self.hash, r.seek == self.seek, r.upgrade == self.upgrade,
            (r.block is Some) == (self.block is Some),
            self.block is Some ==> r.block->Some_0.index == self.block->Some_0.index && r.block->Some_0.nodes == self.block->Some_0.nodes
                && r.block->Some_0.value == block_value->Some_0
    { unimplemented!() }
}

impl MerkleTree {
    // ASSUMED here as seen by core.rs; PROVED in units merkle / merkle_create against their own, stronger contracts (which also
    // carry the representation invariants of the tree as preconditions - core.rs callers are not shown to establish them)
    #[verifier::external_body]
    pub fn open(header_tree: &HeaderTree, infos: Option<&[StoreInfo]>) -> (r: Result<Either<Box<[StoreInfoInstruction]>, MerkleTree>, HypercoreError>)
        ensures
            r is Ok && r->Ok_0 is Left ==> tree_instr(r->Ok_0->Left_0@),
            r is Ok && r->Ok_0 is Right ==> r->Ok_0->Right_0.fork == header_tree.fork && !r->Ok_0->Right_0.truncated
                && r->Ok_0->Right_0.truncate_to == 0 && r->Ok_0->Right_0.unflushed@ == Map::<u64, Node>::empty()
    { unimplemented!() }
    #[verifier::external_body]
    pub fn truncate(&mut self, length: u64, fork: u64, infos: Option<&[StoreInfo]>)
        -> (r: Result<Either<Box<[StoreInfoInstruction]>, MerkleTreeChangeset>, HypercoreError>)
        ensures *final(self) == *old(self),
            r is Ok && r->Ok_0 is Left ==> r->Ok_0->Left_0@.len() > 0 && tree_instr(r->Ok_0->Left_0@),
            r is Ok && r->Ok_0 is Right ==> r->Ok_0->Right_0.upgraded && r->Ok_0->Right_0.length == length && r->Ok_0->Right_0.fork == fork
                && r->Ok_0->Right_0.ancestors == length && r->Ok_0->Right_0.nodes@.len() == 0
                && r->Ok_0->Right_0.original_tree_length == old(self).length && r->Ok_0->Right_0.original_tree_fork == old(self).fork
    { unimplemented!() }
}
impl MerkleTreeChangeset {
    #[verifier::external_body]
    pub fn hash(&self) -> (r: Box<[u8]>) ensures r@.len() == 32 { unimplemented!() }
}
