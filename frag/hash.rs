// ---- src/crypto/hash.rs: leaf / parent / tree hash and the signable, against the scheme of shim/hash.rs ----
/*@ item src/crypto/hash.rs const LEAF_TYPE @*/
/*@ item src/crypto/hash.rs const PARENT_TYPE @*/
/*@ item src/crypto/hash.rs const ROOT_TYPE @*/
/*@ item src/crypto/hash.rs const TREE @*/
/*@ item src/crypto/hash.rs struct Hash @*/

impl Hash {
    pub open spec fn hv(&self) -> Seq<u8> { self.hash@ }

    /*@ fn src/crypto/hash.rs Hash::data
    tags: C05 C04
    result: r
    ensures:
        // leaf = BLAKE2b-256(0x00 ++ LE64(size) ++ data)
        r.hv() == crypto::h_leaf(data@), r.hv().len() == 32
    last:
        proof {
            assert(LEAF_TYPE@ =~= seq![0u8]);
            assert(hasher.absorbed() =~= crypto::leaf_preimage(data@));
        }
    sub `(?s)\(\|\| Ok::<_, EncodingError>\(to_encoded_bytes!\((.*?)\)\)\)\(\)\s*\.expect\("[^"]*"\)` => `vp_enc1(\1)`
    @*/
    /*@ fn src/crypto/hash.rs Hash::parent
    tags: C05 C04
    result: r
    requires:
        left.length + right.length <= u64::MAX
    ensures:
        // parent = BLAKE2b-256(0x01 ++ LE64(size sum) ++ hash of the child with the smaller index ++ hash of the other)
        r.hv() == crypto::h_parent(*left, *right), r.hv().len() == 32
    last:
        proof {
            assert(PARENT_TYPE@ =~= seq![1u8]);
            assert(hasher.absorbed() =~= crypto::parent_preimage(node1.length, node1.hash@, node2.length, node2.hash@));
        }
    sub `(?s)\(\|\| Ok::<_, EncodingError>\(to_encoded_bytes!\((.*?)\)\)\)\(\)\s*\.expect\("[^"]*"\)` => `vp_enc1(\1)`
    @*/
    /*@ fn src/crypto/hash.rs Hash::tree
    tags: C05 C04
    result: r
    ensures:
        // tree = BLAKE2b-256(0x02 ++ for each root: hash ++ LE64(index) ++ LE64(size))
        r.hv() == crypto::h_tree(roots@), r.hv().len() == 32
    sub `roots: &\[impl AsRef<Node>\]` => `roots: &[Node]`
    sub `let node = node\.as_ref\(\);` => ``
    sub `for node in roots \{` => `for node in it: roots.iter() {`
    sub `(?s)\(\|\| \{\s*Ok::<_, EncodingError>\(to_encoded_bytes!\(\s*([^,]+?),\s*([^,]+?)\s*\)\)\s*\}\)\(\)\s*\.expect\("[^"]*"\)` => `vp_enc2(\1, \2)`
    sub `&buffer\[\.\.8\]` => `vp_slice_to(&buffer, 8)`
    sub `&buffer\[8\.\.\]` => `vp_slice_from(&buffer, 8)`
    loop 1:
        invariant
            hasher.absorbed() == crypto::roots_preimage(roots@.subrange(0, it.index@ as int))
    before `for node in it: roots.iter() {`:
        proof { assert(ROOT_TYPE@ =~= seq![2u8]); assert(roots@.subrange(0, 0) =~= Seq::<Node>::empty()); }
    before `hasher.update(node.hash());`:
        proof {
            lemma_le_bytes_len(node.index, 8); lemma_le_bytes_len(node.length, 8);
            assert(buffer@.subrange(0, 8) =~= le_bytes(node.index, 8));
            assert(buffer@.subrange(8, 16) =~= le_bytes(node.length, 8));
            let ghost pre = roots@.subrange(0, it.index@ as int + 1);
            assert(pre.drop_last() =~= roots@.subrange(0, it.index@ as int));
            assert(pre.last() == *node);
        }
    last:
        proof { assert(roots@.subrange(0, roots@.len() as int) =~= roots@); }
    @*/
    /*@ fn src/crypto/hash.rs Hash::as_bytes
    tags: C05
    result: r
    ensures:
        r@ == self.hv()
    @*/
}

/*@ fn src/crypto/hash.rs fn signable_tree
tags: C05 C04
result: r
requires:
    hash@.len() == 32      // the real function expect()s a 32-byte hash
ensures:
    // TREE namespace ++ root hash ++ LE64(length) ++ LE64(fork)
    r@ == crypto::spec_signable(hash@, length, fork)
sub `as_array::<32>\(hash\)\?` => `vp_expect_ok(as_array::<32>(hash))`
sub `(?s)\(\|\| \{\s*Ok::<_, EncodingError>\(to_encoded_bytes!\(\s*([^,]+?),\s*([^,]+?),\s*([^,]+?),\s*([^,]+?)\s*\)\)\s*\}\)\(\)\s*\.expect\("[^"]*"\)` => `vp_enc4(\1, \2, \3, \4)`
@*/
