// src/crypto/key_pair.rs: the two functions every signature check and every signature goes through
/*@ fn src/crypto/key_pair.rs fn verify
tags: C04 C05
result: r
ensures:
    // C04: Ok exactly when a signature is given and it verifies, under this public key, over exactly this message
    (r is Ok) == (sig is Some && crypto::sig_ok(*public, msg@, *sig->Some_0))
@*/
/*@ fn src/crypto/key_pair.rs fn sign
tags: C05 C04
result: r
ensures:
    r == crypto::spec_sign(*signing_key, msg@)
@*/
