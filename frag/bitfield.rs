/*@ item src/bitfield/fixed.rs const FIXED_BITFIELD_LENGTH @*/
/*@ item src/bitfield/fixed.rs const FIXED_BITFIELD_BYTES_LENGTH @*/
/*@ item src/bitfield/fixed.rs const FIXED_BITFIELD_BITS_LENGTH @*/
/*@ item src/bitfield/fixed.rs const FIXED_BITFIELD_BITS_PER_ELEM @*/

/*@ item src/bitfield/fixed.rs struct FixedBitfield @*/

pub open spec fn bit_of(w: u32, o: u32) -> bool { (w >> o) & 1 == 1 }
// JS layout of a page: bit k of the page is bit (k % 8) of byte k / 8 (little-endian words)
pub open spec fn bytes_bit(s: Seq<u8>, k: int) -> bool { (s[k / 8] >> ((k % 8) as u8)) & 1 == 1 }

pub proof fn lemma_word_bytes(w: u32, b0: u8, b1: u8, b2: u8, b3: u8)
    requires w == (b0 as u32) | ((b1 as u32) << 8) | ((b2 as u32) << 16) | ((b3 as u32) << 24)
    ensures
        forall|o: u32| o < 8 ==> #[trigger] bit_of(w, o) == ((b0 >> (o as u8)) & 1 == 1),
        forall|o: u32| 8 <= o < 16 ==> #[trigger] bit_of(w, o) == ((b1 >> ((o - 8) as u8)) & 1 == 1),
        forall|o: u32| 16 <= o < 24 ==> #[trigger] bit_of(w, o) == ((b2 >> ((o - 16) as u8)) & 1 == 1),
        forall|o: u32| 24 <= o < 32 ==> #[trigger] bit_of(w, o) == ((b3 >> ((o - 24) as u8)) & 1 == 1),
{
    assert(forall|o: u32| o < 8 ==> #[trigger] bit_of(w, o) == ((b0 >> (o as u8)) & 1 == 1)) by (bit_vector)
        requires w == (b0 as u32) | ((b1 as u32) << 8) | ((b2 as u32) << 16) | ((b3 as u32) << 24);
    assert(forall|o: u32| 8 <= o < 16 ==> #[trigger] bit_of(w, o) == ((b1 >> ((o - 8) as u8)) & 1 == 1)) by (bit_vector)
        requires w == (b0 as u32) | ((b1 as u32) << 8) | ((b2 as u32) << 16) | ((b3 as u32) << 24);
    assert(forall|o: u32| 16 <= o < 24 ==> #[trigger] bit_of(w, o) == ((b2 >> ((o - 16) as u8)) & 1 == 1)) by (bit_vector)
        requires w == (b0 as u32) | ((b1 as u32) << 8) | ((b2 as u32) << 16) | ((b3 as u32) << 24);
    assert(forall|o: u32| 24 <= o < 32 ==> #[trigger] bit_of(w, o) == ((b3 >> ((o - 24) as u8)) & 1 == 1)) by (bit_vector)
        requires w == (b0 as u32) | ((b1 as u32) << 8) | ((b2 as u32) << 16) | ((b3 as u32) << 24);
}

pub proof fn lemma_byte_of(w: u32)
    ensures w == (byte_of(w, 0) as u32) | ((byte_of(w, 1) as u32) << 8) | ((byte_of(w, 2) as u32) << 16) | ((byte_of(w, 3) as u32) << 24)
{
    assert(w == ((((w >> 0u32) & 0xff) as u8) as u32) | (((((w >> 8u32) & 0xff) as u8) as u32) << 8)
        | (((((w >> 16u32) & 0xff) as u8) as u32) << 16) | (((((w >> 24u32) & 0xff) as u8) as u32) << 24)) by (bit_vector);
}

impl FixedBitfield {
    pub open spec fn bit(&self, i: int) -> bool
        recommends 0 <= i < 32768
    {
        bit_of(self.bitfield@[i / 32], (i % 32) as u32)
    }

    /*@ fn src/bitfield/fixed.rs FixedBitfield::new
    tags: C08 C01
    result: r
    ensures:
        !r.dirty,
        forall|k: int| 0 <= k < 32768 ==> !r.bit(k)
    first:
        assert(forall|o: u32| o < 32 ==> !bit_of(0u32, o)) by (bit_vector);
    @*/

    /*@ fn src/bitfield/fixed.rs FixedBitfield::get
    tags: C08 C01
    result: r
    requires:
        index < 32768
    ensures:
        r == self.bit(index as int)
    after `let offset = index &`:
        assert(index & 31 == index % 32) by (bit_vector);
        assert(index & 31 <= index) by (bit_vector);
    after `.expect("Could not fit 64 bit integer to usize on this architecture");`:
        let ghost w = self.bitfield@[i as int];
        assert((w & (1u32 << offset) != 0) == ((w >> offset) & 1 == 1)) by (bit_vector)
            requires offset < 32;
    @*/

    /*@ fn src/bitfield/fixed.rs FixedBitfield::set
    tags: C08 C01
    result: r
    requires:
        index < 32768
    ensures:
        forall|k: int| 0 <= k < 32768 ==> final(self).bit(k) == (if k == index { value } else { old(self).bit(k) }),
        r == (old(self).bit(index as int) != value),
        final(self).dirty == old(self).dirty
    after `let offset = index &`:
        assert(index & 31 == index % 32) by (bit_vector);
        assert(index & 31 <= index) by (bit_vector);
    after `let mask =`:
        let ghost w0 = self.bitfield@[i as int];
        assert((w0 & (1u32 << offset) != 0) == bit_of(w0, offset)) by (bit_vector)
            requires offset < 32;
        assert((w0 & (1u32 << offset) == 0) == !bit_of(w0, offset)) by (bit_vector)
            requires offset < 32;
        assert(forall|o: u32| o < 32 ==> bit_of(w0 ^ (1u32 << offset), o)
            == (if o == offset { !bit_of(w0, o) } else { bit_of(w0, o) })) by (bit_vector)
            requires offset < 32;
    @*/

    /*@ fn src/bitfield/fixed.rs FixedBitfield::set_range
    tags: C08 C01
    result: r
    requires:
        start as int + length as int <= 32768
    ensures:
        forall|k: int| 0 <= k < 32768 ==> final(self).bit(k)
            == (if start <= k < start + length { value } else { old(self).bit(k) }),
        r == (final(self).bitfield@ != old(self).bitfield@),
        final(self).dirty == old(self).dirty
    after `let mut offset = start`:
        assert(start & 31 == start % 32) by (bit_vector);
        assert(start & 31 <= start) by (bit_vector);
    loop 1:
        invariant
            n == 32, end == start + length, end <= 32768,
            offset < 32, i <= 1024,
            remaining == end as int - (32 * i as int + offset as int),
            start as int <= 32 * i as int + offset as int,
            offset == 0 || 32 * i as int + offset as int == start as int,
            self.dirty == old(self).dirty,
            forall|j: int| i as int <= j < 1024 ==> self.bitfield@[j] == old(self).bitfield@[j],
            forall|k: int| 0 <= k < 32 * i as int ==> self.bit(k)
                == (if start <= k < end { value } else { old(self).bit(k) }),
            changed ==> (exists|j: int| 0 <= j < i as int && self.bitfield@[j] != old(self).bitfield@[j]),
            !changed ==> self.bitfield@ == old(self).bitfield@
        decreases 1024 - i
    before `let mask_seed =`:
        assert(power as int == (if remaining <= 32 - offset { remaining as int } else { 32 - offset as int }));
        proof {
            if power < 32 {
                vstd::arithmetic::power2::lemma_pow2(power as nat);
                vstd::bits::lemma_u32_pow2_no_overflow(power as nat);
                vstd::arithmetic::power2::lemma_pow2_pos(power as nat);
            }
        }
    after `let mask: u32 =`:
        let ghost w = self.bitfield@[i as int];
        let ghost iw = i as int;
        let ghost snap = self.bitfield@;
        let ghost self0 = *self;
        assert(i < 1024);
        assert(forall|o: u32| o < 32 ==> bit_of(mask, o) == (offset <= o && (o as int) < offset as int + power as int)) by {
            if power == 32 {
                assert(offset == 0);
                assert(forall|o: u32| o < 32 ==> bit_of(0xffff_ffffu32 << 0u32, o)) by (bit_vector);
            } else {
                vstd::arithmetic::power2::lemma_pow2(power as nat);
                vstd::bits::lemma_u32_shl_is_mul(1u32, power);
                vstd::bits::lemma_u32_pow2_no_overflow(power as nat);
                assert(mask_seed == ((1u32 << power) - 1) as u32);
                assert(forall|o: u32| o < 32 ==> #[trigger] bit_of(mask, o)
                    == (offset <= o && o < offset + power)) by (bit_vector)
                    requires offset < 32, power < 32, offset + power <= 32,
                        mask == ((((1u32 << power) - 1) as u32) << offset);
            }
        }
        assert(forall|o: u32| o < 32 ==> bit_of(w | mask, o) == (bit_of(w, o) || bit_of(mask, o))) by (bit_vector);
        assert(forall|o: u32| o < 32 ==> bit_of(w & !mask, o) == (bit_of(w, o) && !bit_of(mask, o))) by (bit_vector);
        assert(((w & mask) != mask) ==> ((w | mask) != w)) by (bit_vector);
        assert(((w & mask) != 0) ==> ((w & !mask) != w)) by (bit_vector);
        assert(((w & mask) == mask) ==> (forall|o: u32| o < 32 && bit_of(mask, o) ==> bit_of(w, o))) by (bit_vector);
        assert(((w & mask) == 0) ==> (forall|o: u32| o < 32 && bit_of(mask, o) ==> !bit_of(w, o))) by (bit_vector);
    before `remaining -=`:
        assert forall|k: int| 0 <= k < 32 * iw + 32 implies #[trigger] self.bit(k)
                == (if start <= k < end { value } else { old(self).bit(k) }) by {
            if k < 32 * iw {
                assert(k / 32 < iw);
                assert(self.bitfield@[k / 32] == snap[k / 32]);
                assert(self.bit(k) == self0.bit(k));
            } else {
                assert(k / 32 == iw);
                let o = (k % 32) as u32;
                assert(o < 32);
                assert(old(self).bitfield@[iw] == w);
                assert(k == 32 * iw + o);
                assert(old(self).bit(k) == bit_of(w, o));
                assert(self.bit(k) == bit_of(self.bitfield@[iw], o));
                assert(bit_of(mask, o) == (offset <= o && (o as int) < offset as int + power as int));
                assert(bit_of(mask, o) == (start <= k < end));
            }
        }
    @*/

    /*@ fn src/bitfield/fixed.rs FixedBitfield::from_data
    tags: C08 C01 C06
    result: r
    requires:
        data_index + 4096 <= usize::MAX
    ensures:
        !r.dirty,
        forall|k: int| 0 <= k < 32768 ==> #[trigger] r.bit(k)
            == (data_index + 4 * (k / 32) + 4 <= data@.len() && bytes_bit(data@, 8 * data_index + k))
    first:
        assert(forall|o: u32| o < 32 ==> !bit_of(0u32, o)) by (bit_vector);
    loop 1:
        invariant
            data_index <= i <= limit + 4,
            (i - data_index) % 4 == 0,
            limit == (if data_index + 4096 <= data@.len() { data_index + 4096 } else { data@.len() as int }) - 4,
            data@.len() >= data_index + 4,
            forall|j: int| (i - data_index) / 4 <= j < 1024 ==> bitfield@[j] == 0u32,
            forall|k: int| 0 <= k < 8 * (i - data_index) ==> #[trigger] bit_of(bitfield@[k / 32], (k % 32) as u32)
                == bytes_bit(data@, 8 * data_index + k)
        decreases limit + 4 - i
    before `] = value;`:
        let ghost bf0 = bitfield@;
        let ghost wi = (i - data_index) / 4;
    before `i += `:
        proof {
            lemma_word_bytes(value, data@[i as int], data@[i + 1], data@[i + 2], data@[i + 3]);
            assert forall|k: int| 0 <= k < 8 * (i + 4 - data_index) implies
                #[trigger] bit_of(bitfield@[k / 32], (k % 32) as u32) == bytes_bit(data@, 8 * data_index + k) by {
                if k < 8 * (i - data_index) {
                    assert(k / 32 < wi);
                    assert(bitfield@[k / 32] == bf0[k / 32]);
                } else {
                    assert(k / 32 == wi);
                    let o = (k % 32) as u32;
                    assert(k == 32 * wi + o);
                    assert((8 * data_index + k) / 8 == i + o / 8);
                    assert((8 * data_index + k) % 8 == o % 8);
                    assert(bitfield@[wi] == value);
                }
            }
        }
    @*/

    /*@ fn src/bitfield/fixed.rs FixedBitfield::to_bytes
    tags: C08 C01 C06
    result: r
    ensures:
        r@.len() == 4096,
        forall|k: int| 0 <= k < 32768 ==> #[trigger] bytes_bit(r@, k) == self.bit(k)
    sub `for elem in self\.bitfield \{` => `for elem in it: self.bitfield.iter() {`
    sub `&elem\.to_le_bytes\(\)` => `&vp_u32_to_le_bytes(*elem)`
    loop 1:
        invariant
            i == 4 * it.index@,
            forall|k: int| 0 <= k < 8 * i ==> #[trigger] bytes_bit(data@, k) == self.bit(k)
    before `i += `:
        proof {
            let ghost w = *elem;
            let ghost wi = it.index@ as int;
            assert(w == self.bitfield@[wi]);
            lemma_byte_of(w);
            lemma_word_bytes(w, byte_of(w, 0), byte_of(w, 1), byte_of(w, 2), byte_of(w, 3));
            assert forall|k: int| 0 <= k < 8 * (i + 4) implies #[trigger] bytes_bit(data@, k) == self.bit(k) by {
                if k < 8 * i {
                    assert(data@[k / 8] == data0[k / 8]);
                    assert(bytes_bit(data0, k) == self.bit(k));
                } else {
                    let o = (k % 32) as u32;
                    assert(k / 32 == wi);
                    assert(k / 8 == i + o / 8);
                    assert(k % 8 == o % 8);
                }
            }
        }
    before `data[i] =`:
        let ghost data0 = data@;
    @*/
}

// ======================= src/bitfield/dynamic.rs (R5: RefCell erased) =======================
/*@ item src/bitfield/dynamic.rs const DYNAMIC_BITFIELD_PAGE_SIZE @*/
/*@ item src/bitfield/dynamic.rs struct DynamicBitfield ; refcell @*/

impl DynamicBitfield {
    pub open spec fn bit(&self, i: int) -> bool {
        let p = (i / 32768) as u64;
        0 <= i <= u64::MAX && self.pages@.contains_key(p) && self.pages@[p].bit(i % 32768)
    }
    pub open spec fn wf(&self) -> bool {
        &&& forall|p: u64| self.pages@.contains_key(p) ==> p <= self.biggest_page_index && p <= 0xffff_ffff_ffff
        &&& forall|p: u64| #![trigger self.pages@[p]] self.pages@.contains_key(p) && self.pages@[p].dirty ==> self.unflushed@.contains(p)
        &&& forall|j: int| 0 <= j < self.unflushed@.len() ==> self.pages@.contains_key(#[trigger] self.unflushed@[j])
    }

    /*@ fn src/bitfield/dynamic.rs DynamicBitfield::get ; refcell
    tags: C08 C01
    result: r
    ensures:
        r == self.bit(index as int)
    after `let j = index &`:
        assert(index & 32767 == index % 32768) by (bit_vector);
    @*/

    /*@ fn src/bitfield/dynamic.rs DynamicBitfield::update ; refcell
    tags: C08 C01 C02
    requires:
        old(self).wf(),
        bitfield_update.start + bitfield_update.length <= 0x4000_0000_0000_0000
    ensures:
        final(self).wf(),
        forall|k: int| #![trigger final(self).bit(k)] final(self).bit(k) == (if bitfield_update.start <= k < bitfield_update.start + bitfield_update.length { !bitfield_update.drop } else { old(self).bit(k) }),
        forall|k: int| 0 <= k && #[trigger] final(self).bit(k) != old(self).bit(k) ==> final(self).unflushed@.contains((k / 32768) as u64),
        forall|x: u64| old(self).unflushed@.contains(x) ==> final(self).unflushed@.contains(x)
    @*/

    /*@ fn src/bitfield/dynamic.rs DynamicBitfield::set_range ; refcell
    tags: C08 C01 C02
    requires:
        old(self).wf(),
        start + length <= 0x4000_0000_0000_0000
    ensures:
        final(self).wf(),
        forall|k: int| #![trigger final(self).bit(k)] final(self).bit(k) == (if start <= k < start + length { value } else { old(self).bit(k) }),
        forall|k: int| 0 <= k && #[trigger] final(self).bit(k) != old(self).bit(k) ==> final(self).unflushed@.contains((k / 32768) as u64),
        forall|x: u64| old(self).unflushed@.contains(x) ==> final(self).unflushed@.contains(x)
    after `let mut j = start &`:
        assert(start & 32767 == start % 32768) by (bit_vector);
        let ghost len0 = length;
    loop 1:
        invariant
            self.wf(),
            j < 32768,
            length > 0 ==> i as int * 32768 + j + length == start + len0,
            length == 0 ==> i as int * 32768 + j >= start + len0,
            start + len0 <= 0x4000_0000_0000_0000,
            j == 0 || i as int * 32768 + j == start,
            start <= i as int * 32768 + j,
            forall|p: u64| p >= i ==> #[trigger] self.pages@.contains_key(p) == old(self).pages@.contains_key(p),
            forall|p: u64| p >= i && self.pages@.contains_key(p) ==> #[trigger] self.pages@[p] == old(self).pages@[p],
            forall|k: int| 0 <= k < i as int * 32768 ==> #[trigger] self.bit(k) == (if start <= k < start + len0 { value } else { old(self).bit(k) }),
            forall|k: int| 0 <= k < i as int * 32768 && #[trigger] self.bit(k) != old(self).bit(k) ==> self.unflushed@.contains((k / 32768) as u64),
            forall|x: u64| old(self).unflushed@.contains(x) ==> self.unflushed@.contains(x)
        decreases length
    last:
        proof {
            assert forall|k: int| #![trigger self.bit(k)] self.bit(k) == (if start <= k < start + len0 { value } else { old(self).bit(k) })
                && (0 <= k && self.bit(k) != old(self).bit(k) ==> self.unflushed@.contains((k / 32768) as u64)) by {
                if 0 <= k <= u64::MAX && k >= i as int * 32768 {
                    let p = (k / 32768) as u64;
                    assert(p >= i);
                    assert(self.pages@.contains_key(p) == old(self).pages@.contains_key(p));
                }
            }
        }
    before `if !self.pages.contains_key(i)`:
        let ghost s0 = *self;
        let ghost ii = i;
        let ghost jj = j;
    before `let mut p = self.pages.get_mut(i)`:
        let ghost s1 = *self;
        assert(s1.pages@.contains_key(ii));
        assert(forall|k: int| 0 <= k < 32768 ==> !s0.pages@.contains_key(ii) ==> !s1.pages@[ii].bit(k));
        assert(s0.pages@.contains_key(ii) ==> s1.pages@[ii] == s0.pages@[ii]);
        assert(!s0.pages@.contains_key(ii) ==> !s1.pages@[ii].dirty);
    after `let changed = p.set_range`:
        let ghost pmid = *p;
    before `j = 0;`:
        proof {
            lemma_push_contains(s1.unflushed@, ii);
            assert(s1.unflushed@ == s0.unflushed@);
            assert(self.unflushed@ == s1.unflushed@ || self.unflushed@ == s1.unflushed@.push(ii));
            let pg = self.pages@[ii];
            let pg1 = s1.pages@[ii];
            assert(self.pages@ == s1.pages@.insert(ii, pg));
            assert(forall|q: u64| q != ii ==> self.pages@.contains_key(q) == s0.pages@.contains_key(q));
            assert(forall|q: u64| q != ii && self.pages@.contains_key(q) ==> #[trigger] self.pages@[q] == s0.pages@[q]);
            assert forall|k: int| 0 <= k < (ii as int + 1) * 32768 implies
                #[trigger] self.bit(k) == (if start <= k < start + len0 { value } else { old(self).bit(k) })
                && (self.bit(k) != old(self).bit(k) ==> self.unflushed@.contains((k / 32768) as u64)) by {
                if k < ii as int * 32768 {
                    assert((k / 32768) as u64 != ii);
                    assert(self.bit(k) == s0.bit(k));
                    assert(s0.unflushed@.contains((k / 32768) as u64) ==> self.unflushed@.contains((k / 32768) as u64));
                } else {
                    assert(k / 32768 == ii as int);
                    let kk = k % 32768;
                    assert(k == ii as int * 32768 + kk);
                    assert(self.bit(k) == pg.bit(kk));
                    assert(pg.bitfield@ == pmid.bitfield@);
                    assert(pmid.bit(kk) == (if range_start <= kk < range_start + range_end { value } else { pg1.bit(kk) }));
                    assert(pg.bit(kk) == pmid.bit(kk));
                    assert(old(self).bit(k) == pg1.bit(kk));
                    assert((range_start <= kk < range_start + range_end) == (start <= k < start + len0));
                    if !changed {
                        assert(pmid.bitfield@ == pg1.bitfield@);
                        assert(pg.bit(kk) == pg1.bit(kk));
                    }
                }
            }
        }
    @*/
}

impl DynamicBitfield {
    /*@ fn src/bitfield/dynamic.rs DynamicBitfield::set ; refcell
    tags: C08 C01
    result: r
    requires:
        old(self).wf(),
        index < 0x4000_0000_0000_0000
    ensures:
        final(self).wf(),
        forall|k: int| #![trigger final(self).bit(k)] final(self).bit(k) == (if k == index { value } else { old(self).bit(k) }),
        r == (old(self).bit(index as int) != value),
        r ==> final(self).unflushed@.contains((index / 32768) as u64),
        forall|x: u64| old(self).unflushed@.contains(x) ==> final(self).unflushed@.contains(x)
    after `let j = index &`:
        assert(index & 32767 == index % 32768) by (bit_vector);
        let ghost s0 = *self;
    before `let mut p = self.pages.get_mut(i)`:
        let ghost s1 = *self;
        assert(forall|k: int| 0 <= k < 32768 ==> !s0.pages@.contains_key(i) ==> !s1.pages@[i].bit(k));
    last:
        proof {
            lemma_push_contains(s1.unflushed@, i);
            assert(self.unflushed@ == s1.unflushed@ || self.unflushed@ == s1.unflushed@.push(i));
            let pg = self.pages@[i];
            assert(self.pages@ == s1.pages@.insert(i, pg));
            assert forall|k: int| #![trigger self.bit(k)] self.bit(k) == (if k == index { value } else { old(self).bit(k) }) by {
                if 0 <= k <= u64::MAX {
                    if k / 32768 == i as int {
                        let kk = k % 32768;
                        assert(pg.bit(kk) == pmid.bit(kk));
                    } else {
                        assert((k / 32768) as u64 != i);
                    }
                }
            }
        }
    after `let changed: bool = p.set(`:
        let ghost pmid = *p;
    @*/

    /*@ fn src/bitfield/dynamic.rs DynamicBitfield::flush ; refcell
    tags: C08 C01 C02 C06
    result: r
    requires:
        old(self).wf()
    ensures:
        final(self).wf(),
        final(self).unflushed@.len() == 0,
        forall|k: int| #![trigger final(self).bit(k)] final(self).bit(k) == old(self).bit(k),
        forall|p: u64| final(self).pages@.contains_key(p) ==> !(#[trigger] final(self).pages@[p]).dirty,
        r@.len() == old(self).unflushed@.len(),
        forall|n: int| 0 <= n < r@.len() ==> is_page_write(#[trigger] r@[n], old(self).unflushed@[n], old(self).pages@[old(self).unflushed@[n]])
    sub `for unflushed_id in &self\.unflushed \{` => `for unflushed_id in it: self.unflushed.iter() {`
    loop 1:
        invariant
            infos_to_flush@.len() == it.index@,
            self.unflushed@ == old(self).unflushed@,
            self.biggest_page_index == old(self).biggest_page_index,
            old(self).wf(),
            self.pages@.dom() == old(self).pages@.dom(),
            forall|p: u64| self.pages@.contains_key(p) ==> (#[trigger] self.pages@[p]).bitfield@ == old(self).pages@[p].bitfield@,
            forall|p: u64| self.pages@.contains_key(p) && (#[trigger] self.pages@[p]).dirty ==> old(self).pages@[p].dirty,
            forall|m: int| 0 <= m < it.index@ ==> !(#[trigger] self.pages@[old(self).unflushed@[m]]).dirty,
            forall|m: int| 0 <= m < it.index@ ==> is_page_write(#[trigger] infos_to_flush@[m], old(self).unflushed@[m], old(self).pages@[old(self).unflushed@[m]])
    before `let mut p = self.pages.get_mut(*unflushed_id)`:
        let ghost s1 = *self;
        let ghost id = *unflushed_id;
        let ghost n = it.index@;
        assert(id == old(self).unflushed@[n as int]);
        assert(s1.pages@.contains_key(id));
        let ghost infos0 = infos_to_flush@;
    after `let data = p.to_bytes();`:
        assert(id <= 0xffff_ffff_ffff);
        assert(data@.len() == 4096);
        assert(id * 4096 <= 0xffff_ffff_ffff * 4096) by (nonlinear_arith) requires id <= 0xffff_ffff_ffff;
    after `p.dirty = false;`:
        proof {
            let pg = self.pages@[id];
            assert(self.pages@ == s1.pages@.insert(id, pg));
            assert(pg.bitfield@ == s1.pages@[id].bitfield@);
            assert(forall|k: int| 0 <= k < 32768 ==> pg.bit(k) == old(self).pages@[id].bit(k));
            assert(infos_to_flush@ == infos0.push(infos_to_flush@[n as int]));
            assert(forall|m: int| 0 <= m < n ==> infos_to_flush@[m] == infos0[m]);
        }
    last:
        proof {
            assert forall|p: u64| self.pages@.contains_key(p) implies !(#[trigger] self.pages@[p]).dirty by {
                if self.pages@[p].dirty {
                    assert(old(self).pages@[p].dirty);
                    assert(old(self).unflushed@.contains(p));
                    let m = choose|m: int| 0 <= m < old(self).unflushed@.len() && old(self).unflushed@[m] == p;
                    assert(!self.pages@[old(self).unflushed@[m]].dirty);
                }
            }
        }
    @*/
}

// one flushed page: Write(Bitfield, 4096 * page_id, 4096 bytes in the JS layout)
pub open spec fn is_page_write(info: StoreInfo, id: u64, page: FixedBitfield) -> bool {
    &&& info.store == Store::Bitfield
    &&& info.info_type == StoreInfoType::Content
    &&& !info.miss
    &&& info.index == id * 4096
    &&& info.data is Some
    &&& info.data->Some_0@.len() == 4096
    &&& forall|k: int| 0 <= k < 32768 ==> #[trigger] bytes_bit(info.data->Some_0@, k) == page.bit(k)
}

// bit i of the bitfield *file*: pages of 4096 bytes, whole little-endian 32-bit words only
pub open spec fn file_bit(data: Seq<u8>, i: int) -> bool {
    0 <= i && 4 * (i / 32) + 4 <= data.len() && bytes_bit(data, i)
}

impl DynamicBitfield {
    /*@ fn src/bitfield/dynamic.rs DynamicBitfield::open ; refcell
    tags: C08 C01 C06 C07
    result: r
    requires:
        info is Some ==> (info->Some_0.info_type == StoreInfoType::Size ==> info->Some_0.length is Some),
        info is Some ==> (info->Some_0.info_type == StoreInfoType::Content ==> info->Some_0.data is Some && info->Some_0.data->Some_0@.len() <= 0x1_0000_0000_0000)
    ensures:
        info is None ==> r is Left && r->Left_0.store == Store::Bitfield && r->Left_0.info_type == StoreInfoType::Size && r->Left_0.index == 0 && !r->Left_0.allow_miss,
        info is Some && info->Some_0.info_type == StoreInfoType::Size ==> r is Left && r->Left_0.store == Store::Bitfield
            && r->Left_0.info_type == StoreInfoType::Content && r->Left_0.index == 0 && !r->Left_0.allow_miss
            && r->Left_0.length == Some((info->Some_0.length->Some_0 - info->Some_0.length->Some_0 % 4) as u64),
        info is Some && info->Some_0.info_type == StoreInfoType::Content ==> r is Right && r->Right_0.wf()
            && r->Right_0.unflushed@.len() == 0
            && forall|k: int| #![trigger r->Right_0.bit(k)] r->Right_0.bit(k) == file_bit(info->Some_0.data->Some_0@, k)
    before `let length = `:
        assert(bitfield_store_length & 3 == bitfield_store_length % 4) by (bit_vector);
        assert(bitfield_store_length & 3 <= bitfield_store_length) by (bit_vector);
    loop 1:
        invariant
            data_index % 4096 == 0,
            data@.len() <= 0x1_0000_0000_0000,
            data_index <= data@.len() + 4096,
            forall|q: u64| #[trigger] pages@.contains_key(q) <==> (q as int) * 4096 < data_index,
            forall|q: u64| pages@.contains_key(q) ==> q <= biggest_page_index,
            forall|q: u64| pages@.contains_key(q) ==> !(#[trigger] pages@[q]).dirty,
            forall|q: u64, kk: int| pages@.contains_key(q) && 0 <= kk < 32768 ==> #[trigger] pages@[q].bit(kk)
                == file_bit(data@, q as int * 32768 + kk)
        decreases data@.len() + 4096 - data_index
    @*/
}

impl FixedBitfield {
    /*@ fn src/bitfield/fixed.rs FixedBitfield::index_of
    tags: C08 C01
    result: r
    requires:
        position <= 32768
    ensures:
        r is Some ==> position <= r->Some_0 < 32768 && self.bit(r->Some_0 as int) == value && forall|j: int| position <= j < r->Some_0 ==> self.bit(j) != value,
        r is None ==> forall|j: int| position <= j < 32768 ==> self.bit(j) != value
    sub `(?m)\((.*?)\.\.(.*?)\)\.find\(\|&i\| (.*?)\)$` => `{ let ghost vp_p = |i: u32| self.bit(i as int) == value; let vp_res = vp_find_up(\1, \2, |i: u32| -> (vp_r: bool) requires i < 32768 ensures vp_r == (self.bit(i as int) == value) { \3 }, Ghost(vp_p)); proof { assert forall|j: int| position <= j < 32768 && (vp_res is None || j < vp_res->Some_0) implies self.bit(j) != value by { let ju = j as u32; assert(!vp_p(ju)); } } vp_res }`
    @*/
    /*@ fn src/bitfield/fixed.rs FixedBitfield::last_index_of
    tags: C08 C01
    result: r
    requires:
        position < 32768
    ensures:
        r is Some ==> r->Some_0 <= position && self.bit(r->Some_0 as int) == value && forall|j: int| r->Some_0 < j <= position ==> self.bit(j) != value,
        r is None ==> forall|j: int| 0 <= j <= position ==> self.bit(j) != value
    sub `(?m)\((.*?)\.\.(.*?)\)\.rev\(\)\.find\(\|&i\| (.*?)\)$` => `{ let ghost vp_p = |i: u32| self.bit(i as int) == value; let vp_res = vp_find_down(\1, \2, |i: u32| -> (vp_r: bool) requires i < 32768 ensures vp_r == (self.bit(i as int) == value) { \3 }, Ghost(vp_p)); proof { assert forall|j: int| 0 <= j <= position && (vp_res is None || j > vp_res->Some_0) implies self.bit(j) != value by { let ju = j as u32; assert(!vp_p(ju)); } } vp_res }`
    @*/
}

impl DynamicBitfield {
    /// no held block on the pages strictly between two page indices
    pub open spec fn pages_empty(&self, lo: int, hi: int) -> bool { forall|j: int| lo * 32768 <= j < hi * 32768 ==> !(#[trigger] self.bit(j)) }

    /*@ fn src/bitfield/dynamic.rs DynamicBitfield::index_of ; refcell noisolation
    tags: C08 C01
    result: r
    requires:
        self.wf(), value, position <= 0x4000_0000_0000_0000
    ensures:
        // the first held block at or after `position`
        r is Some ==> r->Some_0 >= position && self.bit(r->Some_0 as int) && forall|j: int| position <= j < r->Some_0 ==> !(#[trigger] self.bit(j)),
        r is None ==> forall|j: int| position <= j ==> !(#[trigger] self.bit(j))
    sub `(?s)let mut keys: Vec<&u64> = self\.pages\.keys\(\)\.filter\(\|key\| \*\*key > first_page\)\.collect\(\);\s*keys\.sort\(\);` => `let keys: Vec<u64> = intmap::vp_sorted_keys_gt(&self.pages, first_page);`
    sub `for key in keys \{` => `let mut vp_i: usize = 0; while vp_i < keys.len() { let key = &keys[vp_i]; vp_i += 1;`
    sub `Some\(key \* ` => `Some(*key * `
    after `let first_index =`:
        assert(position & 32767 == position % 32768) by (bit_vector);
    before `let mut vp_i: usize = 0;`:
        // the rest of the page of `position` holds nothing
        assert forall|j: int| position <= j < (first_page + 1) * 32768 implies !(#[trigger] self.bit(j)) by { assert(j / 32768 == first_page); }
    loop 1:
        invariant
            vp_i <= keys@.len(),
            forall|t: int, jj: int| 0 <= t < vp_i && 0 <= jj < 32768 ==> !(#[trigger] self.pages@[keys@[t]].bit(jj))
        decreases keys@.len() - vp_i
    loop 2:
        decreases 0int
    before `return Some(*key * DYNAMIC_BITFIELD_PAGE_SIZE as u64 + index as u64);`:
        proof {
            let rr = *key * 32768 + index;
            assert(rr / 32768 == *key && rr % 32768 == index);
            assert forall|j: int| position <= j < rr implies !(#[trigger] self.bit(j)) by {
                let pg = (j / 32768) as u64;
                if pg > first_page && pg < *key && self.pages@.contains_key(pg) {
                    assert(keys@.contains(pg));
                    let t = choose|t: int| 0 <= t < keys@.len() && keys@[t] == pg;
                    if t > vp_i - 1 { assert(keys@[vp_i - 1] < keys@[t]); }
                    assert(t < vp_i - 1);
                    assert(!self.pages@[keys@[t]].bit(j % 32768));
                }
            }
        }
    before `} else {`#1:
        proof {
            if value {
                assert forall|j: int| position <= j implies !(#[trigger] self.bit(j)) by {
                    let pg = (j / 32768) as u64;
                    if j <= u64::MAX && pg > first_page && self.pages@.contains_key(pg) {
                        assert(keys@.contains(pg));
                        let t = choose|t: int| 0 <= t < keys@.len() && keys@[t] == pg;
                        assert(!self.pages@[keys@[t]].bit(j % 32768));
                    }
                }
            }
        }
    @*/

    /*@ fn src/bitfield/dynamic.rs DynamicBitfield::last_index_of ; refcell noisolation
    tags: C08 C01
    result: r
    requires:
        self.wf(), value, position <= 0x4000_0000_0000_0000
    ensures:
        // the last held block at or before `position`
        r is Some ==> r->Some_0 <= position && self.bit(r->Some_0 as int) && forall|j: int| r->Some_0 < j <= position ==> !(#[trigger] self.bit(j)),
        r is None ==> forall|j: int| 0 <= j <= position ==> !(#[trigger] self.bit(j))
    sub `(?s)let mut keys: Vec<&u64> = self\.pages\.keys\(\)\.filter\(\|key\| \*\*key < last_page\)\.collect\(\);\s*keys\.sort\(\);\s*keys\.reverse\(\);` => `let keys: Vec<u64> = intmap::vp_sorted_keys_lt_desc(&self.pages, last_page);`
    sub `for key in keys \{` => `let mut vp_i: usize = 0; while vp_i < keys.len() { let key = &keys[vp_i]; vp_i += 1;`
    sub `Some\(key \* ` => `Some(*key * `
    after `let last_index =`:
        assert(position & 32767 == position % 32768) by (bit_vector);
    before `let mut vp_i: usize = 0;`:
        // the page of `position` holds nothing at or before it
        assert forall|j: int| last_page * 32768 <= j <= position implies !(#[trigger] self.bit(j)) by { assert(j / 32768 == last_page); }
    loop 1:
        invariant
            vp_i <= keys@.len(),
            forall|t: int, jj: int| 0 <= t < vp_i && 0 <= jj < 32768 ==> !(#[trigger] self.pages@[keys@[t]].bit(jj))
        decreases keys@.len() - vp_i
    loop 2:
        decreases 0int
    before `return Some(*key * DYNAMIC_BITFIELD_PAGE_SIZE as u64 + index as u64);`:
        proof {
            let rr = *key * 32768 + index;
            assert(rr / 32768 == *key && rr % 32768 == index);
            assert forall|j: int| rr < j <= position implies !(#[trigger] self.bit(j)) by {
                let pg = (j / 32768) as u64;
                if pg < last_page && pg > *key && self.pages@.contains_key(pg) {
                    assert(keys@.contains(pg));
                    let t = choose|t: int| 0 <= t < keys@.len() && keys@[t] == pg;
                    if t > vp_i - 1 { assert(keys@[vp_i - 1] > keys@[t]); }
                    assert(t < vp_i - 1);
                    assert(!self.pages@[keys@[t]].bit(j % 32768));
                }
            }
        }
    before `} else {`#1:
        proof {
            if value {
                assert forall|j: int| 0 <= j <= position implies !(#[trigger] self.bit(j)) by {
                    let pg = (j / 32768) as u64;
                    if pg < last_page && self.pages@.contains_key(pg) {
                        assert(keys@.contains(pg));
                        let t = choose|t: int| 0 <= t < keys@.len() && keys@[t] == pg;
                        assert(!self.pages@[keys@[t]].bit(j % 32768));
                    }
                }
            }
        }
    @*/
}

pub proof fn lemma_push_contains<T>(s: Seq<T>, x: T)
    ensures forall|y: T| #[trigger] s.push(x).contains(y) <==> (s.contains(y) || y == x)
{
    assert forall|y: T| #[trigger] s.push(x).contains(y) <==> (s.contains(y) || y == x) by {
        if s.push(x).contains(y) {
            let j = choose|j: int| 0 <= j < s.push(x).len() && s.push(x)[j] == y;
            if j < s.len() { assert(s[j] == y); }
        }
        if s.contains(y) {
            let j = choose|j: int| 0 <= j < s.len() && s[j] == y;
            assert(s.push(x)[j] == y);
        }
        if y == x { assert(s.push(x)[s.len() as int] == y); }
    }
}

