/*@ item src/oplog/mod.rs const MAX_OPLOG_ENTRIES_BYTE_SIZE @*/
/*@ item src/oplog/mod.rs const HEADER_SIZE @*/
/*@ item src/oplog/mod.rs const CRC_SIZE @*/
/*@ item src/oplog/mod.rs const LEN_PARTIAL_AND_HEADER_INFO_SIZE @*/
/*@ item src/oplog/mod.rs const LEADER_SIZE @*/
/*@ item src/oplog/mod.rs struct Oplog @*/
/*@ item src/oplog/mod.rs struct OplogCreateHeaderOutcome @*/
/*@ item src/oplog/mod.rs struct OplogOpenOutcome @*/
/*@ item src/oplog/mod.rs enum OplogSlot @*/
/*@ item src/oplog/mod.rs struct ValidateLeaderOutcome @*/
/*@ enum-cast src/oplog/mod.rs OplogSlot vp_slot_value @*/
/*@ item src/oplog/mod.rs const INITIAL_HEADER_BITS @*/
/*@ item src/crypto/manifest.rs const DEFAULT_NAMESPACE @*/

// ---------------- format ----------------
pub open spec fn le32(v: u32) -> Seq<u8> { le_bytes(v as u64, 4) }
pub open spec fn leader_word(len: int, partial: bool, hbit: bool) -> u32 {
    ((len as u32) << 2) | (if hbit { 1u32 } else { 0u32 }) | (if partial { 2u32 } else { 0u32 })
}
/// leader ++ payload: LE32(crc(LE32(word) ++ payload)) ++ LE32(word) ++ payload
pub open spec fn frame(payload: Seq<u8>, partial: bool, hbit: bool) -> Seq<u8> {
    let w = le32(leader_word(payload.len() as int, partial, hbit));
    le32(crc32fast::spec_crc(w + payload)) + w + payload
}

pub open spec fn le32_dec(s: Seq<u8>) -> u32 {
    (s[0] as u32) | ((s[1] as u32) << 8) | ((s[2] as u32) << 16) | ((s[3] as u32) << 24)
}
pub proof fn lemma_le32_dec(v: u32)
    ensures le32_dec(le32(v)) == v, le32(v).len() == 4
{
    reveal_with_fuel(le_bytes, 5);
    lemma_le_bytes_len(v as u64, 4);
    let x = v as u64;
    assert(((x & 0xff) as u8 as u32) | ((((x >> 8) & 0xff) as u8 as u32) << 8) | (((((x >> 8) >> 8) & 0xff) as u8 as u32) << 16)
        | ((((((x >> 8) >> 8) >> 8) & 0xff) as u8 as u32) << 24) == v) by (bit_vector) requires x == v as u64;
}
pub proof fn lemma_le32_unique(v: u32, s: Seq<u8>)
    requires le_bytes(v as u64, 4) == s
    ensures v == le32_dec(s)
{ lemma_le32_dec(v); }

pub struct LeaderSpec { pub hbit: bool, pub partial: bool, pub len: int }
/// what a reader of the JS layout sees at the start of `buf`: a valid leader (length > 0, payload present,
/// checksum over LE32(word) ++ payload matches) or nothing.  A checksum mismatch is "nothing" (a torn write).
pub open spec fn leader_at(buf: Seq<u8>) -> Option<LeaderSpec> {
    if buf.len() < 8 { None } else {
        let c = le32_dec(buf.subrange(0, 4));
        let w = le32_dec(buf.subrange(4, 8));
        let len = (w >> 2) as int;
        if len == 0 || buf.len() - 8 < len { None }
        else if crc32fast::spec_crc(buf.subrange(4, 8 + len)) != c { None }
        else { Some(LeaderSpec { hbit: w & 1 == 1, partial: w & 2 == 2, len: len }) }
    }
}

/// Create a header. 30 bits are the length plus two bits for "partial" and "header" info
/*@ fn src/oplog/mod.rs fn build_len_and_info_header
tags: C02 C06 C07
result: r
requires:
    data_length < 0x4000_0000
ensures:
    r == leader_word(data_length as int, partial_bit, header_bit)
sub `\(3u32\)\.rotate_right\(2\)` => `0xC000_0000u32`
after `const MASK: u32 =`:
    assert(forall|x: u32| x < 0x4000_0000 ==> #[trigger] (0xC000_0000u32 & x) == 0) by (bit_vector);
@*/

/*@ fn src/oplog/mod.rs fn write_leader_parts
tags: C02 C06 C07
result: r
requires:
    data@.len() < 0x4000_0000
ensures:
    r is Ok,
    r is Ok ==> final(len_and_meta_zone)@ == le32(leader_word(data@.len() as int, partial_bit, header_bit)),
    r is Ok ==> final(crc_zone)@ == le32(crc32fast::spec_crc(le32(leader_word(data@.len() as int, partial_bit, header_bit)) + data@))
first:
    proof {
        assert forall|v: u64| #![trigger le_bytes(v, 4)] le_bytes(v, 4).len() == 4 by { lemma_le_bytes_len(v, 4); }
    }
after `(len_and_info.as_fixed_width()).encode(len_and_meta_zone)?;`:
    assert(len_and_meta_zone@ =~= le32(len_and_info));
last:
    assert(crc_zone@ =~= le32(crc32fast::spec_crc(le32(len_and_info) + data@)));
@*/

/*@ fn src/oplog/mod.rs fn encode_with_leader
tags: C02 C06 C07 C12
result: r
requires:
    thing.enc_ok(),
    thing.spec_enc().len() < 0x4000_0000
ensures:
    r is Ok ==> old(buffer)@.len() >= 8 + thing.spec_enc().len()
        && (*r->Ok_0)@ == old(buffer)@.skip(8 + thing.spec_enc().len() as int)
        && final(buffer)@ == frame(thing.spec_enc(), partial_bit, header_bit) + (*final(r->Ok_0))@,
    old(buffer)@.len() >= 8 + thing.spec_enc().len() ==> r is Ok
@*/

impl Oplog {
    pub open spec fn cur_hbit(bits: [bool; 2]) -> bool { bits[0] != bits[1] }

    /*@ fn src/oplog/mod.rs Oplog::validate_leader
    tags: C07 C06 C02 C01
    result: r
    ensures:
        // total on arbitrary bytes, and never a hard error: an invalid leader is "nothing here"
        r is Ok,
        (r->Ok_0 is None) == (leader_at(buffer@) is None),
        r->Ok_0 is Some ==> r->Ok_0->Some_0.header_bit == leader_at(buffer@)->Some_0.hbit
            && r->Ok_0->Some_0.partial_bit == leader_at(buffer@)->Some_0.partial
            && r->Ok_0->Some_0.state@ == buffer@.skip(8)
    after `map_decode!(buffer, [FixedWidthU32<'_>, FixedWidthU32<'_>]);`:
        proof {
            lemma_le32_unique(stored_checksum, buffer@.subrange(0, 4));
            assert(buffer@.skip(4).subrange(0, 4) =~= buffer@.subrange(4, 8));
            lemma_le32_unique(combined, buffer@.subrange(4, 8));
            assert(buffer@.skip(4).skip(4) =~= buffer@.skip(8));
        }
    @*/

    /*@ fn src/oplog/mod.rs Oplog::get_current_header_bit
    tags: C02 C06
    result: r
    ensures:
        r == Self::cur_hbit(self.header_bits)
    @*/

    /*@ fn src/oplog/mod.rs Oplog::get_next_header_oplog_slot_and_bit_value
    tags: C02 C06 C12
    result: r
    ensures:
        // the slot that is NOT live is written, with the bit that makes it live
        (header_bits[0] != header_bits[1]) ==> r.0 is FirstHeader && r.1 == !header_bits[0],
        (header_bits[0] == header_bits[1]) ==> r.0 is SecondHeader && r.1 == !header_bits[1]
    @*/
}

pub open spec fn zeros(n: int) -> Seq<u8> { Seq::new(n as nat, |i: int| 0u8) }
/// a header slot write: frame(enc(header)) followed by zero padding
pub open spec fn is_slot_write(info: StoreInfo, slot: int, h: Header, hbit: bool, total: int) -> bool {
    &&& info.store == Store::Oplog && info.info_type == StoreInfoType::Content && !info.miss
    &&& info.index == slot
    &&& info.data is Some && info.data->Some_0@.len() == total
    &&& info.data->Some_0@ == frame(header_enc(h), false, hbit) + zeros(total - 8 - header_enc(h).len())
}
pub open spec fn is_truncate(info: StoreInfo, store: Store, at: int) -> bool {
    info.store == store && info.info_type == StoreInfoType::Size && info.miss && info.index == at
}
/// the header invariant: it can be encoded (standard manifest) and both slots hold a framed header without overlapping
pub open spec fn header_fits(h: Header) -> bool { 0 < header_enc(h).len() <= 2044 && manifest_std(h.manifest) }

impl Oplog {
    /*@ fn src/oplog/mod.rs Oplog::insert_header
    tags: C02 C06 C12 C10
    result: r
    requires:
        header_fits(*header),
        entries_byte_length <= 0xffff_ffff_ffff
    ensures:
        r is Ok,
        // the slot that is not live is written and becomes the live one
        r is Ok ==> r->Ok_0.0[0] == (if current_header_bits[0] != current_header_bits[1] { !current_header_bits[0] } else { current_header_bits[0] }),
        r is Ok ==> r->Ok_0.0[1] == (if current_header_bits[0] != current_header_bits[1] { current_header_bits[1] } else { !current_header_bits[1] }),
        r is Ok ==> r->Ok_0.1@.len() == 2,
        r is Ok ==> is_slot_write(r->Ok_0.1@[0], if current_header_bits[0] != current_header_bits[1] { 0int } else { 4096int }, *header,
            if current_header_bits[0] != current_header_bits[1] { !current_header_bits[0] } else { !current_header_bits[1] },
            if clear_traces { 4096int } else { 8 + 2 * header_enc(*header).len() as int }),
        r is Ok ==> is_truncate(r->Ok_0.1@[1], Store::Oplog, 8192 + entries_byte_length)
    sub `OplogSlot::Entries as u64` => `vp_slot_value(&OplogSlot::Entries)`
    sub `oplog_slot as u64` => `vp_slot_value(&oplog_slot)`
    after `let mut buffer = vec![0; size];`:
        let ghost buf0 = buffer@;
        assert(buf0 =~= zeros(size as int));
    before `let truncate_index =`:
        proof {
            let n = header_enc(*header).len() as int;
            assert(buf0.skip(8 + n) =~= zeros(size - 8 - n));
            assert(buffer@ == frame(header_enc(*header), false, header_bit) + zeros(size - 8 - n));
            assert(size == (if clear_traces { 4096int } else { 8 + 2 * n }));
            let first = current_header_bits[0] != current_header_bits[1];
            assert(header_bit == (if first { !current_header_bits[0] } else { !current_header_bits[1] }));
            assert(spec_vp_slot_value(oplog_slot) == (if first { 0u64 } else { 4096u64 }));
            assert forall|v: u64| #![trigger le_bytes(v, 4)] le_bytes(v, 4).len() == 4 by { lemma_le_bytes_len(v, 4); }
            assert(frame(header_enc(*header), false, header_bit).len() == 8 + n);
            assert(buffer@.len() == size);
        }
    @*/
}

pub broadcast proof fn lemma_frame_len(p: Seq<u8>, partial: bool, hbit: bool)
    ensures #[trigger] frame(p, partial, hbit).len() == 8 + p.len()
{ lemma_le_bytes_len(leader_word(p.len() as int, partial, hbit) as u64, 4);
  lemma_le_bytes_len(crc32fast::spec_crc(le32(leader_word(p.len() as int, partial, hbit)) + p) as u64, 4); }

/// the bytes of a batch of entries appended in one write: entry i is flagged partial iff atomic and not the last
pub open spec fn frames(batch: Seq<Entry>, atomic: bool, hbit: bool, upto: int) -> Seq<u8>
    decreases upto
{
    if upto <= 0 { Seq::<u8>::empty() } else {
        frames(batch, atomic, hbit, upto - 1) + frame(entry_enc(batch[upto - 1]), atomic && upto - 1 < batch.len() - 1, hbit)
    }
}
pub open spec fn sum_enc(batch: Seq<Entry>, upto: int) -> int
    decreases upto
{ if upto <= 0 { 0 } else { sum_enc(batch, upto - 1) + entry_enc(batch[upto - 1]).len() } }
pub proof fn lemma_frames_len(batch: Seq<Entry>, atomic: bool, hbit: bool, upto: int)
    requires 0 <= upto <= batch.len(), entries_ok(batch)
    ensures frames(batch, atomic, hbit, upto).len() == 8 * upto + sum_enc(batch, upto),
        0 <= sum_enc(batch, upto) <= upto * 0x1000_0000
    decreases upto
{
    if upto > 0 {
        lemma_frames_len(batch, atomic, hbit, upto - 1);
        lemma_frame_len(entry_enc(batch[upto - 1]), atomic && upto - 1 < batch.len() - 1, hbit);
    }
}
pub proof fn lemma_sum_enc_mono(batch: Seq<Entry>, a: int, b: int)
    requires 0 <= a <= b
    ensures sum_enc(batch, a) <= sum_enc(batch, b)
    decreases b - a
{ if a < b { lemma_sum_enc_mono(batch, a, b - 1); } }
pub open spec fn entries_ok(batch: Seq<Entry>) -> bool {
    forall|i: int| 0 <= i < batch.len() ==> (#[trigger] batch[i]).enc_ok() && 0 < entry_enc(batch[i]).len() < 0x1000_0000
}
pub open spec fn header_small_spec(h: Header) -> bool { h.user_data@.len() == 0 }
pub open spec fn flushable(info: StoreInfo) -> bool {
    if info.info_type == StoreInfoType::Content { if !info.miss { info.data is Some } else { info.length is Some } } else { info.miss }
}
pub open spec fn is_write(info: StoreInfo, store: Store, at: int, data: Seq<u8>) -> bool {
    info.store == store && info.info_type == StoreInfoType::Content && !info.miss && info.index == at
        && info.data is Some && info.data->Some_0@ == data
}

impl Oplog {
    /*@ fn src/oplog/mod.rs Oplog::append_entries
    tags: C01 C02 C06 C10 C03
    result: r
    requires:
        entries_ok(batch@), batch@.len() <= 4,
        old(self).entries_byte_length <= 0xffff_ffff_ffff, old(self).entries_length <= 0xffff_ffff_ffff
    ensures:
        r is Ok,
        final(self).header_bits == old(self).header_bits,
        r is Ok ==> r->Ok_0@.len() == 1,
        // written directly after the entries already in the log, carrying the current header bit
        r is Ok ==> is_write(r->Ok_0@[0], Store::Oplog, 8192 + old(self).entries_byte_length,
            frames(batch@, atomic, Oplog::cur_hbit(old(self).header_bits), batch@.len() as int)),
        r is Ok ==> final(self).entries_length == old(self).entries_length + batch@.len(),
        r is Ok ==> final(self).entries_byte_length == old(self).entries_byte_length
            + frames(batch@, atomic, Oplog::cur_hbit(old(self).header_bits), batch@.len() as int).len()
    sub `OplogSlot::Entries as u64` => `vp_slot_value(&OplogSlot::Entries)`
    sub `for e in batch\.iter\(\) \{` => `for e in it1: batch.iter() {`
    sub `for entry in batch\.iter\(\) \{` => `for entry in it2: batch.iter() {`
    loop 1:
        invariant
            entries_ok(batch@), batch@.len() <= 4, len == batch@.len(),
            size == 8 * len + sum_enc(batch@, it1.index@ as int),
            0 <= sum_enc(batch@, it1.index@ as int) <= it1.index@ * 0x1000_0000
    loop 2:
        invariant
            entries_ok(batch@), batch@.len() <= 4, len == batch@.len(),
            i == it2.index@,
            header_bit == Oplog::cur_hbit(self.header_bits),
            size == 8 * len + sum_enc(batch@, len as int),
            fin0 == frames(batch@, atomic, header_bit, i as int) + (*final(rest))@,
            (*rest)@.len() == size - (8 * i + sum_enc(batch@, i as int))
    after `let mut rest = buffer.as_mut_slice();`:
        let ghost fin0 = (*final(rest))@;
        proof { lemma_frames_len(batch@, atomic, header_bit, 0); }
    before `rest = encode_with_leader(entry, partial_bit, header_bit, rest)?;`:
        proof {
            lemma_frames_len(batch@, atomic, header_bit, i as int);
            lemma_frames_len(batch@, atomic, header_bit, i + 1);
            lemma_frames_len(batch@, atomic, header_bit, len as int);
            lemma_sum_enc_mono(batch@, i + 1, len as int);
        }
    before `let index = `:
        proof {
            lemma_frames_len(batch@, atomic, header_bit, len as int);
            assert(buffer@ == fin0);
        }
    @*/
}

pub open spec fn clear_entry_enc(start: u64, length: u64) -> Seq<u8> { seq![8u8] + (seq![1u8] + enc_uint(start) + enc_uint(length)) }

impl Oplog {
    /*@ fn src/oplog/mod.rs Oplog::clear
    tags: C01 C02 C06 C10
    result: r
    requires:
        start <= end,
        old(self).entries_byte_length <= 0xffff_ffff_ffff, old(self).entries_length <= 0xffff_ffff_ffff
    ensures:
        r is Ok,
        final(self).header_bits == old(self).header_bits,
        r is Ok ==> r->Ok_0@.len() == 1,
        // one entry: flags = 8 (bitfield only), drop = 1, start, length
        r is Ok ==> is_write(r->Ok_0@[0], Store::Oplog, 8192 + old(self).entries_byte_length,
                   frame(clear_entry_enc(start, (end - start) as u64), false, Oplog::cur_hbit(old(self).header_bits))),
        r is Ok ==> final(self).entries_byte_length == old(self).entries_byte_length + 8 + clear_entry_enc(start, (end - start) as u64).len(),
        r is Ok ==> final(self).entries_length == old(self).entries_length + 1
    before `self.append_entries(&[entry], false)`:
        proof {
            reveal_with_fuel(entry_tail, 6);
            reveal_with_fuel(frames, 3);
            reveal_with_fuel(sum_enc, 3);
            assert(0 < entry_enc(entry).len() < 64);
            assert(8u8 == 0u8 | 0u8 | 0u8 | 8u8) by (bit_vector);
            assert(entry_enc(entry) =~= clear_entry_enc(start, (end - start) as u64));
            let h = Oplog::cur_hbit(self.header_bits);
            assert(frames(seq![entry], false, h, 1) =~= frame(entry_enc(entry), false, h));
            lemma_frame_len(entry_enc(entry), false, h);
        }
    @*/

    /*@ fn src/oplog/mod.rs Oplog::flush
    tags: C02 C06 C12 C10
    result: r
    requires:
        header_fits(*header)
    ensures:
        r is Ok,
        final(self).entries_byte_length == 0, final(self).entries_length == 0,
        // ordinary flush: the non-live slot is rewritten and becomes live, entries are truncated away
        !clear_traces ==> r->Ok_0@.len() == 2
            && is_slot_write(r->Ok_0@[0], if Oplog::cur_hbit(old(self).header_bits) { 0int } else { 4096int }, *header,
                   if Oplog::cur_hbit(old(self).header_bits) { !old(self).header_bits[0] } else { !old(self).header_bits[1] },
                   8 + 2 * header_enc(*header).len() as int)
            && is_truncate(r->Ok_0@[1], Store::Oplog, 8192)
            && Oplog::cur_hbit(final(self).header_bits) != Oplog::cur_hbit(old(self).header_bits),
        // C06: the bits kept in memory are the bits that are now on disk - the slot that was written has its new bit, the other one
        // is unchanged (an entry appended next carries the current header bit of the FILE, or it would be ignored on reopen)
        !clear_traces ==> (if Oplog::cur_hbit(old(self).header_bits) { final(self).header_bits[0] == !old(self).header_bits[0] && final(self).header_bits[1] == old(self).header_bits[1] }
                           else { final(self).header_bits[1] == !old(self).header_bits[1] && final(self).header_bits[0] == old(self).header_bits[0] }),
        clear_traces ==> final(self).header_bits[0] == !old(self).header_bits[0] && final(self).header_bits[1] == !old(self).header_bits[1],
        // clearing traces: BOTH slots are rewritten, each zero-padded to the full 4096 bytes. C02 (crash between any two of these
        // operations): the first slot write makes the pending entries stale (the current header bit flips), the second one flips
        // it back - so the entries must be truncated away BETWEEN the two, otherwise a crash after the second write would replay
        // them on top of a header that already contains them
        clear_traces ==> r->Ok_0@.len() == 3
            && is_slot_write(r->Ok_0@[0], if Oplog::cur_hbit(old(self).header_bits) { 0int } else { 4096int }, *header,
                   if Oplog::cur_hbit(old(self).header_bits) { !old(self).header_bits[0] } else { !old(self).header_bits[1] }, 4096)
            && is_truncate(r->Ok_0@[1], Store::Oplog, 8192)
            && is_slot_write(r->Ok_0@[2], if Oplog::cur_hbit(old(self).header_bits) { 4096int } else { 0int }, *header,
                   if Oplog::cur_hbit(old(self).header_bits) { !old(self).header_bits[1] } else { !old(self).header_bits[0] }, 4096)
    sub `combined_infos_to_flush\.extend\((\w+)\.into_vec\(\)\.drain\(0\.\.1\)\)` => `vp_extend(&mut combined_infos_to_flush, vp_take_first(\1.into_vec()))`
    @*/
}

pub proof fn lemma_node_seq_len(s: Seq<Node>)
    requires forall|i: int| 0 <= i < s.len() ==> (#[trigger] s[i]).hash@.len() == 32
    ensures enc_seq(s).len() <= 50 * s.len()
    decreases s.len()
{
    if s.len() > 0 {
        lemma_node_seq_len(s.skip(1));
        assert(forall|i: int| 0 <= i < s.skip(1).len() ==> s.skip(1)[i] == s[i + 1]);
    }
}
pub open spec fn nodes_same(a: Seq<Node>, b: Seq<Node>) -> bool {
    a.len() == b.len() && forall|i: int| 0 <= i < a.len() ==> Node::eqv(#[trigger] a[i], b[i])
}
pub open spec fn header_same_except_tree(a: Header, b: Header) -> bool {
    a.key == b.key && a.manifest == b.manifest && a.key_pair == b.key_pair && a.user_data == b.user_data && a.hints == b.hints
}

impl Oplog {
    /*@ fn src/oplog/mod.rs Oplog::update_header_with_changeset
    tags: C01 C02 C04 C05 C06 C03
    result: r
    requires:
        changeset.upgraded ==> changeset.hash is Some && changeset.signature is Some
    ensures:
        r is Ok,
        *final(self) == *old(self),
        r->Ok_0.user_data@.len() == 0,
        r->Ok_0.bitfield == bitfield_update,
        nodes_same(r->Ok_0.tree_nodes@, changeset.nodes@),
        header_same_except_tree(*final(header), *old(header)),
        // what is stored in the header and logged in the entry is exactly what the changeset carries
        changeset.upgraded ==> r->Ok_0.tree_upgrade is Some
            && r->Ok_0.tree_upgrade->Some_0.fork == changeset.fork
            && r->Ok_0.tree_upgrade->Some_0.ancestors == changeset.ancestors
            && r->Ok_0.tree_upgrade->Some_0.length == changeset.length
            && r->Ok_0.tree_upgrade->Some_0.signature@ == changeset.signature->Some_0.sig_bytes()
            && final(header).tree.root_hash@ == changeset.hash->Some_0@
            && final(header).tree.signature@ == changeset.signature->Some_0.sig_bytes()
            && final(header).tree.length == changeset.length
            && final(header).tree.fork == old(header).tree.fork,
        !changeset.upgraded ==> r->Ok_0.tree_upgrade is None && *final(header) == *old(header)
    @*/
}

impl Clone for HeaderTree {
    #[verifier::external_body]
    fn clone(&self) -> (r: Self) ensures r.fork == self.fork, r.length == self.length, r.root_hash@ == self.root_hash@, r.signature@ == self.signature@ { unimplemented!() }
}
impl Clone for Header {
    #[verifier::external_body]
    fn clone(&self) -> (r: Self) ensures header_eqv(r, *self), r.key_pair == self.key_pair, r.key == self.key, r.manifest == self.manifest,
        r.user_data == self.user_data, r.hints == self.hints, header_enc(r) == header_enc(*self) { unimplemented!() }
}

/*@ fn src/crypto/manifest.rs fn default_signer_manifest
tags: C06 C12
result: r
ensures:
    r.hash@ == "blake2b"@, r.signer.signature@ == "ed25519"@, r.signer.public_key == public_key, r.signer.namespace == DEFAULT_NAMESPACE
@*/
impl HeaderTree {
    /*@ fn src/oplog/header.rs HeaderTree::new
    tags: C06 C12 C01
    result: r
    ensures:
        r.fork == 0, r.length == 0, r.root_hash@.len() == 0, r.signature@.len() == 0
    @*/
}
impl Header {
    /*@ fn src/oplog/header.rs Header::new
    tags: C06 C12 C01
    result: r
    ensures:
        r.key_pair == key_pair, r.key@ == key_pair.public.bytes(),
        r.user_data@.len() == 0, r.hints.reorgs@.len() == 0, r.hints.contiguous_length == 0,
        r.tree.fork == 0, r.tree.length == 0, r.tree.root_hash@.len() == 0, r.tree.signature@.len() == 0,
        r.manifest.signer.public_key@ == key_pair.public.bytes(),
        header_fits(r)
    @*/
}

impl OplogOpenOutcome {
    /*@ fn src/oplog/mod.rs OplogOpenOutcome::new
    tags: C01 C06
    result: r
    ensures:
        r.oplog == oplog, r.header == header, r.infos_to_flush == infos_to_flush, r.entries is None
    @*/
    /*@ fn src/oplog/mod.rs OplogOpenOutcome::from_create_header_outcome
    tags: C01 C06
    result: r
    ensures:
        r.oplog == oplog, r.header == create_header_outcome.header, r.infos_to_flush == create_header_outcome.infos_to_flush, r.entries is None
    @*/
}

impl Oplog {
    /*@ fn src/oplog/mod.rs Oplog::append_changeset
    tags: C01 C02 C04 C05 C06 C10 C03
    result: r
    requires:
        changeset.upgraded ==> changeset.hash is Some && changeset.signature is Some,
        changeset.nodes@.len() <= 0x40_0000,
        forall|i: int| 0 <= i < changeset.nodes@.len() ==> (#[trigger] changeset.nodes@[i]).hash@.len() == 32,
        old(self).entries_byte_length <= 0xffff_ffff_ffff, old(self).entries_length <= 0xffff_ffff_ffff
    ensures:
        r is Ok,
        final(self).header_bits == old(self).header_bits,
        r is Ok ==> final(self).entries_length == old(self).entries_length + 1,
        r is Ok ==> header_same_except_tree(r->Ok_0.header, *header),
        r is Ok ==> r->Ok_0.infos_to_flush@.len() == 1 && flushable(r->Ok_0.infos_to_flush@[0]),
        r is Ok ==> final(self).entries_byte_length <= old(self).entries_byte_length + 0x1000_0008,
        r is Ok ==> (exists|e: Entry| #![trigger entry_enc(e)]
            e.user_data@.len() == 0 && e.bitfield == bitfield_update && nodes_same(e.tree_nodes@, changeset.nodes@)
            && (e.tree_upgrade is Some) == changeset.upgraded
            && (changeset.upgraded ==> e.tree_upgrade->Some_0.fork == changeset.fork && e.tree_upgrade->Some_0.ancestors == changeset.ancestors
                && e.tree_upgrade->Some_0.length == changeset.length && e.tree_upgrade->Some_0.signature@ == changeset.signature->Some_0.sig_bytes())
            && is_write(r->Ok_0.infos_to_flush@[0], Store::Oplog, 8192 + old(self).entries_byte_length,
                   frame(entry_enc(e), atomic && false, Oplog::cur_hbit(old(self).header_bits)))
            && final(self).entries_byte_length == old(self).entries_byte_length + 8 + entry_enc(e).len()),
        r is Ok && changeset.upgraded ==> r->Ok_0.header.tree.root_hash@ == changeset.hash->Some_0@
            && r->Ok_0.header.tree.signature@ == changeset.signature->Some_0.sig_bytes()
            && r->Ok_0.header.tree.length == changeset.length && r->Ok_0.header.tree.fork == header.tree.fork,
        r is Ok && !changeset.upgraded ==> header_eqv(r->Ok_0.header, *header)
    before `Ok(OplogCreateHeaderOutcome {`:
        proof {
            reveal_with_fuel(entry_tail, 6);
            reveal_with_fuel(frames, 3);
            reveal_with_fuel(sum_enc, 3);
            lemma_node_seq_len(entry.tree_nodes@);
            assert(0 < entry_enc(entry).len() < 0x1000_0000);
            let h = Oplog::cur_hbit(self.header_bits);
            assert(frames(seq![entry], atomic, h, 1) =~= frame(entry_enc(entry), atomic && false, h));
            lemma_frame_len(entry_enc(entry), atomic && false, h);
        }
        let ghost e0 = entry;
    @*/

    /*@ fn src/oplog/mod.rs Oplog::fresh
    tags: C01 C06 C12
    result: r
    ensures:
        r is Ok,
        r is Ok ==> r->Ok_0.oplog.header_bits[0] == false && r->Ok_0.oplog.header_bits[1] == false
            && r->Ok_0.oplog.entries_length == 0 && r->Ok_0.oplog.entries_byte_length == 0
            && r->Ok_0.entries is None
            && r->Ok_0.header.key_pair == key_pair && header_fits(r->Ok_0.header)
            && r->Ok_0.infos_to_flush@.len() == 2
            && is_slot_write(r->Ok_0.infos_to_flush@[0], 0, r->Ok_0.header, false, 8 + 2 * header_enc(r->Ok_0.header).len() as int)
            && is_truncate(r->Ok_0.infos_to_flush@[1], Store::Oplog, 8192)
    @*/
}

/// a header slot as a reader sees it: region [off, off+4096) of the file, if the file is long enough
pub open spec fn slot_leader(existing: Seq<u8>, off: int) -> Option<LeaderSpec> {
    if existing.len() >= off + 4096 { leader_at(existing.subrange(off, off + 4096)) } else { None }
}
/// header bits after open, per the JS rules
pub open spec fn open_bits(existing: Seq<u8>) -> [bool; 2] {
    let v1 = slot_leader(existing, 0); let v2 = slot_leader(existing, 4096);
    if v1 is Some && v2 is Some { [v1->Some_0.hbit, v2->Some_0.hbit] }
    else if v1 is Some { [v1->Some_0.hbit, v1->Some_0.hbit] }
    else if v2 is Some { [!v2->Some_0.hbit, v2->Some_0.hbit] }
    else { [false, false] }
}
/// which slot holds the live header: both valid and bits equal -> first, both valid and different -> second, else the valid one
pub open spec fn live_slot(existing: Seq<u8>) -> int {
    let v1 = slot_leader(existing, 0); let v2 = slot_leader(existing, 4096);
    if v1 is Some && v2 is Some { if v1->Some_0.hbit == v2->Some_0.hbit { 0 } else { 4096 } }
    else if v1 is Some { 0 } else { 4096 }
}

impl Oplog {
    /*@ fn src/oplog/mod.rs Oplog::open ; noisolation
    tags: C01 C02 C06 C07 C12 C10 C03
    result: r
    requires:
        info is Some ==> info->Some_0.data is Some && info->Some_0.data->Some_0@.len() <= 0xffff_ffff_ffff
    ensures:
        info is None ==> r is Ok && r->Ok_0 is Left && r->Ok_0->Left_0.store == Store::Oplog
            && r->Ok_0->Left_0.info_type == StoreInfoType::Content && r->Ok_0->Left_0.index == 0 && r->Ok_0->Left_0.length is None && !r->Ok_0->Left_0.allow_miss,
        // C07: a valid header slot is enough to open, whatever the other slot holds
        info is Some && r is Ok ==> r->Ok_0 is Right
            && (forall|i: int| 0 <= i < r->Ok_0->Right_0.infos_to_flush@.len() ==> flushable(#[trigger] r->Ok_0->Right_0.infos_to_flush@[i])
                    && r->Ok_0->Right_0.infos_to_flush@[i].store == Store::Oplog)
            && r->Ok_0->Right_0.infos_to_flush@.len() <= 2
            && manifest_std(r->Ok_0->Right_0.header.manifest),
        info is Some && r is Ok && (slot_leader(info->Some_0.data->Some_0@, 0) is Some || slot_leader(info->Some_0.data->Some_0@, 4096) is Some)
            ==> r->Ok_0->Right_0.oplog.header_bits == open_bits(info->Some_0.data->Some_0@)
                && r->Ok_0->Right_0.infos_to_flush@.len() == 0,
        // the counters describe the entries that were accepted, so that the next entry is appended after them
        info is Some && r is Ok && r->Ok_0->Right_0.entries is Some
            ==> r->Ok_0->Right_0.oplog.entries_length == r->Ok_0->Right_0.entries->Some_0@.len()
                && r->Ok_0->Right_0.oplog.entries_byte_length + 8192 <= info->Some_0.data->Some_0@.len()
                && r->Ok_0->Right_0.oplog.entries_byte_length >= 8 * r->Ok_0->Right_0.oplog.entries_length,
        info is Some && r is Ok && r->Ok_0->Right_0.entries is None
            ==> r->Ok_0->Right_0.oplog.entries_length == 0 && r->Ok_0->Right_0.oplog.entries_byte_length == 0
    sub `OplogSlot::FirstHeader as usize\.\.OplogSlot::SecondHeader as usize` => `(vp_slot_value(&OplogSlot::FirstHeader) as usize)..(vp_slot_value(&OplogSlot::SecondHeader) as usize)`
    sub `OplogSlot::SecondHeader as usize\.\.OplogSlot::Entries as usize` => `(vp_slot_value(&OplogSlot::SecondHeader) as usize)..(vp_slot_value(&OplogSlot::Entries) as usize)`
    sub `OplogSlot::Entries as usize` => `(vp_slot_value(&OplogSlot::Entries) as usize)`
    sub `byte_lengths\.iter\(\)\.sum\(\)` => `vp_sum_u64(&byte_lengths)`
    before `let mut entries: Vec<Entry> = Vec::new();`:
        let ghost region0 = entries_buff@;
        let ghost mut leader_partials: Seq<bool> = Seq::empty();
    loop 1:
        invariant
            // C02 (atomic batches): the partial flag kept for an entry is the one its leader carries
            partials@ == leader_partials,
            entries@.len() == partials@.len(), entries@.len() == byte_lengths@.len(),
            region0.len() <= 0xffff_ffff_ffff,
            spec_sum_u64(byte_lengths@) + entries_buff@.len() == region0.len(),
            forall|i: int| 0 <= i < byte_lengths@.len() ==> byte_lengths@[i] >= 8
        decreases entries_buff@.len()
    loop 2:
        invariant
            partials@ == leader_partials.subrange(0, partials@.len() as int), partials@.len() <= leader_partials.len(),
            forall|k: int| partials@.len() <= k < leader_partials.len() ==> leader_partials[k],
            entries@.len() == partials@.len(), entries@.len() == byte_lengths@.len(),
            spec_sum_u64(byte_lengths@) <= region0.len(),
            forall|i: int| 0 <= i < byte_lengths@.len() ==> byte_lengths@[i] >= 8
        decreases partials@.len()
    before `outcome.oplog.entries_length = entries.len() as u64;`:
        proof { lemma_sum_u64_lower(byte_lengths@, 8); }
        // C02: what is replayed never ends inside an atomic batch - the entries after the last complete one are dropped,
        // and nothing else is (the kept entries are a prefix of the valid ones that ends with a non-partial leader)
        assert(entries@.len() > 0 ==> !leader_partials[entries@.len() - 1]);
        assert(forall|k: int| entries@.len() <= k < leader_partials.len() ==> leader_partials[k]);
    before `// Remove all trailing partial entries`:
        proof { lemma_sum_u64_nonneg(byte_lengths@); assert(partials@.subrange(0, partials@.len() as int) =~= partials@); }
    before `byte_lengths.pop();`:
        let ghost bl1 = byte_lengths@;
    after `byte_lengths.pop();`:
        proof { lemma_sum_u64_nonneg(byte_lengths@); assert(bl1.drop_last() =~= byte_lengths@); }
    before `entries.push(res.0);`:
        // C02: an entry is replayed only if it carries the header bit of the current header; entries written before the last
        // header flush carry the other bit: they are already contained in that header and must not be applied again
        assert(entry_outcome.header_bit == Oplog::cur_hbit(outcome.oplog.header_bits));
    before `byte_lengths.push((entries_buff.len() - res.1.len()) as u64);`:
        let ghost bl0 = byte_lengths@;
        proof { leader_partials = leader_partials.push(entry_outcome.partial_bit); }
    after `byte_lengths.push((entries_buff.len() - res.1.len()) as u64);`:
        assert(byte_lengths@.drop_last() =~= bl0);
    @*/
}

